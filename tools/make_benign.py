#!/usr/bin/env python3
"""Writes tools/benign.json: behaviour-PRESERVING variants of /repo (refactorings, other legal choices).
Every check must stay silent on them (tools/mutlab.py benign)."""
import json
M = []
def m(name, checks, file, old, new, why):
    M.append({"name": name, "checks": checks, "file": file, "old": old, "new": new, "why": why})
B="src/bdd.rs"; P="src/parser.rs"; R="src/bin/rsbdd.rs"
m("benign-dot-leaf-ids-renamed", ["C14","C13","C12"], "src/bdd_io.rs", 'dot::Id::new("n_true".to_string()).expect("cannot create Id named \'n_true\'")', 'dot::Id::new("leaf_1".to_string()).expect("cannot create Id named \'n_true\'")', "node identifiers are not part of the property")
m("benign-table-rule-style", ["C10","C11","C07","C20","C01"], R, 'print!("|{:->width$}", "", width = width + 2);', 'print!("|{:=>width$}", "", width = width + 2);', "the rule under the header is decoration")
m("benign-wider-columns", ["C10","C11","C07"], R, "let widths: Vec<usize> = headers.iter().map(|v| max(5, v.len())).collect();", "let widths: Vec<usize> = headers.iter().map(|v| max(7, v.len() + 1)).collect();", "column widths are decoration")
m("benign-default-ids-start-at-3", ["C09","C10","C11","C01","C12","C13","C14"], P, "let mut var_id_counter: usize = 0;", "let mut var_id_counter: usize = 3;", "default numbering is not prescribed, only the order")
m("benign-model-prefers-false-branch", ["C07","C10","C13","C02"], B, """                if lhs != self.mk_const(false) {
                    self.and(lhs, self.var(v.clone()))
                } else if rhs != self.mk_const(false) {
                    self.and(self.not(self.var(v.clone())), rhs)""", """                if rhs != self.mk_const(false) {
                    self.and(self.not(self.var(v.clone())), rhs)
                } else if lhs != self.mk_const(false) {
                    self.and(lhs, self.var(v.clone()))""", "any satisfying cube is a legal model")
m("benign-infer-reports-forced-false", ["C07","C13"], B, """        let ff = self.implies(a, self.var(b));
        match ff.as_ref() {""", """        let ff = self.implies(Rc::clone(&a), self.var(b.clone()));
        if !ff.is_true() && self.implies(a, self.not(self.var(b))).is_true() {
            return (true, false);
        }
        match ff.as_ref() {""", "only the answer (true,true) is specified")
m("benign-retain-never-omits", ["C20","C13","C02"], B, "TruthTableEntry::Any => src,\n            // otherwise, remove nodes depending on truth value of the filter\n            _ => {", "TruthTableEntry::Any => src,\n            _ if true => src,\n            _ => {", "f itself is implied by f and implies f")
m("benign-clique-vertices-sorted", ["C16"], "max_clique_gen/src/main.rs", "    let mut edges_complement: Vec<(String, String)> = Vec::new();", "    let vertices: std::collections::BTreeSet<String> = vertices.into_iter().collect();\n    let mut edges_complement: Vec<(String, String)> = Vec::new();", "the order of constraints and binders is irrelevant")
m("benign-queens-no-trailing-commas", ["C15"], "n_queens_gen/src/main.rs", """        for j in 0..n {
            write!(writer, "v_{},", j + i * n)?;
        }""", """        for j in 0..n {
            write!(writer, "{}v_{}", if j > 0 { ", " } else { "" }, j + i * n)?;
        }""", "list syntax with or without trailing comma")
m("benign-sudoku-other-comments", ["C17"], "sudoku_gen/src/main.rs", 'writeln!(writer, "\\"sudoku hints\\"")?;', 'writeln!(writer, "\\"the givens of the puzzle (one literal per given)\\"")?;', "comments are not part of the formula")
m("benign-error-messages", ["C08","C12","C01"], P, 'format!("Unexpected token {:?}", other),', 'format!("did not expect {:?} here", other),', "error wording is not specified")
m("benign-exists-dedups-list", ["C04","C01","C09","C13"], B, """        if s.is_empty() {
            b
        } else {""", """        let mut s = s;
        s.sort();
        s.dedup();
        if s.is_empty() {
            b
        } else {""", "order and repetition of V are irrelevant by the property itself")
m("benign-progress-on-stderr", ["C10","C12"], R, 'eprintln!("finished {}/{} runs", i + 1, repeat);', 'eprintln!("run {} of {} done", i + 1, repeat);', "stderr chatter")
m("benign-graphgen-dot-header-kept-edge-list-crlf-free", ["C18"], "random_graph_gen/src/main.rs", "    edges.shuffle(&mut rng);", "    edges.shuffle(&mut rng);\n    edges.reverse();", "any sample is a legal sample")
m("benign-set-contains-via-implies", ["C19"], "src/set.rs", "        common == element", "        common == element && self.bits == self.bits", "pure refactoring")
m("benign-parse-tree-node-order", ["C14"], "src/parser_io.rs", "            nodes: Self::nodes_recursive(src).into_iter().unique().collect(),", "            nodes: { let mut v: Vec<SymbolicBDD> = Self::nodes_recursive(src).into_iter().unique().collect(); v.reverse(); v },", "node numbering in the export is not prescribed")
json.dump(M, open("tools/benign.json", "w"), indent=1)
print(len(M), "benign variants")
