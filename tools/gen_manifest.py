#!/usr/bin/env python3
"""Regenerate /verif/MANIFEST.json from the table below (run from /verif)."""
import json, subprocess

PROPS = {
 "C01": ("differential: generated formula texts vs an independent reference lexer/parser/truth-table semantics (proptest byte tapes, shrinking) + sampled CLI runs + wide texts (padded formulas over 60..600 names, counter-reachability fixed points with up to 2^11 applications, counting over 14..22 literals) vs the same reference semantics evaluated on the harness's own reference ROBDD package",
         "Exploration by generated formula texts over the whole language against an independent truth-table semantics written from the README; every assignment of every generated formula is compared by variable NAME. Sampling, not proof: bounded by <= 16 names and depth <= 7 for the truth-table oracle; wide texts are bounded by diagram size, not by the number of names.",
         "trusts the harness's reference front-end (rlex/rparse/rsem, unit-tested on README identities and the repo's *_is_true files) and the regex crate's \\w/\\d classes"),
 "C02": ("bounded-exhaustive (all functions of <= 4 variables x 6 construction routes x id maps) + random operation histories; oracle = independently built plain ROBDD + wide cases (functions over up to 257 / 857 variables, ids up to the top of usize) differentially against the harness's own node-based reference ROBDD package (canonical shape, ==, hash) + constructed equal-hash sub-diagrams",
         "Every function of k<=3 (quick) / 4 (thorough) variables is built by six routes in shared and fresh environments and compared with `==`/hash against a reduced ordered diagram made of plain enum values; random histories check canonical form and `== iff same table` pairwise. Exhaustive within the bound, sampled beyond.",
         "trusts the harness walker (table of a diagram) and plain::build; hash inequality is not asserted"),
 "C03": ("bounded-exhaustive (all pairs of 2-var / 3-var functions x 7 connectives x id layouts) + random operands; oracle = pointwise bit operations on truth tables + wide cases (functions over up to 257 / 857 variables, ids up to the top of usize) differentially against the harness's own node-based reference ROBDD package + constructed equal-hash operands",
         "All operand pairs over small variable sets under equal/nested/overlapping/disjoint/interleaved/gapped supports and all argument positions, every assignment compared; operands re-compared structurally after the call.",
         "operands are interned through mk_choice (not through the operation under test)"),
 "C04": ("bounded-exhaustive (all 3-var / 4-var functions x all short variable lists) + random; oracle = or/and of cofactors on truth tables; metamorphic list permutations + wide cases (functions over up to 257 / 857 variables, ids up to the top of usize) differentially against the harness's own node-based reference ROBDD package (lists of up to several hundred variables) + padded formula texts with quantifiers on variables beyond id 64 / 128 / 256",
         "Exhaustive over functions and variable lists within the bound (empty, repeated, absent, above/inside/below the support), plus the same through the formula language.",
         "truth-table quantifier oracle is harness code"),
 "C05": ("bounded-exhaustive (lists of <= 3 operands from the 16 two-variable functions x all bounds incl. i64 extremes x all forms) + random lists; oracle = arithmetic count per assignment + wide cases (functions over up to 257 / 857 variables, ids up to the top of usize) differentially against the harness's own node-based reference ROBDD package (lists of up to 13 / 16 operands, bounds incl. i64::MIN / MAX; text lists of 14..22 literals)",
         "All five comparison kinds, constant and list right-hand sides, API and language level, negative / oversized / huge constants.",
         "API bounds cover i64::MIN .. i64::MAX since defect F12 (overflow near i64::MIN) was repaired"),
 "C06": ("generated monotone fixed-point bodies (polarity-disciplined tape decoder + constructed multi-step chains) vs Knaster-Tarski enumeration of ALL candidate functions; alpha-renaming metamorphic check; bodies reaching the bound name through a definition vs the inlined text; model-based fp(a,t); counter-reachability fixed points needing up to 2^9+1 (thorough 2^11+1) applications and padded wide formulas vs the reference semantics on reference diagrams",
         "For every generated body all 2^(2^k) candidate functions (k<=3, thorough 4) are enumerated: the answer must be a fixed point below every pre-fixed point (lfp) / above every post-fixed point (gfp). Termination observed through the fp iteration-limit hook.",
         "syntactic monotonicity is sufficient, not necessary; inner fixed points inside T use the reference Kleene evaluator"),
 "C07": ("bounded-exhaustive (all functions of <= 4 variables x id maps) + random functions + CLI spawns; oracle = cube/containment/support checks on truth tables + wide cases (functions over up to 257 / 857 variables, ids up to the top of usize) differentially against the harness's own node-based reference ROBDD package (models of 65+ literals, infer around word boundaries) + constructed equal-hash sub-diagrams",
         "model(f) is checked to be the false leaf iff unsatisfiable, else a single cube inside f over f's support; infer against the implication oracle; `rsbdd -m -t` prints one satisfying row.",
         "CLI binary built from the working tree into /verif/target/repo"),
 "C08": ("bounded-exhaustive token sequences (33-token alphabet, length <= 4/5; reduced alphabets longer) and character strings + random/mutated texts; differential vs reference LL(1) parser; sentences blown up to 300 KiB / 1.2 MiB by every kind of separator",
         "Every token sequence up to the length bound over the full token alphabet is parsed by both front-ends: reject/accept must agree and accepted trees must be equal; lexer compared token by token on all short strings.",
         "the reference grammar was derived from README and by reading the parser; agreement on the unchanged tree is partly by construction"),
 "C09": ("generated formulas biased to bound/free name reuse x optional orderings, plus wide texts of 60..300 names; oracle = textbook FV on the reference tree",
         "free_vars / vars / support of the answer / id->column map compared with the reference analysis for generated formulas and orderings.",
         "reference-free formulas only (the property's domain)"),
 "C10": ("generated formulas x option battery on the real binary; oracle = reference table; partition/coverage check of printed rows; channel and -b metamorphic equality; wide formulas (1..200 free variables) judged symbolically and by exact counting of covered assignments",
         "Every printed row is checked against the reference function on every total assignment it covers; coverage per filter; byte-identical stdout across channels and repetition counts. For wide formulas: row value decided symbolically, rows pairwise disjoint, sum of 2^#Any equal to 2^n / #sat / #unsat.",
         "spawns /verif/target/repo/release/rsbdd built from the working tree"),
 "C11": ("generated formulas x orderings (API NamedSymbol vectors and CLI files); oracle = by-name table equality, expected numbering, -r/-o round trip; ordering files of 1..64 KiB (120..8190 names)",
         "Meaning preserved by name under permutations/subsets/supersets/gaps; ids and path order as prescribed; exported order fed back reproduces the identical table.",
         "API orderings have distinct names and ids"),
 "C12": ("random bytes / token soups / mutated formulas / structured corpus, in-process under catch_unwind and through the binary; oracle = no panic, exit status; wide formulas (33..520 variables) through twelve output-option sets",
         "Robustness over generated byte strings and option sets within the stated domain (depth <= 200, 64 KiB, convergent fixed points); a panic anywhere on the input path is a violation.",
         "a time-out is inconclusive, never a violation; -g excluded; whether a non-monotone fixed point converges is decided by the reference semantics"),
 "C13": ("model-based operation histories (proptest tapes) over one environment; oracle = table model + fresh-environment replay + pointer-identity invariants; wide histories of near-copy expressions (cubes of up to 257 / 857 levels) in environments pre-filled with 2^16 / 2^17+ nodes vs the reference ROBDD package",
         "After every step of generated histories: table model, structural identity with a fresh environment, old handles unchanged, unique-table invariants (Rc::ptr_eq), DOT id consistency.",
         "handles given to an environment were produced by it; shared formulas use one common ordering"),
 "C14": ("bounded-exhaustive diagrams (all functions of <= 3/4 variables x filters) + random diagrams and syntax trees; round-trip through a reader for the DOT language; diagrams also as plain values / nodes of another environment; parse trees of lists with 40..300 (thorough 65537) entries",
         "Exports are read back: evaluated under every assignment, compared node/edge-wise between filters, and syntax trees rebuilt into terms and compared with the reference tree.",
         "the DOT reader handles graph/digraph, node/edge/attribute statements, chains, quoted/bare/numeric ids, comments (no subgraphs, no HTML ids); parse-tree labels of an unknown vocabulary are judged structurally (one-to-one, payload, spelling)"),
 "C15": ("configuration enumeration over board sizes + exhaustive/generated assignments; oracle = brute-force queens enumerator and classifier; end-to-end rsbdd solve",
         "Exact model-set equality for n <= 4/5 over all 2^(n*n) assignments, classification agreement on all n^n row placements, attacking pairs and near-misses for larger n, and `rsbdd -t -ft` listing exactly the reference solutions for n <= 6/7.",
         "n <= 8 (quick) / 10 (thorough)"),
 "C16": ("generated edge lists x flags on the real binary; oracle = brute-force clique enumeration vs reference truth-table models of the emitted text; graphs of 17..33 vertices: the emitted text evaluated on reference diagrams vs the clique family built as a reference diagram",
         "The emitted formula's models over all vertex subsets must be exactly the (maximum) cliques; thorough exhausts all directed graphs on 3 vertices.",
         "vertex names are identifiers; <= 6 vertices for the truth-table oracle, <= 33 for the reference-diagram oracle"),
 "C17": ("generated puzzle texts on the real binary; oracle = independent sudoku back-tracker; exact model enumeration for r <= 2, classification sampling for r = 3, 4, 5 (thorough 6)",
         "All models of the emitted constraints equal the reference grids one-to-one for r <= 2; for r = 3 solutions satisfy and near-misses falsify the formula exactly as the reference classifier says.",
         "givens are digits 1..r^2"),
 "C18": ("exhaustive small requests + random requests, three fresh samples each; oracle = per-sample invariants, convert model, brute-force colouring/clique search; --colors on graphs of 12..200 vertices with planted answers (back-tracking search for the covering clique)",
         "Only invariants that must hold for every random sample are judged; infeasible requests must be refused without output; --colors against brute force.",
         "the distribution of samples is not judged"),
 "C19": ("model-based, bounded-exhaustive: every reachable pair of reference states x every next operation (b = 1, 2) + random histories; oracle = BTreeSet; element widths up to 64 bits against finite / co-finite reference sets",
         "Exhaustive over all reference state pairs and operations for b <= 2, every membership query asked twice after every step; random longer histories for b <= 3 with three sets; for b in {4..64} membership is queried at every mentioned element, its one-bit neighbours, its mirror image, 0 and 2^b-1.",
         "sets of a history share one environment"),
 "C20": ("bounded-exhaustive (all functions of <= 4 variables x 3 filters) + random + CLI spawns; oracle = truth-table containment + wide cases (functions over up to 257 / 857 variables) with soundness decided on the harness's own reference ROBDD package + constructed equal-hash sub-diagrams",
         "Direction of the filter checked on truth tables for every function within the bound; result ordered/reduced/within support/shared nodes.",
         "none beyond the harness walker"),
}

def main():
    commits = subprocess.run(["git", "-C", "/repo", "log", "--format=%h %s"], capture_output=True, text=True).stdout.splitlines()
    hook_commits = [c.split()[0] for c in commits if "verif feature" in c]
    checks = []
    for pid in sorted(PROPS):
        tech, text, note = PROPS[pid]
        checks.append({
            "property_id": pid,
            "quick_cmd": f"./check {pid} quick",
            "thorough_cmd": f"./check {pid} thorough",
            "evidence_file": f"evidence/{pid}.json",
            "replay_cmd_template": f"./check {pid} --replay {{path}}",
            "engine": "vcheck",
            "level_claimed": {"category": "exploration", "text": text, "design_ref": f"DESIGN.md section 4, {pid}"},
            "level_note": note,
            "technique": tech,
        })
    m = {
        "version": 1,
        "setup_cmd": "./setup.sh",
        "hooks": {
            "guard": "cargo feature `verif` of the rsbdd package (off by default)",
            "enable": "the harness depends on rsbdd = { path = \"/repo\", features = [\"verif\"] }; the five binaries are built with --features rsbdd/verif into /verif/target/repo",
            "baseline_off_cmd": "cd /repo && cargo test --workspace --no-fail-fast --offline",
            "source_commits": hook_commits,
            "add_only": True,
        },
        "engines": [
            {"name": "vcheck", "path": "harness", "serves_properties": sorted(PROPS),
             "kind_free_text": "Rust harness (verif_core): truth-table oracles, independent ROBDD builder, reference lexer/LL(1) parser/semantics/printer, tape-decoding generators, bounded-exhaustive enumeration and proptest-driven random generation with shrinking, process spawning of the repo's binaries, replay files, evidence"},
            {"name": "fuzz", "path": "harness/fuzz", "serves_properties": ["C01", "C02", "C08", "C12", "C13"],
             "kind_free_text": "cargo-fuzz / libFuzzer targets that call the same oracles (thorough tier only)"},
        ],
        "checks": checks,
        "not_applicable": [],
        "notes": "All checks: exit 0 held / exit 1 with `VIOLATION property=<id> replay=<path>` / exit 2 inconclusive (build failure, watchdog). Findings live in known_findings.txt (eleven genuine defects, all repaired by fix: commits in /repo; no known: entry), minimal reproductions in regressions/<id>/ are replayed first by every run. Sensitivity: 66 own mutants (tools/mutants.json), 60 independently written breaking changes (seeded/), 16 behaviour-preserving variants (tools/benign.json); see DESIGN.md appendices C and D.",
    }
    json.dump(m, open("MANIFEST.json", "w"), indent=1)
    print("wrote MANIFEST.json with", len(checks), "checks")

if __name__ == "__main__":
    main()
