#!/usr/bin/env python3
"""tools/seedcheck.py <ID> [check ids...]
Confirm a sub-agent's seeded change (/tmp/seed/<ID>/seed/{patch.diff,demo.rs|demo.sh,NOTES.md}) in the
scratch lab $MUTLAB (default /tmp/seedlab): the patch applies, the repository's own tests still pass, the
demonstration fails with the change and passes without it; then run the given checks against it and
store everything under /verif/seeded/<ID>[-n]/.
"""
import json, os, shutil, subprocess, sys, time
os.environ.setdefault("MUTLAB", "/tmp/seedlab")
sys.path.insert(0, os.path.dirname(os.path.abspath(__file__)))
import mutlab as L

def demo(seed_dir):
    """returns (ok: bool, detail) - ok = demonstration passes"""
    if os.path.exists(seed_dir + "/demo.rs"):
        shutil.copy(seed_dir + "/demo.rs", L.REPO + "/tests/seeded_demo.rs")
        rc, out = L.sh("cargo test --offline --test seeded_demo 2>&1 | grep -E '^test result|^error|panicked' | head -5", cwd=L.REPO, timeout=1200)
        os.remove(L.REPO + "/tests/seeded_demo.rs")
        ok = "test result: ok" in out and "error" not in out
        return ok, out.strip()[:400]
    if os.path.exists(seed_dir + "/demo.sh"):
        # demonstrations locate the repository relative to their own path: run a copy inside the lab
        shutil.rmtree(L.REPO + "/seed", ignore_errors=True)
        shutil.copytree(seed_dir, L.REPO + "/seed")
        rc, out = L.sh("bash seed/demo.sh", cwd=L.REPO, timeout=1200)
        shutil.rmtree(L.REPO + "/seed", ignore_errors=True)
        return rc == 0, out.strip()[-400:]
    return None, "no demonstration"

def main():
    sid = sys.argv[1]
    ids = sys.argv[2:] or [sid[:3]]
    if os.environ.get("SEED_FLAT") and len(sys.argv) <= 2:
        # re-run: the checks recorded at the first confirmation
        try:
            ids = list(json.load(open(f"{os.environ.get('SEED_ROOT')}/{sid}/meta.json"))["checks"].keys())
        except Exception:
            pass
    root = os.environ.get("SEED_ROOT", "/tmp/seed")
    suffix = os.environ.get("SEED_SUFFIX", "")
    src = f"{root}/{sid}/seed" if not os.environ.get("SEED_FLAT") else f"{root}/{sid}"
    if not os.path.isdir(L.REPO):
        L.setup()
    L.sync_verif()
    L.revert()
    rc, out = L.sh(f"git apply {src}/patch.diff", cwd=L.REPO)
    if rc != 0:
        print("patch does not apply:", out); sys.exit(2)
    good, tests = L.baseline_tests()
    d_with, det_with = demo(src)
    checks = L.run_checks(ids)
    L.revert()
    d_without, det_without = demo(src)
    L.revert()
    confirmed = bool(good) and d_with is False and d_without is True
    print(f"{sid}: repo tests with change: {tests} ({'ok' if good else 'FAIL'}); demo with change: {'passes' if d_with else 'fails'}; demo without: {'passes' if d_without else 'fails'}; confirmed={confirmed}")
    for p, x in checks.items():
        print(f"   {p}: {'CAUGHT' if x['exit']==1 else ('inconclusive' if x['exit']==2 else 'MISSED')} in {x['seconds']}s  {x['message'][:260]}")
    dst = f"{L.SRC}/seeded/{sid}{suffix}"
    os.makedirs(dst, exist_ok=True)
    if os.path.realpath(dst) != os.path.realpath(src):
        for f in os.listdir(src):
            shutil.copy(os.path.join(src, f), dst)
    old_meta = {}
    if os.path.exists(dst + "/meta.json"):
        try:
            old_meta = json.load(open(dst + "/meta.json"))
        except Exception:
            old_meta = {}
    meta = {
        "id": sid + suffix, "property": sid[:3],
        "confirmed": confirmed,
        "repo_tests_with_change": tests,
        "demo_with_change": det_with, "demo_without_change": det_without,
        "needs_to_manifest": "see NOTES.md",
        "ran": [f"git apply patch.diff (scratch worktree)", "cargo test --workspace --no-fail-fast --offline", "demo with and without the change"] + [f"./check {p} quick" for p in ids],
        "checks": {p: {"caught": x["exit"] == 1, "exit": x["exit"], "seconds": x["seconds"], "message": x["message"]} for p, x in checks.items()},
    }
    if os.environ.get("SEED_FLAT"):
        # a re-run against the final machinery: keep the original confirmation record
        for k in ("confirmed", "repo_tests_with_change", "demo_with_change", "demo_without_change", "note"):
            if k in old_meta and k != "note":
                meta.setdefault("first_confirmation", {})[k] = old_meta[k]
        if "note" in old_meta:
            meta["note"] = old_meta["note"]
        if "first_confirmation" in old_meta:
            meta["first_confirmation"] = old_meta["first_confirmation"]
        meta["property"] = sid[:3]
    json.dump(meta, open(dst + "/meta.json", "w"), indent=1)

if __name__ == "__main__":
    main()
