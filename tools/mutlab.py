#!/usr/bin/env python3
"""Sensitivity lab: run the checks against deliberately broken scratch copies of the repository.

  tools/mutlab.py setup                 create /tmp/mutlab/{repo,verif} (worktree of /repo HEAD + copy of /verif)
  tools/mutlab.py run [name ...]        apply each mutant (tools/mutants.json) in turn, confirm it compiles and
                                        passes the repository's own tests, run the listed checks (quick), revert
  tools/mutlab.py patch <file> <ids..>  the same for an arbitrary patch file (git apply)
  tools/mutlab.py clean                 remove the lab

Nothing here touches /repo's working tree or /verif's evidence.
"""
import json, os, shutil, subprocess, sys, time

LAB = os.environ.get("MUTLAB", "/tmp/mutlab")
REPO = LAB + "/repo"
VERIF = LAB + "/verif"
SRC = os.path.dirname(os.path.dirname(os.path.abspath(__file__)))
ENV = dict(os.environ, CARGO_NET_OFFLINE="true", RUST_BACKTRACE="0")


def sh(cmd, cwd=None, timeout=3600, env=None):
    p = subprocess.run(cmd, shell=True, cwd=cwd, capture_output=True, text=True, timeout=timeout, env=env or ENV)
    return p.returncode, p.stdout + p.stderr


def sync_verif():
    os.makedirs(VERIF, exist_ok=True)
    # the lab takes the COMMITTED state of the verification tree (git archive HEAD), so that edits in
    # progress never leak into a running sensitivity campaign
    snap = VERIF + ".snap"
    sh(f"rm -rf {snap} && mkdir -p {snap} && git -C {SRC} archive HEAD | tar -x -C {snap}")
    sh(f"rsync -a --delete --exclude target --exclude work --exclude replays --exclude evidence --exclude .git {snap}/ {VERIF}/")
    sh(f"rm -rf {snap}")
    ct = open(VERIF + "/harness/Cargo.toml").read().replace('path = "/repo"', f'path = "{REPO}"')
    open(VERIF + "/harness/Cargo.toml", "w").write(ct)
    if os.path.isdir(VERIF + "/fuzz"):
        p = VERIF + "/fuzz/Cargo.toml"
        if os.path.exists(p):
            open(p, "w").write(open(p).read().replace('path = "/repo"', f'path = "{REPO}"'))


def setup():
    os.makedirs(LAB, exist_ok=True)
    if not os.path.isdir(REPO):
        rc, out = sh(f"git -C /repo worktree add --detach {REPO} HEAD")
        if rc != 0:
            print(out)
            sys.exit(2)
    else:
        sh("git checkout -- . && git clean -fdq -e target && git checkout --detach $(git -C /repo rev-parse HEAD)", cwd=REPO)
    sync_verif()
    rc, out = sh(f"VERIF_REPO={REPO} ./build.sh all", cwd=VERIF)
    print("lab ready" if rc == 0 else out)


def revert():
    sh("git checkout -- . && git clean -fdq -e target", cwd=REPO)


def baseline_tests():
    rc, out = sh("cargo test --workspace --no-fail-fast --offline 2>&1 | grep -E '^test result|^error' ", cwd=REPO, timeout=1200)
    passed = sum(int(l.split()[3]) for l in out.splitlines() if l.startswith("test result"))
    failed = sum(int(l.split()[5]) for l in out.splitlines() if l.startswith("test result"))
    return ("error" not in out) and failed == 0 and passed >= 31, f"{passed} passed, {failed} failed"


def run_checks(ids, tier="quick"):
    res = {}
    for pid in ids:
        t = time.time()
        rc, out = sh(f"VERIF_REPO={REPO} ./check {pid} {tier}", cwd=VERIF, timeout=7200)
        lines = [l for l in out.splitlines() if l.startswith("VIOLATION") or l.startswith("KNOWN") or l.startswith("INCONCLUSIVE")]
        msg = ""
        if rc == 1:
            # the line before 'case:' is the message
            ol = out.splitlines()
            for i, l in enumerate(ol):
                if l.startswith("case:") and i > 0:
                    msg = ol[i - 1][:300]
                    break
        res[pid] = {"exit": rc, "lines": lines, "message": msg, "seconds": round(time.time() - t, 1)}
    return res


def apply_edit(m):
    path = os.path.join(REPO, m["file"])
    s = open(path).read()
    if m["old"] not in s:
        return False
    s = s.replace(m["old"], m["new"], 1)
    open(path, "w").write(s)
    return True


def run_mutants(names, listfile="mutants.json"):
    sync_verif()
    muts = json.load(open(SRC + "/tools/" + listfile))
    if names:
        muts = [m for m in muts if m["name"] in names]
    results = []
    for m in muts:
        revert()
        ok = all(apply_edit(e) for e in m.get("edits", [m]))
        if not ok:
            print(f"{m['name']}: EDIT DOES NOT APPLY")
            results.append({"name": m["name"], "status": "edit-does-not-apply"})
            continue
        good, tests = baseline_tests()
        r = run_checks(m["checks"])
        caught = [p for p, x in r.items() if x["exit"] == 1]
        print(f"{m['name']:45} tests[{tests}{'' if good else ' !!'}]  " + "  ".join(f"{p}:{'CAUGHT' if x['exit']==1 else ('inconcl' if x['exit']==2 else 'missed')}({x['seconds']}s)" for p, x in r.items()))
        for p, x in r.items():
            if x["exit"] == 1:
                print(f"      {p}: {x['message'][:200]}")
            if x["exit"] == 2:
                print("      ", x["lines"])
        results.append({"name": m["name"], "breaks": m.get("breaks"), "survives_repo_tests": good, "tests": tests, "checks": r, "caught_by": caught})
        sys.stdout.flush()
    revert()
    json.dump(results, open(LAB + "/results-" + listfile, "w"), indent=1)
    if not names:
        # a full run: keep a normalised copy next to the list (read by tools/appendix.py)
        norm = [{"name": r["name"], "breaks": r.get("breaks"), "survives_repo_tests": r.get("survives_repo_tests"),
                 "repo_tests": r.get("tests"), "caught_by": r.get("caught_by"),
                 "checks": {p: {"exit": x["exit"], "message": x["message"][:200]} for p, x in r.get("checks", {}).items()}}
                for r in results if "checks" in r]
        json.dump(norm, open(SRC + "/tools/" + listfile.replace(".json", "-results.json"), "w"), indent=1)
    return results


def run_patch(patch, ids):
    sync_verif()
    revert()
    rc, out = sh(f"git apply {patch}", cwd=REPO)
    if rc != 0:
        print("patch does not apply:", out)
        sys.exit(2)
    good, tests = baseline_tests()
    print("repository tests:", tests, "" if good else "(FAIL)")
    r = run_checks(ids)
    for p, x in r.items():
        print(p, "CAUGHT" if x["exit"] == 1 else ("inconclusive" if x["exit"] == 2 else "missed"), x["seconds"], "s", x["message"][:300])
    revert()
    return r


if __name__ == "__main__":
    cmd = sys.argv[1] if len(sys.argv) > 1 else ""
    if cmd == "setup":
        setup()
    elif cmd == "run":
        run_mutants(sys.argv[2:])
    elif cmd == "benign":
        run_mutants(sys.argv[2:], "benign.json")
    elif cmd == "patch":
        run_patch(os.path.abspath(sys.argv[2]), sys.argv[3:])
    elif cmd == "clean":
        sh(f"git -C /repo worktree remove --force {REPO}")
        shutil.rmtree(LAB, ignore_errors=True)
        sh("git -C /repo worktree prune")
    else:
        print(__doc__)
