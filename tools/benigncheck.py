#!/usr/bin/env python3
"""tools/benigncheck.py <root> <ID> <suffix> [check ids... | all]
False-alarm probe: apply a sub-agent's behaviour-preserving change (<root>/<ID>/seed/patch.diff) in the scratch
lab $MUTLAB (default /tmp/seedlab), confirm the repository's own tests still pass, run the given checks (default:
all 20, quick) and report every alarm. Stored under /verif/benign_seeded/<ID><suffix>/ with meta.json.
An alarm here is NOT automatically a false alarm: the change must first be reviewed against the statement.
"""
import json, os, shutil, sys
os.environ.setdefault("MUTLAB", "/tmp/seedlab")
sys.path.insert(0, os.path.dirname(os.path.abspath(__file__)))
import mutlab as L

ALL = [f"C{i:02d}" for i in range(1, 21)]


def main():
    root, sid, suffix = sys.argv[1], sys.argv[2], sys.argv[3]
    ids = sys.argv[4:] or ["all"]
    if ids == ["all"]:
        ids = ALL
    src = f"{root}/{sid}/seed" if os.path.isdir(f"{root}/{sid}/seed") else f"{root}/{sid}"
    if not os.path.isdir(L.REPO):
        L.setup()
    L.sync_verif()
    L.revert()
    rc, out = L.sh(f"git apply {src}/patch.diff", cwd=L.REPO)
    if rc != 0:
        print("patch does not apply:", out)
        sys.exit(2)
    good, tests = L.baseline_tests()
    checks = L.run_checks(ids)
    L.revert()
    alarms = [p for p, x in checks.items() if x["exit"] == 1]
    incon = [p for p, x in checks.items() if x["exit"] not in (0, 1)]
    print(f"{sid}{suffix}: repo tests with change: {tests} ({'ok' if good else 'FAIL'}); alarms: {alarms or 'none'}; inconclusive: {incon or 'none'}")
    for p in alarms:
        print(f"   {p}: ALARM {checks[p]['message'][:300]}")
    dst = f"{L.SRC}/benign_seeded/{sid}{suffix}"
    os.makedirs(dst, exist_ok=True)
    if os.path.realpath(dst) != os.path.realpath(src):
        for f in os.listdir(src):
            if os.path.isfile(os.path.join(src, f)):
                shutil.copy(os.path.join(src, f), dst)
    old = {}
    if os.path.exists(dst + "/meta.json"):
        try:
            old = json.load(open(dst + "/meta.json"))
        except Exception:
            old = {}
    meta = {
        "id": sid + suffix, "property": sid[:3], "repo_tests_with_change": tests,
        "checks": {p: {"alarm": x["exit"] == 1, "exit": x["exit"], "seconds": x["seconds"], "message": x["message"]} for p, x in checks.items()},
    }
    # a re-run with a subset of the checks keeps the recorded outcome of the others
    merged = dict(old.get("checks", {}))
    merged.update(meta["checks"])
    meta["checks"] = dict(sorted(merged.items()))
    for k in ("review", "first_run"):
        if k in old:
            meta[k] = old[k]
    json.dump(meta, open(dst + "/meta.json", "w"), indent=1)


if __name__ == "__main__":
    main()
