#!/bin/bash
# tools/seedbatch.sh <root> <suffix> "ID check1 check2" ...
export SEED_ROOT="$1" SEED_SUFFIX="$2"; shift 2
for x in "$@"; do set -- $x; python3 /verif/tools/seedcheck.py "$@" 2>&1 | cut -c1-330; done
