#!/usr/bin/env python3
"""tools/mkprompts.py <root> <break|benign> <hint-file> [IDs...]
Create one scratch worktree of /repo per property under <root>/<ID> and a prompt file
<root>/<ID>.prompt.txt for an independent sub-agent. The prompt contains ONLY the text of the property
(title, statement, quantifier) - nothing from /verif.
  break : ask for a realistic change that breaks the property, compiles and passes the 31 tests.
  benign: ask for a realistic change that alters incidental / unspecified behaviour while the property,
          read literally, still holds (used to look for false alarms).
"""
import json, os, subprocess, sys

root, mode, hintfile = sys.argv[1], sys.argv[2], sys.argv[3]
ids = sys.argv[4:]
hint = open(hintfile).read().strip()
props = {}
for l in open("/verif/properties.jsonl"):
    p = json.loads(l)
    props[p["id"]] = p
ids = ids or sorted(props)
os.makedirs(root, exist_ok=True)

HEAD = """You are helping evaluate a test-suite's blind spots. You work ONLY inside the git worktree {wt} (a checkout of the Rust project timbeurskens/rsbdd: a small ROBDD library with a boolean-formula language, a CLI solver `rsbdd`, and generator binaries). Do not read or write anything under /verif or /repo; do not run `git commit`, `git stash`, `git checkout` of other branches, or anything that changes git state outside your worktree's working files. The machine is offline: always pass `--offline` to cargo. Build output stays in your worktree (the default target dir).

Here is a semantic property that the project is supposed to satisfy:

---
{id}: {title}

Statement: {statement}

Quantified over: {quant}

---
"""

BREAK = """
Your task: make ONE small, realistic change to the project's source (the kind of slip a maintainer could make in a refactoring, an optimisation, or a "fix") that BREAKS this property, while
  (a) the workspace still compiles (`cargo build --workspace --offline`), and
  (b) the project's existing test suite still passes unchanged (`cargo test --workspace --no-fail-fast --offline` - 31 tests pass, 1 ignored; do not edit existing tests).
Prefer a change that needs something SPECIFIC to manifest - an unusual input, a particular combination of options or operands, a multi-step sequence of operations, a particular variable order or position, a boundary value, two cooperating sites that each look fine alone - rather than one that ordinary use would expose at once. Do not make the change depend on magic constants that no real code would contain (no `if name == "xyzzy"`), and do not add randomness, timing or environment dependence. Touch only files under src/, src/bin/, n_queens_gen/, max_clique_gen/, sudoku_gen/ or random_graph_gen/.

{hint}

Deliver, inside {wt}:
  1. `seed/patch.diff` - the output of `git diff` for your source change only (it must apply with `git apply` to a clean checkout of the same commit).
  2. `seed/demo.rs` (an integration test to be copied to `tests/seeded_demo.rs`) or `seed/demo.sh` (a shell script that builds and runs the binaries with `cargo run --offline -q -p <pkg> --`, locating the repository relative to its own path), which FAILS (non-zero exit / failing test) with your change applied and PASSES on the unchanged code. Verify both directions yourself.
  3. `seed/NOTES.md` - 5-15 lines: what you changed, why the existing tests do not notice, exactly what is needed for the violation to manifest (the triggering input / sequence / configuration), and the commands you ran with their outcomes.
Leave the worktree with your change APPLIED to the sources (uncommitted) and the `seed/` directory present. Keep everything else as it was. Be economical: read the relevant source files, decide, implement, verify, write up. When done, reply with a 5-line summary.
"""

BENIGN = """
Your task is the OPPOSITE of breaking it: make ONE realistic change to the project's source - the kind a maintainer would make on purpose (a refactoring, an optimisation, a clean-up, a cosmetic change of output, a different but equally valid choice where the property leaves freedom) - that CHANGES SOME OBSERVABLE BEHAVIOUR of the code this property is about, while the property, READ LITERALLY, STILL HOLDS for every input. Look for the freedom the statement leaves: things it does not prescribe (exact wording of messages, order of independent items, which of several valid answers is returned, internal numbering, layout / widths / separators where only the content is specified, when and how much internal work is shared, behaviour outside the stated domain) - and change one of those in a way that is as visible as possible without touching what the statement does prescribe. A reviewer who holds the property text against your change must agree that it is not violated.
  (a) the workspace still compiles (`cargo build --workspace --offline`), and
  (b) the project's existing test suite still passes unchanged (`cargo test --workspace --no-fail-fast --offline` - 31 tests pass, 1 ignored; do not edit existing tests).
Do not add randomness, timing or environment dependence. Touch only files under src/, src/bin/, n_queens_gen/, max_clique_gen/, sudoku_gen/ or random_graph_gen/.

{hint}

Deliver, inside {wt}:
  1. `seed/patch.diff` - the output of `git diff` for your source change only (it must apply with `git apply` to a clean checkout of the same commit).
  2. `seed/NOTES.md` - 5-15 lines: what you changed, which observable behaviour differs now (with one concrete before/after example), and a short argument, clause by clause, why each clause of the statement still holds for all inputs.
Leave the worktree with your change APPLIED to the sources (uncommitted) and the `seed/` directory present. Keep everything else as it was. Be economical. When done, reply with a 5-line summary.
"""

for i in ids:
    p = props[i]
    wt = f"{root}/{i}"
    if not os.path.isdir(wt):
        subprocess.run(["git", "-C", "/repo", "worktree", "add", "--detach", "-q", wt, "HEAD"], check=True)
    txt = HEAD.format(wt=wt, id=i, title=p["title"], statement=p["statement"], quant=p["quantifier"]["text"])
    txt += (BREAK if mode == "break" else BENIGN).format(wt=wt, hint=hint)
    open(f"{root}/{i}.prompt.txt", "w").write(txt)
print("prepared", len(ids), "worktrees under", root)
