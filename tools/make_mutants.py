#!/usr/bin/env python3
"""Writes tools/mutants.json: deliberately broken variants of /repo used by tools/mutlab.py."""
import json
M = []
def m(name, breaks, checks, file, old, new):
    M.append({"name": name, "breaks": breaks, "checks": checks, "file": file, "old": old, "new": new})

P = "src/parser.rs"; B = "src/bdd.rs"; R = "src/bin/rsbdd.rs"
# C01
m("c01-impliesinv-as-implies", "C01", ["C01"], P, "BinaryOperator::ImpliesInv => self.env.implies(r, l),", "BinaryOperator::ImpliesInv => self.env.implies(l, r),")
m("c01-lessthan-without-minus-one", "C01", ["C01", "C05"], P, "CountableOperator::LessThan => self.env.amn(&branches, n - 1),", "CountableOperator::LessThan => self.env.amn(&branches, n),")
m("c01-gfp-starts-from-false", "C01", ["C01", "C06"], P, "Some(SymbolicBDDToken::GFP) => Self::parse_fixed_point(tokens, true),", "Some(SymbolicBDDToken::GFP) => Self::parse_fixed_point(tokens, false),")
m("c01-count-gt-list-offset", "C01", ["C01", "C05"], P, "CountableOperator::MoreThan => self.env.count_gt(&l_branches, &r_branches),", "CountableOperator::MoreThan => self.env.count_geq(&l_branches, &r_branches),")
# C02
m("c02-mk-choice-no-simplify", "C02", ["C02", "C13", "C20"], B, "let ins = self.simplify(&Rc::new(BDD::Choice(true_subtree, symbol, false_subtree)));", "let ins = Rc::new(BDD::Choice(true_subtree, symbol, false_subtree));")
m("c02-retain-unreduced", "C02", ["C02", "C20"], B, """                        } else {
                            self.mk_choice(left, symbol.clone(), right)
                        }
                    }
                    // if the node is a constant""", """                        } else {
                            Rc::new(BDD::Choice(left, symbol.clone(), right))
                        }
                    }
                    // if the node is a constant""")
# C03
m("c03-xor-second-conjunct", "C03", ["C03", "C01"], B, "self.and(a, self.not(b)),\n        )\n    }\n\n    // joint denial", "self.and(a, b),\n        )\n    }\n\n    // joint denial")
m("c03-nand-is-nor", "C03", ["C03"], B, "self.not(self.and(a, b))\n    }", "self.and(self.not(a), self.not(b))\n    }")
m("c03-and-equal-var-cross", "C03", ["C03", "C02"], B, """            (BDD::Choice(at, va, af), BDD::Choice(bt, vb, bf)) if va == vb => self.mk_choice(
                self.and(Rc::clone(at), Rc::clone(bt)),
                va.clone(),
                self.and(Rc::clone(af), Rc::clone(bf)),""", """            (BDD::Choice(at, va, af), BDD::Choice(bt, vb, bf)) if va == vb => self.mk_choice(
                self.and(Rc::clone(at), Rc::clone(bt)),
                va.clone(),
                self.and(Rc::clone(af), Rc::clone(bt)),""")
m("c03-or-vb-less-swapped-children", "C03", ["C03"], B, """            (BDD::Choice(_, va, _), BDD::Choice(bt, vb, bf)) if vb < va => self.mk_choice(
                self.or(Rc::clone(bt), Rc::clone(&a)),
                vb.clone(),
                self.or(Rc::clone(bf), Rc::clone(&a)),""", """            (BDD::Choice(_, va, _), BDD::Choice(bt, vb, bf)) if vb < va => self.mk_choice(
                self.or(Rc::clone(bf), Rc::clone(&a)),
                vb.clone(),
                self.or(Rc::clone(bt), Rc::clone(&a)),""")
# C04
m("c04-exists-first-var-only", "C04", ["C04", "C01"], B, "self.exists_impl(first, self.exists(remainder, b))", "{ let _ = remainder; self.exists_impl(first, b) }")
m("c04-all-without-inner-not", "C04", ["C04", "C01"], B, "self.not(self.exists(s, self.not(b)))", "self.not(self.exists(s, b))")
m("c04-exists-impl-and", "C04", ["C04"], B, "BDD::Choice(t, v, f) if v == s => self.or(Rc::clone(t), Rc::clone(f)),", "BDD::Choice(t, v, f) if v == s => self.and(Rc::clone(t), Rc::clone(f)),")
# C05
m("c05-aln-strict", "C05", ["C05"], B, "self.cmp_count(branches, n, |n| n <= 0)", "self.cmp_count(branches, n, |n| n < 0)")
m("c05-count-lt-offset-zero", "C05", ["C05"], B, "self.count_leq_recursive(a, b, 1)", "self.count_leq_recursive(a, b, 0)")
m("c05-parser-gt-without-plus-one", "C05", ["C05", "C01"], P, "CountableOperator::MoreThan => self.env.aln(&branches, n.saturating_add(1)),", "CountableOperator::MoreThan => self.env.aln(&branches, n),")
m("c05-unfix-cast", "C05", ["C05"], P, "let n = i64::try_from(*n).unwrap_or(i64::MAX);", "let n = *n as i64;")
# C06
m("c06-fp-one-application", "C06", ["C06", "C01"], B, """            if snew == s {
                break;
            }
            s = snew;""", """            if snew == s {
                break;
            }
            s = snew;
            break;""")
m("c06-replace-var-ignores-quantifier-shadowing", "C06", ["C06"], P, """                if v.contains(var) {
                    formula.clone()
                } else {
                    SymbolicBDD::Quantifier(""", """                if false && v.contains(var) {
                    formula.clone()
                } else {
                    SymbolicBDD::Quantifier(""")
m("c06-replace-var-ignores-inner-fix-shadowing", "C06", ["C06"], P, """                if v == var {
                    formula.clone()
                } else {
                    SymbolicBDD::FixedPoint(""", """                if false && v == var {
                    formula.clone()
                } else {
                    SymbolicBDD::FixedPoint(""")
m("c06-lfp-gfp-swapped", "C06", ["C06", "C01"], P, "Some(SymbolicBDDToken::LFP) => Self::parse_fixed_point(tokens, false),", "Some(SymbolicBDDToken::LFP) => Self::parse_fixed_point(tokens, true),")
# C07
m("c07-model-true-branch-unconditional", "C07", ["C07"], B, "if lhs != self.mk_const(false) {\n                    self.and(lhs, self.var(v.clone()))", "if true {\n                    self.and(lhs, self.var(v.clone()))")
m("c07-model-negative-literal-without-not", "C07", ["C07"], B, "self.and(self.not(self.var(v.clone())), rhs)", "self.and(self.var(v.clone()), rhs)")
m("c07-infer-inverted", "C07", ["C07"], B, "BDD::True => (true, true),\n            BDD::False => (true, false),", "BDD::True => (true, false),\n            BDD::False => (true, true),")
# C08
m("c08-regex-le-before-iff", "C08", ["C08"], P, "=>|-|<=>|<=|", "=>|-|<=|<=>|")
m("c08-alias-in-dropped", "C08", ["C08"], P, '"implies" | "in" =>', '"implies" =>')
m("c08-left-assoc", "C08", ["C08", "C01"], P, """                let op = Self::parse_binary_operator(tokens)?;
                let right = Self::parse_sub_formula(tokens)?;
                Ok(Self::BinaryOp(op, Box::new(left), Box::new(right)))""", """                let op = Self::parse_binary_operator(tokens)?;
                let right = Self::parse_simple_sub_formula(tokens)?;
                let mut acc = Self::BinaryOp(op, Box::new(left), Box::new(right));
                while matches!(tokens.peek(), Some(SymbolicBDDToken::And) | Some(SymbolicBDDToken::Or) | Some(SymbolicBDDToken::Xor) | Some(SymbolicBDDToken::Nor) | Some(SymbolicBDDToken::Nand) | Some(SymbolicBDDToken::Implies) | Some(SymbolicBDDToken::ImpliesInv) | Some(SymbolicBDDToken::Iff)) {
                    let op2 = Self::parse_binary_operator(tokens)?;
                    let r2 = Self::parse_simple_sub_formula(tokens)?;
                    acc = Self::BinaryOp(op2, Box::new(acc), Box::new(r2));
                }
                Ok(acc)""")
m("c08-trailing-comma-rejected-in-varlist", "C08", ["C08"], P, """                    // otherwise expect a comma
                    expect(SymbolicBDDToken::Comma, tokens)?;
                }
            } else {
                break;
            }
        }

        Ok(vars)""", """                    // otherwise expect a comma
                    expect(SymbolicBDDToken::Comma, tokens)?;
                    if check(SymbolicBDDToken::Hash, tokens).is_ok() {
                        return Err(io::Error::new(io::ErrorKind::InvalidData, "trailing comma"));
                    }
                }
            } else {
                break;
            }
        }

        Ok(vars)""")
m("c08-unfix-negation-failover", "C08", ["C08"], P, """        let sf = Self::parse_simple_sub_formula(tokens)?;

        Ok(Self::Not(Box::new(sf)))""", """        let sf = Self::parse_simple_sub_formula(tokens);

        if let Ok(sf_ok) = sf {
            Ok(Self::Not(Box::new(sf_ok)))
        } else {
            Ok(Self::Not(Box::new(Self::parse_sub_formula(tokens)?)))
        }""")
# C09
m("c09-var-is-free-ignores-fixpoint", "C09", ["C09"], P, "SymbolicBDD::FixedPoint(v, _, f) => v != var && self.var_is_free(f, var),", "SymbolicBDD::FixedPoint(_v, _, f) => self.var_is_free(f, var),")
m("c09-quantifier-first-name-only", "C09", ["C09"], P, """                if !vars.contains(var) {
                    self.var_is_free(f, var)""", """                if vars.first() != Some(var) {
                    self.var_is_free(f, var)""")
m("c09-unfix-raw2free", "C09", ["C09", "C10", "C11", "C12"], P, "result.raw2free[v.id] = if result.var_is_free(&result.bdd, v) {", "result.raw2free[vi.min(n.saturating_sub(1))] = if result.var_is_free(&result.bdd, v) {")
# C10
m("c10-false-subtree-row-true", "C10", ["C10"], R, """            let mut r_vars = vars.clone();
            r_vars[parsed.to_free_index(s)] = TruthTableEntry::False;""", """            let mut r_vars = vars.clone();
            r_vars[parsed.to_free_index(s)] = TruthTableEntry::True;""")
m("c10-filter-inverted", "C10", ["C10"], R, """            || (filter == TruthTableEntry::True && *c == BDD::True)
            || (filter == TruthTableEntry::False && *c == BDD::False) =>
        {
            print_sized_line""", """            || (filter == TruthTableEntry::True && *c == BDD::False)
            || (filter == TruthTableEntry::False && *c == BDD::True) =>
        {
            print_sized_line""")
m("c10-header-from-vars", "C10", ["C10"], R, """    let mut headers = input_parsed
        .free_vars""", """    let mut headers = input_parsed
        .vars""")
m("c10-vars-star-for-false", "C10", ["C10"], R, "} else if *v == TruthTableEntry::Any {", "} else if *v == TruthTableEntry::False {")
m("c10-benchmark-changes-result", "C10", ["C10"], R, "if args.benchmark.is_some() && repeat > 0 {", "if args.benchmark.is_some() && repeat > 1 { result = input_parsed.env.not(result); }\n    if args.benchmark.is_some() && repeat > 0 {")
# C11
m("c11-var-id-counter-not-advanced", "C11", ["C11", "C09"], P, "if var.id >= var_id_counter {", "if false && var.id >= var_id_counter {")
m("c11-ordering-ignored", "C11", ["C11"], P, "variable_indexes.insert(var.name.as_ref().clone(), var.id);", "let _ = &mut variable_indexes;")
m("c11-export-sorted-by-name", "C11", ["C11", "C10"], R, "ordered_variables.sort_by(|a, b| a.id.cmp(&b.id));", "ordered_variables.sort_by(|a, b| a.name.cmp(&b.name));")
# C12
m("c12-unwrap-on-next", "C12", ["C12", "C08"], P, """        match tokens.next() {
            Some(SymbolicBDDToken::Countable(n)) => Ok(*n),
            other => Err(io::Error::new(""", """        match tokens.next() {
            Some(SymbolicBDDToken::Countable(n)) => Ok(*n),
            Some(SymbolicBDDToken::Hash) => panic!("hash where a number is expected"),
            other => Err(io::Error::new(""")
m("c12-unfix-number-expect", "C12", ["C12", "C08"], P, """                let parsed_number = number.as_str().parse().map_err(|e| {
                    io::Error::new(
                        io::ErrorKind::InvalidData,
                        format!("Failed to parse number {}: {}", number.as_str(), e),
                    )
                })?;""", """                let parsed_number = number.as_str().parse().expect("Failed to parse number");""")
m("c12-cli-unwrap-on-missing-ordering", "C12", ["C12"], R, "let file = File::open(ord_filename)?;", "let file = File::open(ord_filename).unwrap();")
# C13
m("c13-mk-choice-no-lookup", "C13", ["C13", "C14"], B, """        if let Some(subtree) = nodes_borrow.get(&ins) {
            Rc::clone(subtree)
        } else {""", """        if false {
            Rc::clone(&ins)
        } else {""")
m("c13-not-recreates-leaves", "C13", ["C13"], B, "BDD::False => self.mk_const(true),\n            BDD::True => self.mk_const(false),", "BDD::False => Rc::new(BDD::True),\n            BDD::True => Rc::new(BDD::False),")
# C14
m("c14-tf-labels-swapped", "C14", ["C14"], "src/bdd_io.rs", 'if *e {\n            dot::LabelText::LabelStr(Cow::Borrowed("T"))\n        } else {\n            dot::LabelText::LabelStr(Cow::Borrowed("F"))', 'if *e {\n            dot::LabelText::LabelStr(Cow::Borrowed("F"))\n        } else {\n            dot::LabelText::LabelStr(Cow::Borrowed("T"))')
m("c14-nodes-not-unique", "C14", ["C14"], "src/bdd_io.rs", ".chain(r_nodes.iter())\n                    .unique()\n                    .cloned()", ".chain(r_nodes.iter())\n                    .cloned()")
m("c14-filter-wrong-leaf", "C14", ["C14"], "src/bdd_io.rs", "|| (l.as_ref() == &BDD::True && self.filter == TruthTableEntry::True)\n                    || (l.as_ref() == &BDD::False && self.filter == TruthTableEntry::False)", "|| (l.as_ref() == &BDD::True && self.filter == TruthTableEntry::False)\n                    || (l.as_ref() == &BDD::False && self.filter == TruthTableEntry::True)")
m("c14-parse-tree-ite-edges-swapped", "C14", ["C14"], "src/parser_io.rs", '"Then".to_string(),\n                        self.nodes\n                            .iter()\n                            .position(|n| n == t.as_ref())', '"Then".to_string(),\n                        self.nodes\n                            .iter()\n                            .position(|n| n == e.as_ref())')
# C15
m("c15-diagonal-off-by-one", "C15", ["C15"], "n_queens_gen/src/main.rs", "    for i in 1..n {\n        write!(writer, \"[\")?;\n        for j in 0..(n - i) {", "    for i in 1..n {\n        write!(writer, \"[\")?;\n        for j in 0..(n - i - 1) {")
m("c15-anti-diagonal-skips-last", "C15", ["C15"], "n_queens_gen/src/main.rs", "        for j in 0..=i {\n            write!(writer, \"v_{},\", i + (j * (n - 1)))?;", "        for j in 0..i {\n            write!(writer, \"v_{},\", i + (j * (n - 1)))?;")
# C16
m("c16-geq-strict", "C16", ["C16"], "max_clique_gen/src/main.rs", '") => [{}] >= [{}]",', '") => [{}] > [{}]",')
m("c16-complement-ignores-direction", "C16", ["C16"], "max_clique_gen/src/main.rs", "} else if !edges.contains(&(v1.to_string(), v2.to_string())) {", "} else if !(edges.contains(&(v1.to_string(), v2.to_string())) || edges.contains(&(v2.to_string(), v1.to_string()))) {")
m("c16-unfix-copy-prefix", "C16", ["C16"], "max_clique_gen/src/main.rs", "while vertices.iter().any(|v| v.starts_with(&copy_prefix)) {", "while false && vertices.iter().any(|v| v.starts_with(&copy_prefix)) {")
# C17
m("c17-box-index", "C17", ["C17"], "sudoku_gen/src/main.rs", "lt + ((l / root) * square + (l % root))", "lt + ((l / square) * square + (l % root))")
m("c17-hints-count-whitespace", "C17", ["C17"], "sudoku_gen/src/main.rs", "        .filter(|c| !c.is_whitespace())\n        .collect();", "        .filter(|c| *c != ' ')\n        .collect();")
m("c17-unfix-quote", "C17", ["C17"], "sudoku_gen/src/main.rs", "puzzle_input.replace('\"', \"'\")", "puzzle_input")
# C18
m("c18-one-edge-short", "C18", ["C18"], "random_graph_gen/src/main.rs", "if let Some(edges) = edges.get(0..num_edges) {", "if let Some(edges) = edges.get(0..num_edges.saturating_sub(1)) {")
m("c18-undirected-both-orientations", "C18", ["C18"], "random_graph_gen/src/main.rs", "if let Some(vertices) = vertices.get((i + 1)..) {\n                for v2 in vertices.iter() {\n                    edges.push((v1.clone(), v2.clone()));\n                }", "if let Some(vertices) = vertices.get((i + 1)..) {\n                for v2 in vertices.iter() {\n                    edges.push((v1.clone(), v2.clone()));\n                    edges.push((v2.clone(), v1.clone()));\n                }")
m("c18-truncate-instead-of-refuse", "C18", ["C18"], "random_graph_gen/src/main.rs", '        Err(anyhow::anyhow!(\n            "Cannot satisfy the desired amount of edges"\n        ))', "        Ok(edges)")
m("c18-colors-same-colour-allowed", "C18", ["C18"], "random_graph_gen/src/main.rs", "&& (c1 != c2\n                        || (!edges.contains", "&& (c1 == c2\n                        || (!edges.contains")
# C19
m("c19-unfix-contains", "C19", ["C19"], "src/set.rs", """        let element = singleton.bdd.borrow().clone();
        let common = self.env.and(self.bdd.borrow().clone(), element.clone());

        // a membership query must not modify the set
        common == element""", "        self.intersect(&singleton) == &singleton")
m("c19-unfix-complement", "C19", ["C19"], "src/set.rs", ".replace(self.env.and(new, self.env.not(_other)));", ".replace(self.env.and(new, _other));")
m("c19-insert-drops-top-bit", "C19", ["C19"], "src/set.rs", "let new_item = (0..self.bits)", "let new_item = (0..self.bits.saturating_sub(1).max(1))")
# C20
m("c20-omit-wrong-polarity-left", "C20", ["C20"], B, "if left.is_true() != filter.is_true() {", "if left.is_true() == filter.is_true() {")
m("c20-any-filter-drops", "C20", ["C20"], B, "TruthTableEntry::Any => src,", "TruthTableEntry::Any => self.retain_choice_bottom_up(src, TruthTableEntry::True),")
json.dump(M, open("tools/mutants.json", "w"), indent=1)
print(len(M), "mutants")
