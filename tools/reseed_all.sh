#!/bin/bash
# Re-run stored seeded changes against the current checks (lab: $MUTLAB, default /tmp/mutlab).
#   tools/reseed_all.sh            all of /verif/seeded
#   tools/reseed_all.sh C01 C02-3  only these
export MUTLAB="${MUTLAB:-/tmp/mutlab}" SEED_ROOT=/verif/seeded SEED_SUFFIX="" SEED_FLAT=1
python3 /verif/tools/mutlab.py setup >/dev/null
if [ $# -gt 0 ]; then list="$*"; else list=$(ls /verif/seeded); fi
for sid in $list; do python3 /verif/tools/seedcheck.py "$sid" 2>&1 | cut -c1-260; done
