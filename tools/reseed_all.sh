#!/bin/bash
# Re-run every stored seeded change against the current checks (lab: $MUTLAB, default /tmp/mutlab).
export MUTLAB="${MUTLAB:-/tmp/mutlab}" SEED_ROOT=/verif/seeded SEED_SUFFIX="" SEED_FLAT=1
python3 /verif/tools/mutlab.py setup >/dev/null
for d in /verif/seeded/*/; do sid=$(basename "$d"); python3 /verif/tools/seedcheck.py "$sid" 2>&1 | cut -c1-260; done
