#!/bin/bash
# Re-run stored behaviour-preserving changes (benign_seeded/) against the current checks, ALL 20 checks each
# (lab: $MUTLAB, default /tmp/mutlab).   tools/rebenign_all.sh [ids...]
export MUTLAB="${MUTLAB:-/tmp/mutlab}"
python3 /verif/tools/mutlab.py setup >/dev/null
if [ $# -gt 0 ]; then list="$*"; else list=$(ls /verif/benign_seeded); fi
for sid in $list; do python3 /verif/tools/benigncheck.py /verif/benign_seeded "$sid" "" all 2>&1 | cut -c1-300; done
