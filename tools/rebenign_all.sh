#!/bin/bash
# Re-run stored behaviour-preserving changes (benign_seeded/) against the current checks (lab: $MUTLAB).
#   tools/rebenign_all.sh [--all-checks] [ids...]
# Default per entry: the check of its own property plus the checks that gained stages or readers after the
# entry was first run with ALL 20 checks (C01 C06 C09 C10 C12 C14 C15 C19); --all-checks runs all 20 again.
export MUTLAB="${MUTLAB:-/tmp/mutlab}"
allc=0; if [ "${1:-}" = "--all-checks" ]; then allc=1; shift; fi
python3 /verif/tools/mutlab.py setup >/dev/null
if [ $# -gt 0 ]; then list="$*"; else list=$(ls /verif/benign_seeded); fi
for sid in $list; do
  if [ $allc = 1 ]; then checks="all"; else checks=$(echo "${sid:0:3} C01 C06 C09 C10 C12 C14 C15 C19" | tr ' ' '\n' | awk '!s[$0]++' | tr '\n' ' '); fi
  python3 /verif/tools/benigncheck.py /verif/benign_seeded "$sid" "" $checks 2>&1 | cut -c1-300
done
