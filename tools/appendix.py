#!/usr/bin/env python3
"""Regenerate Appendix C / D of DESIGN.md from the recorded results:
   seeded/*/meta.json, tools/mutants-results.json, tools/benign-results.json."""
import json, os, glob, re

ROOT = os.path.dirname(os.path.dirname(os.path.abspath(__file__)))

FIRST_ATTEMPT = {
    "C02": "**missed** -> C02 stage *operands crossing environments* added",
    "C08": "**missed** -> backslash added to the lexer alphabet, full-ASCII stage",
    "C09": "**harness did not build** (changed `exists_impl` signature) -> harness no longer calls that helper",
    "C13": "**missed** -> C13 mode *caller drops old handles* added",
    "C14": "**missed** -> C14 stage *names needing escaping* added",
    "C16": "**missed** -> C16 stage *names fed back from the output* added",
    "C18": "**missed** -> C18 name pools with prefixes + generated-graph pipeline added",
    "C20": "caught by C13 only -> C20 stage *filter sequences on one environment* added",
    "C12-2": "**missed** (caught by C10 only) -> C12 option sets gained `-b 2, 4, 5, 6`",
    "C15-2": "**missed** -> C15 stage *large boards* added (which then found F11)",
    "C17-2": "caught only after 15 min of model enumeration -> structural comparison with the reference constraint system + DPLL witness search (now seconds)",
    "C18-2": "**missed** -> every file-writing check now writes onto a longer stale file",
    "C15-3": "**missed** -> awkward output / input file names (quote, blank, hash, non-ASCII) everywhere",
    "C20-3": "**missed** -> C20 CLI combines `-c` with every `-f`",
    "C03-4": "**missed** -> C03 stage *all connectives on the same handles of one environment*",
    "C04-4": "caught by C01 and C06 only -> C04 language route gained *quantifier over the current value of a fixed point*",
    "C07-4": "**missed** -> `model` is also given operands of another environment / plain values",
    "C08-4": "**missed** -> C08 tokenises and parses under orderings with keyword- and number-like names",
    "C19-4": "**missed** -> C19 repeats queries in varied order (one-entry answer cache)",
    "C03-5": "**missed** by C03 (the connectives stay right on reachable inputs) -> caught by the C02 stage *constructed equal-hash / different-function pairs*",
    "C12-5": "**missed** -> C12 inputs gained long tokens of mixed byte width",
    "C13-5": "**missed** -> half of the C13 histories run in `BDDEnv::default()`; a just-created environment is inspected",
    "C10-6": "**missed** (needs > 64 free variables) -> C10 stage *wide formulas* judged by counting instead of a truth table; C09 and C19 got wide stages too",
    "C06-10": "**missed** (the body reaches the bound name through a `{d}` definition made with `ParsedFormula::define`) -> C06 stage *fixed points through definitions* (10 bodies x 10 definitions against the inlined text)",
    "C10-9": "not caught by C10 (needs same-name nested fixed-point binders), caught by C09 - the free-variable analysis is C09's subject",
    "C06-8": "**missed** (needs a Kleene chain longer than the number of names) -> C06 / C01 generate bodies with chains of 2^k applications",
    "C01-8": "not a C01 matter (sparse API orderings): **missed** by C01, caught by C11 and C09",
    "C03-8": "not a C03 matter (same change as C01-8): **missed** by C03, caught by C11",
    # round 11 (angle: scale and combination - correct on all small instances, wrong beyond a threshold)
    "C01-11": "**missed** (fp silently stops after 256 applications) -> C01 / C06 stage *counter reachability* (2^k - c applications, k <= 9 quick / 11 thorough), judged by the reference semantics on reference diagrams",
    "C02-11": "caught (C02 history stages, through the `Rc::ptr_eq` half of the change); **missed** by C13 -> wide histories in environments pre-filled with 2^16 / 2^17+ nodes",
    "C03-11": "caught by the stage *equal-hash operands with the same partner*, written for this round (an `and` memo keyed by truncated operand hashes; the 64-bit collision is constructed, not searched for)",
    "C04-11": "**missed** (quantified variable with id >= 64) -> C04 / C01 / C06 stage *padded formulas beyond 64 / 128 / 256 names*",
    "C05-11": "**missed** (lists of 18+ operands) -> C05 / C01 stage *counting over lists of 14..21 literals*; the API stage for lists of <= 13 operands found defect F12 (bound i64::MIN) on the way",
    "C06-11": "**missed** (u8 round counter) -> same counter-reachability stage as C01-11",
    "C07-11": "caught by the wide stage (`model` of cubes with 65+ literals), written for this round",
    "C08-11": "**missed** (texts above 64 KiB tokenised block by block; multi-line comments) -> C08 stage *large texts with long separators* (up to 300 KiB, thorough 1.2 MiB)",
    "C11-11": "**missed** (ordering files above 8 KiB) -> C11 stage *large ordering files* (1 .. 64 KiB)",
    "C12-11": "**missed** by C12 (caught by C10's wide stage) -> C12 stage *wide formulas through every output option*",
    "C13-11": "caught by the wide-history stage (cubes of 256+ levels differing only at the bottom), written for this round; C02 / C03 wide stages catch it too",
    "C14-11": "**missed** (u8 operand position: lists of 257+ entries) -> C14 stage *parse trees with long lists* (up to 300 entries, thorough 65537)",
    "C16-11": "**missed** (more than 256 non-adjacent pairs) -> C16 stage *graphs of 17..26 vertices on reference diagrams*",
    "C17-11": "**missed** (u8 cell index: root 5) -> C17 roots 5 (quick) and 6 (thorough)",
    "C18-11": "**missed** (`--colors` on more than 64 vertices) -> C18 stage *graphs with planted answers, 60..130 vertices*",
    "C20-11": "caught by the stage *equal-hash sub-diagrams under one root*, written for this round (retain memo keyed by a 32-bit truncation of the hash)",
    # round 12 (8 changes; angle: correct whenever at most two features meet, wrong when three or more meet)
    "C04-12": "**missed** by C04 (caught by C01 and C06: `lfp x # [x, exists x # (x & b)] >= 1`) -> C04's language route puts the quantified formula inside counting lists, if-then-else and fixed points on one of the quantified names",
    "C10-12": "**missed** by C10 (caught by C09: a name bound by a quantifier, re-bound by an inner fixed point and used again afterwards is reported free) -> C10 stage *shadowing formulas through -t / -v / -r*",
    "C14-12": "**missed** (two list-versus-list comparisons with the same operator and operands, split at different points, collapse into one node of the parse-tree export) -> C14 generates near-copy sub-terms next to the original and enumerates all twin list comparisons over a, b, c, d",
    "C14-7": "**missed** (needs separately allocated equal sub-diagrams) -> C14 also exports plain values / nodes of another environment",
}


def first_lines(path, n=3):
    try:
        txt = open(path).read()
    except OSError:
        return ""
    # take the first sentence-like content lines of NOTES.md
    lines = [l.strip(" -*#") for l in txt.splitlines() if l.strip() and not l.startswith("#")]
    s = " ".join(lines[:n])
    s = re.sub(r"\s+", " ", s).replace("|", "\\|")
    return s[:260]


def main():
    out = ["## Appendix C — sensitivity: which check catches which deliberate breakage", "",
           "All runs in scratch copies (`tools/mutlab.py`, `tools/seedcheck.py`; labs under `/tmp`: a git worktree of `/repo` plus a copy",
           "of `/verif` whose harness points at it), quick tier, `VERIF_SEED=0`; `/repo` itself was never modified. `tests` = the",
           "repository's own 31-test suite with the change applied (`!!` = the suite itself notices the change: a weak mutant).", "",
           "### C.1 Changes written by independent sub-agents (`/verif/seeded/<ID>[-round]/`)", "",
           "Twelve rounds of sub-agents (20 each, the ninth 10; the tenth was asked for the least exercised *place* instead of a shape of change, the eleventh for changes that are correct on every small instance and go wrong beyond a threshold of size, width, count or length; a twelfth, smaller round of 8 for changes that are correct whenever at most two features meet); each saw only the text of one property (from round 2 on with a short hint at an angle",
           "not derived from /verif) and its own worktree. Every change compiles, passes the 31 tests, and its demonstration fails",
           "with / passes without the change (re-confirmed in the lab, `meta.json`). `first attempt` says what happened when the",
           "change was first run against the checks as they were at that moment.", "",
           "| seeded | what it does / what it needs to manifest (from its NOTES.md) | caught by (quick, final machinery) | first attempt |",
           "|---|---|---|---|"]
    metas = sorted(glob.glob(ROOT + "/seeded/*/meta.json"))
    for mp in metas:
        m = json.load(open(mp))
        sid = m["id"]
        caught = [p for p, x in m["checks"].items() if x["caught"]]
        note = first_lines(os.path.dirname(mp) + "/NOTES.md")
        out.append(f"| {sid} | {note} | {', '.join(caught) if caught else '-'} | {FIRST_ATTEMPT.get(sid, 'caught')} |")
    out += ["", f"{len(metas)} seeded changes; {sum(1 for k in FIRST_ATTEMPT)} of them were missed (or caught only indirectly / slowly) at first and led to the",
            "strengthenings listed in section 0.", ""]
    rp = ROOT + "/tools/mutants-results.json"
    if os.path.exists(rp):
        res = json.load(open(rp))
        out += ["### C.2 Own mutants (`tools/mutants.json`, generated by `tools/make_mutants.py`)", "",
                "| mutant | breaks | tests | caught by |", "|---|---|---|---|"]
        for r in res:
            cb = ", ".join(r.get("caught_by") or []) or "-"
            missed = [p for p, x in r["checks"].items() if x["exit"] == 0]
            incon = [p for p, x in r["checks"].items() if x["exit"] == 2]
            extra = (f" (missed: {', '.join(missed)})" if missed else "") + (f" (inconclusive: {', '.join(incon)})" if incon else "")
            out.append(f"| {r['name']} | {r.get('breaks')} | {r.get('repo_tests')}{'' if r.get('survives_repo_tests') else ' !!'} | {cb}{extra} |")
        out.append("")
    bp = ROOT + "/tools/benign-results.json"
    if os.path.exists(bp):
        res = json.load(open(bp))
        out += ["## Appendix D — behaviour-preserving variants on which every check stays silent (`tools/benign.json`)", "",
                "| variant | why the property still holds | checks run | alarms |", "|---|---|---|---|"]
        why = {b["name"]: b.get("why", "") for b in json.load(open(ROOT + "/tools/benign.json"))}
        for r in res:
            alarms = [p for p, x in r["checks"].items() if x["exit"] == 1]
            incon = [p for p, x in r["checks"].items() if x["exit"] == 2]
            out.append(f"| {r['name']} | {why.get(r['name'], '')} | {', '.join(r['checks'].keys())} | {'none' if not alarms else ', '.join(alarms)}{' (inconclusive: ' + ', '.join(incon) + ')' if incon else ''} |")
        out.append("")
    bmetas = sorted(glob.glob(ROOT + "/benign_seeded/*/meta.json"))
    if bmetas:
        out += ["### D.2 Behaviour-preserving changes written by independent sub-agents (`/verif/benign_seeded/<ID>-bN/`)", "",
                "Seven rounds (20, 20, 20, 20, 10, 14, 12; the seventh - suffix `-b7`, asked for CORRECT changes that make the code cope with large inputs: memo tables keyed by node identity, dynamic programming instead of exponential recursion, block-wise reading, wrapped output, other node numbering - was run against the checks of the property concerned and its neighbours, 2..7 checks each, after the wide stages of section 0.1 were added). Each sub-agent saw only the text of one property and was asked for a realistic, deliberately visible change of",
                "*unspecified* behaviour under which the statement, read literally, still holds. Every patch was applied in the lab and",
                "ALL 20 checks were run (quick; round 7: the checks listed in its `meta.json`). `first run` records what happened before any correction of the machinery; `review` is my",
                "verdict on whether the change really preserves the property (an alarm on a change that does not is a true positive).", "",
                "| change | what differs (from its NOTES.md) | review | alarms, final machinery | first run |", "|---|---|---|---|---|"]
        for mp in bmetas:
            m = json.load(open(mp))
            alarms = [p for p, x in m["checks"].items() if x.get("alarm")]
            incon = [p for p, x in m["checks"].items() if x["exit"] not in (0, 1)]
            note = first_lines(os.path.dirname(mp) + "/NOTES.md")
            out.append(f"| {m['id']} | {note} | {m.get('review', 'preserves the property')} | {', '.join(alarms) if alarms else 'none'}{' (inconclusive: ' + ', '.join(incon) + ')' if incon else ''} | {m.get('first_run', 'silent')} |")
        out.append("")
    s = open(ROOT + "/DESIGN.md").read()
    if "## Appendix C" in s:
        s = s[:s.index("## Appendix C")]
    s = s.rstrip() + "\n\n" + "\n".join(out) + "\n"
    open(ROOT + "/DESIGN.md", "w").write(s)
    print("appendices regenerated:", len(metas), "seeded")


if __name__ == "__main__":
    main()
