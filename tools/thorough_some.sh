#!/bin/bash
# thorough tier of the given checks, one after the other (from a snapshot: builds first)
./build.sh all >/dev/null 2>&1; ./build.sh fuzz >/dev/null 2>&1
for p in "$@"; do s=$(date +%s); out=$(./check $p thorough 2>&1); rc=$?; echo "$out" | grep -E '^\[C|^(OK|VIOLATION|INCONCLUSIVE|KNOWN)' ; echo "== $p rc=$rc $(( $(date +%s) - s )) s"; if [ $rc -ne 0 ]; then echo "$out" | tail -20; fi; done
