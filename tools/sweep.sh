#!/bin/bash
# seed sweep of all quick checks on the unchanged tree from a snapshot
for s in "$@"; do for i in $(seq -w 1 20); do p=C$i; out=$(VERIF_SEED=$s ./check $p quick 2>&1); rc=$?; echo "seed=$s $p rc=$rc $(echo "$out" | grep -E '^(OK|VIOLATION|INCONCLUSIVE|KNOWN)' | head -2 | tr '\n' ' ')"; if [ $rc -ne 0 ]; then echo "$out" | tail -15; fi; done; done
