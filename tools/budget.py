#!/usr/bin/env python3
"""Regenerate the budget table of DESIGN.md section 8 from evidence/*.json (quick tier, as last run)
and tools/thorough-run*.log (the `OK property=...` lines of the last complete thorough runs)."""
import json, os, re, glob
ROOT = os.path.dirname(os.path.dirname(os.path.abspath(__file__)))
th = {}
for f in sorted(glob.glob(ROOT + "/tools/thorough-run*.log")):
    for l in open(f):
        m = re.match(r"OK property=(C\d+) tier=thorough seed=\d+ evaluations=(\d+) distinct_nontrivial=(\d+) wall_s=([\d.]+)", l)
        if m:
            th[m.group(1)] = (int(m.group(2)), int(m.group(3)), float(m.group(4)))
rows = ["| property | quick evaluations | quick distinct non-trivial | quick wall | thorough evaluations | thorough distinct non-trivial | thorough wall |", "|---|---|---|---|---|---|---|"]
for i in range(1, 21):
    pid = f"C{i:02d}"
    e = json.load(open(f"{ROOT}/evidence/{pid}.json"))
    cov = e.get("coverage", {})
    q_eval = cov.get("evaluations", 0)
    q_nt = cov.get("distinct_nontrivial", 0)
    q_wall = e.get("wall_s", 0)
    t = th.get(pid)
    rows.append(f"| {pid} | {q_eval:,} | {q_nt:,} | {q_wall:.1f} s | " + (f"{t[0]:,} | {t[1]:,} | {t[2]/60:.1f} min |" if t else "- | - | - |"))
s = open(ROOT + "/DESIGN.md").read()
start = s.index("| property | quick evaluations")
end = s.index("\n\n", start)
s = s[:start] + "\n".join(rows) + s[end:]
open(ROOT + "/DESIGN.md", "w").write(s)
print("budget table regenerated")
