use verif_core::{rlex, rparse};
fn main() {
    for s in [
        format!("{}a{}", "(".repeat(199), ")".repeat(199)),
        format!("{}a", "-".repeat(199)),
        format!("{}a", "a & ".repeat(198)),
        format!("{}a", "exists x # ".repeat(199)),
        format!("{}a{}", "[".repeat(100), "] >= 1".repeat(100)),
        format!("{}a", "if a then b else ".repeat(66)),
        format!("{}X", "lfp X # ".repeat(60)),
        "(".repeat(200), "[".repeat(200),
    ] {
        let t = rlex::lex(&s).unwrap();
        let n = rparse::token_nesting(&t);
        let d = rparse::parse_tokens(&t).map(|(a, d)| (a.depth(), d));
        println!("{:.20} nesting={} parsed={:?}", s, n, d);
    }
}
