use rsbdd::bdd_io::BDDGraph;
use rsbdd::parser_io::SymbolicParseTree;
use rsbdd::TruthTableEntry;
use verif_core::front;
fn main() {
    let text = std::env::args().nth(1).unwrap();
    let (r, pf) = front::eval_text(&text, None).unwrap();
    for f in [TruthTableEntry::Any, TruthTableEntry::True] {
        let mut v = Vec::new();
        BDDGraph::new(&r, f).render_dot(&mut v).unwrap();
        println!("{}", String::from_utf8_lossy(&v));
    }
    let mut v = Vec::new();
    SymbolicParseTree::new(&pf.bdd).render_dot(&mut v).unwrap();
    println!("{}", String::from_utf8_lossy(&v));
}
