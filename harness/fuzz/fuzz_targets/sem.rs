#![no_main]
//! C01 under coverage guidance: the bytes are the generator tape (formula + decoration).
use libfuzzer_sys::fuzz_target;
use verif_core::fuzzglue;

fuzz_target!(|data: &[u8]| {
    fuzzglue::sem(data);
});
