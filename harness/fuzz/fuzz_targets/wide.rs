#![no_main]
//! C02-C05, C07, C13, C20 on wide cases under coverage guidance: the bytes are the tape of a wide case.
use libfuzzer_sys::fuzz_target;
use verif_core::fuzzglue;

fuzz_target!(|data: &[u8]| {
    fuzzglue::wide(data);
});
