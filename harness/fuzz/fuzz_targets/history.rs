#![no_main]
//! C13 / C02 under coverage guidance: the bytes are the tape of an operation history.
use libfuzzer_sys::fuzz_target;
use verif_core::fuzzglue;

fuzz_target!(|data: &[u8]| {
    fuzzglue::history(data);
});
