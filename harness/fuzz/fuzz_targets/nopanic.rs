#![no_main]
//! C12 under coverage guidance: the bytes are the input text.
use libfuzzer_sys::fuzz_target;
use verif_core::fuzzglue;

fuzz_target!(|data: &[u8]| {
    fuzzglue::nopanic(data);
});
