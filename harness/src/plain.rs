//! Independent reduced ordered diagrams (plain `BDD` enum values that never touch a
//! `BDDEnv`), interning of a truth table through the public `mk_choice`, and the walker
//! (evaluation, truth table, structural invariants).

use crate::tt::TT;
use rsbdd::bdd::{BDDEnv, BDD};
use rsbdd::BDDSymbol;
use std::collections::{BTreeSet, HashMap};
use std::rc::Rc;

/// `syms[p]` is the symbol of truth-table position `p`. The diagram order is the
/// symbols' own `Ord` (smallest on top).
fn level_order<S: BDDSymbol>(syms: &[S]) -> Vec<usize> {
    let mut idx: Vec<usize> = (0..syms.len()).collect();
    idx.sort_by(|&a, &b| syms[a].cmp(&syms[b]));
    for w in idx.windows(2) {
        assert!(
            syms[w[0]] < syms[w[1]],
            "harness: duplicate symbols in order"
        );
    }
    idx
}

/// Canonical ROBDD of `tt` built from plain enum values (no environment).
pub fn build<S: BDDSymbol>(tt: &TT, syms: &[S]) -> Rc<BDD<S>> {
    assert_eq!(tt.k, syms.len());
    let order = level_order(syms);
    let mut memo: HashMap<(usize, TT), Rc<BDD<S>>> = HashMap::new();
    build_rec(tt, syms, &order, 0, &mut memo)
}

fn build_rec<S: BDDSymbol>(
    tt: &TT,
    syms: &[S],
    order: &[usize],
    level: usize,
    memo: &mut HashMap<(usize, TT), Rc<BDD<S>>>,
) -> Rc<BDD<S>> {
    if tt.is_true() {
        return Rc::new(BDD::True);
    }
    if tt.is_false() {
        return Rc::new(BDD::False);
    }
    assert!(level < order.len());
    if let Some(r) = memo.get(&(level, tt.clone())) {
        return Rc::clone(r);
    }
    let p = order[level];
    let hi = tt.cofactor(p, true);
    let lo = tt.cofactor(p, false);
    let r = if hi == lo {
        build_rec(&hi, syms, order, level + 1, memo)
    } else {
        let h = build_rec(&hi, syms, order, level + 1, memo);
        let l = build_rec(&lo, syms, order, level + 1, memo);
        Rc::new(BDD::Choice(h, syms[p].clone(), l))
    };
    memo.insert((level, tt.clone()), Rc::clone(&r));
    r
}

/// The same diagram, but created bottom-up through the environment's public
/// `mk_choice` / `mk_const`, so that it is a legitimate operand living in `env`.
/// Uses none of the operations under test.
pub fn intern<S: BDDSymbol>(env: &BDDEnv<S>, tt: &TT, syms: &[S]) -> Rc<BDD<S>> {
    assert_eq!(tt.k, syms.len());
    let order = level_order(syms);
    let mut memo: HashMap<(usize, TT), Rc<BDD<S>>> = HashMap::new();
    intern_rec(env, tt, syms, &order, 0, &mut memo)
}

fn intern_rec<S: BDDSymbol>(
    env: &BDDEnv<S>,
    tt: &TT,
    syms: &[S],
    order: &[usize],
    level: usize,
    memo: &mut HashMap<(usize, TT), Rc<BDD<S>>>,
) -> Rc<BDD<S>> {
    if tt.is_true() {
        return env.mk_const(true);
    }
    if tt.is_false() {
        return env.mk_const(false);
    }
    if let Some(r) = memo.get(&(level, tt.clone())) {
        return Rc::clone(r);
    }
    let p = order[level];
    let hi = tt.cofactor(p, true);
    let lo = tt.cofactor(p, false);
    let r = if hi == lo {
        intern_rec(env, &hi, syms, order, level + 1, memo)
    } else {
        let h = intern_rec(env, &hi, syms, order, level + 1, memo);
        let l = intern_rec(env, &lo, syms, order, level + 1, memo);
        env.mk_choice(h, syms[p].clone(), l)
    };
    memo.insert((level, tt.clone()), Rc::clone(&r));
    r
}

/// Copy a diagram of another environment into `env` through `mk_choice` (structure-preserving).
pub fn copy_into<S: BDDSymbol>(env: &BDDEnv<S>, b: &Rc<BDD<S>>) -> Rc<BDD<S>> {
    match b.as_ref() {
        BDD::True => env.mk_const(true),
        BDD::False => env.mk_const(false),
        BDD::Choice(t, v, f) => {
            let tt = copy_into(env, t);
            let ff = copy_into(env, f);
            env.mk_choice(tt, v.clone(), ff)
        }
    }
}

/// Deep clone into plain values (new allocations, no environment).
pub fn deep_clone<S: BDDSymbol>(b: &Rc<BDD<S>>) -> Rc<BDD<S>> {
    let mut memo: HashMap<*const BDD<S>, Rc<BDD<S>>> = HashMap::new();
    deep_clone_rec(b, &mut memo)
}

fn deep_clone_rec<S: BDDSymbol>(
    b: &Rc<BDD<S>>,
    memo: &mut HashMap<*const BDD<S>, Rc<BDD<S>>>,
) -> Rc<BDD<S>> {
    let key = Rc::as_ptr(b);
    if let Some(r) = memo.get(&key) {
        return Rc::clone(r);
    }
    let r = match b.as_ref() {
        BDD::True => Rc::new(BDD::True),
        BDD::False => Rc::new(BDD::False),
        BDD::Choice(t, v, f) => Rc::new(BDD::Choice(
            deep_clone_rec(t, memo),
            v.clone(),
            deep_clone_rec(f, memo),
        )),
    };
    memo.insert(key, Rc::clone(&r));
    r
}

/// Evaluate under an assignment given as a function of the node symbol.
pub fn eval<S: BDDSymbol, F: Fn(&S) -> bool>(b: &BDD<S>, asg: &F) -> bool {
    let mut cur = b;
    loop {
        match cur {
            BDD::True => return true,
            BDD::False => return false,
            BDD::Choice(t, v, f) => {
                cur = if asg(v) { t.as_ref() } else { f.as_ref() };
            }
        }
    }
}

/// Truth table of a diagram over `k` positions; `pos` maps a node symbol to its position
/// (None = the diagram mentions a symbol that is not in the table's domain -> Err).
pub fn table<S: BDDSymbol, F: Fn(&S) -> Option<usize>>(
    b: &Rc<BDD<S>>,
    k: usize,
    pos: &F,
) -> Result<TT, String> {
    let mut memo: HashMap<*const BDD<S>, TT> = HashMap::new();
    table_rec(b, k, pos, &mut memo)
}

fn table_rec<S: BDDSymbol, F: Fn(&S) -> Option<usize>>(
    b: &Rc<BDD<S>>,
    k: usize,
    pos: &F,
    memo: &mut HashMap<*const BDD<S>, TT>,
) -> Result<TT, String> {
    match b.as_ref() {
        BDD::True => Ok(TT::konst(k, true)),
        BDD::False => Ok(TT::konst(k, false)),
        BDD::Choice(t, v, f) => {
            let key = Rc::as_ptr(b);
            if let Some(r) = memo.get(&key) {
                return Ok(r.clone());
            }
            let p = pos(v).ok_or_else(|| format!("diagram tests unexpected symbol `{}`", v))?;
            if p >= k {
                return Err(format!("symbol `{}` mapped outside the table", v));
            }
            let tt = table_rec(t, k, pos, memo)?;
            let ft = table_rec(f, k, pos, memo)?;
            let r = TT::var(k, p).ite(&tt, &ft);
            memo.insert(key, r.clone());
            Ok(r)
        }
    }
}

/// Table of a `usize` diagram where `syms[p]` is the id of position p.
pub fn table_usize(b: &Rc<BDD<usize>>, syms: &[usize]) -> Result<TT, String> {
    table(b, syms.len(), &|s: &usize| syms.iter().position(|x| x == s))
}

#[derive(Debug, Clone, Default)]
pub struct Shape {
    pub ordered: bool,
    pub reduced: bool,
    /// number of structurally distinct test (Choice) sub-diagrams
    pub distinct_tests: usize,
    /// number of distinct allocations among test nodes
    pub distinct_allocs: usize,
    pub depth: usize,
    pub problem: Option<String>,
}

/// Structural invariants of a diagram: ordered (symbols strictly increase from parent
/// to child on every edge) and reduced (no test with two identical outcomes).
pub fn invariants<S: BDDSymbol>(b: &Rc<BDD<S>>) -> Shape {
    let mut seen: HashMap<*const BDD<S>, usize> = HashMap::new();
    let mut sh = Shape {
        ordered: true,
        reduced: true,
        ..Default::default()
    };
    let mut structs: std::collections::HashSet<BDD<S>> = std::collections::HashSet::new();
    sh.depth = inv_rec(b, &mut seen, &mut sh, &mut structs);
    sh.distinct_allocs = seen.len();
    sh.distinct_tests = structs.len();
    sh
}

fn inv_rec<S: BDDSymbol>(
    b: &Rc<BDD<S>>,
    seen: &mut HashMap<*const BDD<S>, usize>,
    sh: &mut Shape,
    structs: &mut std::collections::HashSet<BDD<S>>,
) -> usize {
    match b.as_ref() {
        BDD::True | BDD::False => 0,
        BDD::Choice(t, v, f) => {
            let key = Rc::as_ptr(b);
            if let Some(d) = seen.get(&key) {
                return *d;
            }
            if t.as_ref() == f.as_ref() {
                sh.reduced = false;
                if sh.problem.is_none() {
                    sh.problem = Some(format!("test on `{}` has identical outcomes", v));
                }
            }
            for c in [t, f] {
                if let BDD::Choice(_, cv, _) = c.as_ref() {
                    if !(v < cv) {
                        sh.ordered = false;
                        if sh.problem.is_none() {
                            sh.problem =
                                Some(format!("child `{}` does not follow parent `{}`", cv, v));
                        }
                    }
                }
            }
            let d = 1 + std::cmp::max(inv_rec(t, seen, sh, structs), inv_rec(f, seen, sh, structs));
            seen.insert(key, d);
            structs.insert(b.as_ref().clone());
            d
        }
    }
}

/// Symbols tested anywhere in the diagram.
pub fn support_syms<S: BDDSymbol>(b: &Rc<BDD<S>>) -> BTreeSet<S> {
    let mut seen: std::collections::HashSet<*const BDD<S>> = std::collections::HashSet::new();
    let mut out = BTreeSet::new();
    sup_rec(b, &mut seen, &mut out);
    out
}

fn sup_rec<S: BDDSymbol>(
    b: &Rc<BDD<S>>,
    seen: &mut std::collections::HashSet<*const BDD<S>>,
    out: &mut BTreeSet<S>,
) {
    if let BDD::Choice(t, v, f) = b.as_ref() {
        if !seen.insert(Rc::as_ptr(b)) {
            return;
        }
        out.insert(v.clone());
        sup_rec(t, seen, out);
        sup_rec(f, seen, out);
    }
}

/// All distinct test-node allocations reachable from `b` (each Rc once).
pub fn reachable<S: BDDSymbol>(b: &Rc<BDD<S>>) -> Vec<Rc<BDD<S>>> {
    let mut seen: std::collections::HashSet<*const BDD<S>> = std::collections::HashSet::new();
    let mut out = Vec::new();
    reach_rec(b, &mut seen, &mut out);
    out
}

fn reach_rec<S: BDDSymbol>(
    b: &Rc<BDD<S>>,
    seen: &mut std::collections::HashSet<*const BDD<S>>,
    out: &mut Vec<Rc<BDD<S>>>,
) {
    if !seen.insert(Rc::as_ptr(b)) {
        return;
    }
    out.push(Rc::clone(b));
    if let BDD::Choice(t, _, f) = b.as_ref() {
        reach_rec(t, seen, out);
        reach_rec(f, seen, out);
    }
}

/// Compact textual rendering for replay files / samples.
pub fn render<S: BDDSymbol>(b: &BDD<S>) -> String {
    match b {
        BDD::True => "T".to_string(),
        BDD::False => "F".to_string(),
        BDD::Choice(t, v, f) => format!("({}?{}:{})", v, render(t), render(f)),
    }
}

#[cfg(test)]
mod tests {
    use super::*;

    #[test]
    fn build_and_table_roundtrip() {
        let syms = [2usize, 5, 9];
        for bits in 0..256u64 {
            let t = TT::from_bits(3, bits);
            let b = build(&t, &syms);
            assert_eq!(table_usize(&b, &syms).unwrap(), t);
            let sh = invariants(&b);
            assert!(sh.ordered && sh.reduced);
            // permuted position->symbol map
            let syms2 = [9usize, 2, 5];
            let b2 = build(&t, &syms2);
            assert_eq!(table_usize(&b2, &syms2).unwrap(), t);
            assert!(invariants(&b2).ordered);
        }
    }
}
