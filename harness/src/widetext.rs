//! Wide formula texts: more names than a truth table can hold (up to ~600), fixed points with
//! hundreds of applications, counting lists of 17+ operands. The oracle is the reference
//! semantics on reference diagrams (`rsem::diagram` over `refbdd`), the answer of the
//! implementation is read back by name and must be the same reference node.

use crate::engine::*;
use crate::front;
use crate::gen::{self, Cfg};
use crate::refbdd::Ref;
use crate::rprint;
use crate::rsem;
use crate::util::{fnv_str, Tape};
use crate::{rlex, rparse};
use serde_json::{json, Value};

pub const RULE: &str = "wide texts = (i) a padding conjunction / disjunction over 60..70, 126..130 or 254..258 (thorough: ..600) fresh names followed by a random formula of the full language (quantifiers, counting, fixed points) over a few late names and some padding names, so that the variables the formula works on have ids beyond 64 / 128 / 256; (ii) reachability in a k-bit counter as lfp (and its gfp dual), k = 1..9 (thorough 11): 2^k - c applications over 2k variables; (iii) counting comparisons over lists of 14..21 (thorough 22) literals. Oracle: the reference semantics evaluated on the harness's own node-based ROBDD package; the answer is read back by variable NAME and must be the same reference node; it must not mention a bound-only name. Non-trivial = more than 16 names or more than 16 fixed-point applications or more than 12 list entries.";

/// Compare the implementation's answer for `text` with the reference semantics.
pub fn check_text(text: &str, fp_limit: Option<usize>) -> Check {
    let cj = json!({"kind": "wide-text", "text": text, "fp_limit": fp_limit});
    guarded(&cj.clone(), || {
        let p = rparse::parse_text(text.as_bytes()).map_err(|e| Violation::new(format!("HARNESS: reference parser rejects the generated text: {}", e), cj.clone()))?;
        let names = rlex::identifiers(&p.tokens);
        let mut m = Ref::new();
        let want = match rsem::diagram(&p.ast, &names, &mut m, 6000) {
            Ok(o) => o.id,
            Err(_) => return Err(Violation::new("SKIP: reference semantics does not converge", cj.clone())),
        };
        let (b, _pf) = match front::run_text(text.as_bytes(), None, fp_limit) {
            front::Run::Ok(b, pf) => (b, pf),
            front::Run::ParseErr(e) => return Err(front::rejection(text, "well-formed text", &e, &cj)),
            front::Run::ParsePanic(e) => return Err(Violation::new(format!("panic while parsing: {}", e), cj.clone())),
            front::Run::EvalPanic(e, _) => return Err(Violation::new(format!("panic while evaluating: {}", e), cj.clone())),
        };
        let got = m
            .read(&b, &|s: &rsbdd::NamedSymbol| names.iter().position(|n| n == s.name.as_ref()))
            .map_err(|e| Violation::new(e, cj.clone()))?;
        if got != want {
            let d = m.xor(got, want);
            let a = m.any_sat(d).unwrap_or_default();
            let tr: Vec<&str> = a.iter().filter(|(_, b)| *b).map(|(v, _)| names[*v].as_str()).collect();
            let asg = |v: usize| a.iter().any(|(x, b)| *x == v && *b);
            return Err(Violation::new(
                format!(
                    "the answer is {} but the documented meaning gives {} under the assignment in which exactly {:?} (of the variables the two depend on) are true",
                    m.eval(got, &asg),
                    m.eval(want, &asg),
                    tr
                ),
                cj.clone(),
            ));
        }
        // bound-only names never appear in the answer (C09)
        let free = p.ast.free_vars();
        for s in m.support(got) {
            if !free.contains(&names[s]) {
                return Err(Violation::new(format!("the answer depends on `{}`, which has no free occurrence", names[s]), cj.clone()));
            }
        }
        Ok(())
    })
}

pub fn replay(case: &Value) -> Option<Check> {
    if case["kind"].as_str()? != "wide-text" {
        return None;
    }
    let text = case["text"].as_str()?;
    Some(check_text(text, case["fp_limit"].as_u64().map(|x| x as usize)))
}

// ---------------------------------------------------------------------------------------------

fn conj(parts: &[String], op: &str) -> String {
    // binary operators are right-associative without precedence: a chain of one operator needs no parentheses
    parts.join(&format!(" {} ", op))
}

/// lfp reachability in a k-bit counter starting at `c`, no wrap-around: {v | v >= c}, 2^k - c + 1 applications
pub fn counter_text(k: usize, c: usize, greatest: bool, style: usize) -> String {
    let v: Vec<String> = (0..k).map(|i| format!("v{}", i)).collect();
    let w: Vec<String> = (0..k).map(|i| format!("w{}", i)).collect();
    let init = conj(&(0..k).map(|i| if (c >> i) & 1 == 1 { v[i].clone() } else { format!("-{}", v[i]) }).collect::<Vec<_>>(), "&");
    let eq = conj(&(0..k).map(|i| format!("({} <=> {})", v[i], w[i])).collect::<Vec<_>>(), "&");
    let succ = conj(
        &(0..k)
            .map(|i| {
                if i == 0 {
                    format!("({} <=> -{})", v[0], w[0])
                } else {
                    format!("({} <=> ({} ^ ({})))", v[i], w[i], conj(&w[..i].to_vec(), "&"))
                }
            })
            .collect::<Vec<_>>(),
        "&",
    );
    let nowrap = format!("-({})", conj(&w, "&"));
    let (lfp, gfp, ex, fa) = match style % 3 {
        0 => ("lfp", "gfp", "exists", "forall"),
        1 => ("mu", "nu", "any", "all"),
        _ => ("lfp", "nu", "exists", "all"),
    };
    let step = |x: &str| format!("{ex} {ws} # (({ex} {vs} # (({x}) & ({eq}))) & ({succ}) & ({nowrap}))", ex = ex, ws = w.join(", "), vs = v.join(", "), x = x, eq = eq, succ = succ, nowrap = nowrap);
    if !greatest {
        format!("{} X # (({}) | ({}))", lfp, init, step("X"))
    } else {
        // dual: gfp Y # -T(-Y); denotes the complement of the reachable set
        let _ = fa;
        format!("{} Y # -(({}) | ({}))", gfp, init, step("-Y"))
    }
}

pub fn stage_counters(ctx: &mut Ctx, name: &str) -> Result<(), Violation> {
    let kmax = ctx.tier.pick(9usize, 11usize);
    let mut jobs: Vec<(usize, usize, bool, usize)> = Vec::new();
    for k in 1..=kmax {
        let full = 1usize << k;
        let starts: Vec<usize> = if k < 9 { vec![0, full / 2, full - 1] } else { vec![0, full - 258, full - 300] };
        for (j, c) in starts.into_iter().enumerate() {
            for g in [false, true] {
                if k >= 9 && g && j > 0 {
                    continue;
                }
                jobs.push((k, c, g, k + j));
            }
        }
    }
    let r = par_jobs(ctx, &jobs, |(k, c, g, style), st| {
        let text = counter_text(*k, *c, *g, *style);
        let apps = (1usize << k) - c + 1;
        st.eval();
        st.class(match apps {
            0..=16 => "applications<=16",
            17..=256 => "applications 17..256",
            257..=300 => "applications 257..300",
            _ => "applications>300",
        });
        if apps > 16 && st.nontrivial(fnv_str(&text)) {
            st.nt_sample(|| json!({"kind": "wide-text", "counter-bits": k, "start": c, "greatest": g, "applications": apps}));
        }
        check_text(&text, Some(apps + 4))
    });
    ctx.stage(name, true, r)
}

/// `(p0 & p1 & ... ) op (F)`: F works on variables whose ids lie beyond the padding
pub fn padded_formula(t: &mut Tape, thorough: bool, quant_bias: bool) -> String {
    const SIZES: [usize; 15] = [60, 62, 63, 64, 65, 66, 70, 126, 127, 128, 129, 130, 254, 256, 258];
    let mut n = SIZES[t.choose(SIZES.len())];
    if thorough && t.chance(30) {
        n = 259 + t.choose(340);
    }
    let pads: Vec<String> = (0..n).map(|i| format!("p{}", i)).collect();
    let mut cfg = Cfg::standard(4, 2 + t.choose(3));
    // late names plus a few padding names from the ends and the word boundaries
    let mut names: Vec<String> = vec!["a".into(), "b".into(), "c".into(), "X".into()];
    for p in [0usize, 31, 32, 63, 64, n - 1] {
        if p < n && t.flag() {
            names.push(pads[p].clone());
        }
    }
    cfg.names = names;
    cfg.fix_names = vec!["X".into(), "a".into()];
    cfg.max_list = 4;
    cfg.big_consts = false;
    cfg.max_fix_nest = 1;
    let f = if quant_bias {
        let body = gen::formula(t, &cfg);
        let mut vs: Vec<String> = Vec::new();
        for nme in &cfg.names {
            if nme != "X" && t.flag() {
                vs.push(nme.clone());
            }
        }
        if vs.is_empty() {
            vs.push("a".into());
        }
        crate::rast::RAst::Quant(t.flag(), vs, Box::new(body))
    } else {
        gen::formula(t, &cfg)
    };
    let ftext = rprint::plain(&f);
    let (pad_op, join) = match t.choose(4) {
        0 => ("&", "|"),
        1 => ("&", "^"),
        2 => ("|", "&"),
        _ => ("&", "=>"),
    };
    let pad = match t.choose(3) {
        0 => conj(&pads, pad_op),
        1 => conj(&pads.iter().map(|p| format!("-{}", p)).collect::<Vec<_>>(), pad_op),
        _ => conj(&pads.iter().enumerate().map(|(i, p)| if i % 2 == 0 { p.clone() } else { format!("-{}", p) }).collect::<Vec<_>>(), pad_op),
    };
    format!("({}) {} ({})", pad, join, ftext)
}

pub fn stage_padded(ctx: &mut Ctx, name: &str, cases: u64, quant_bias: bool) -> Result<(), Violation> {
    let thorough = ctx.tier == Tier::Thorough;
    let r = par_random(ctx, name, cases, 300, |tape, st| {
        let mut t = Tape::new(tape);
        let text = padded_formula(&mut t, thorough, quant_bias);
        st.eval();
        let p = rparse::parse_text(text.as_bytes());
        if let Ok(p) = &p {
            let n = rlex::identifiers(&p.tokens).len();
            st.class(match n {
                0..=64 => "names<=64",
                65..=128 => "names 65..128",
                129..=256 => "names 129..256",
                _ => "names>256",
            });
            if p.ast.has_fix() {
                st.class("with-fixed-point");
            }
        }
        if st.nontrivial(fnv_str(&text)) {
            st.nt_sample(|| json!({"kind": "wide-text", "text": text}));
        }
        check_text(&text, Some(600))
    });
    ctx.stage(name, false, r)
}

/// counting over long lists of literals, through the language
pub fn long_list_text(t: &mut Tape, thorough: bool) -> String {
    let len = 14 + t.choose(if thorough { 9 } else { 8 });
    let items: Vec<String> = (0..len)
        .map(|i| {
            let nm = if t.chance(24) && i > 0 { format!("x{}", t.choose(i)) } else { format!("x{}", i) };
            if t.chance(40) {
                format!("-{}", nm)
            } else {
                nm
            }
        })
        .collect();
    let op = ["=", "<=", ">=", "<", ">"][t.choose(5)];
    let n = match t.choose(6) {
        0 => 0,
        1 => 1,
        2 => len - 1,
        3 => len,
        4 => len + 1,
        _ => t.choose(len + 1),
    };
    format!("[{}] {} {}", items.join(", "), op, n)
}

pub fn stage_long_lists(ctx: &mut Ctx, name: &str, cases: u64) -> Result<(), Violation> {
    let thorough = ctx.tier == Tier::Thorough;
    let r = par_random(ctx, name, cases, 120, |tape, st| {
        let mut t = Tape::new(tape);
        let text = long_list_text(&mut t, thorough);
        st.eval();
        let len = text.matches(',').count() + 1;
        st.class(match len {
            0..=15 => "list 14..15",
            16..=17 => "list 16..17",
            18..=19 => "list 18..19",
            _ => "list>=20",
        });
        if st.nontrivial(fnv_str(&text)) {
            st.nt_sample(|| json!({"kind": "wide-text", "text": text}));
        }
        check_text(&text, None)
    });
    ctx.stage(name, false, r)
}
