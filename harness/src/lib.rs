//! verif_core: property-based testing / fuzzing harness for timbeurskens/rsbdd.
pub mod cli;
pub mod dot;
pub mod engine;
pub mod front;
pub mod fun;
pub mod fuzzglue;
pub mod gen;
pub mod ops;
pub mod plain;
pub mod props;
pub mod rast;
pub mod rlex;
pub mod rparse;
pub mod rprint;
pub mod rsem;
pub mod tt;
pub mod util;
