//! A Boolean function placed on concrete variable ids: the unit the API-level checks
//! generate, serialise and intern.

use crate::plain;
use crate::tt::TT;
use crate::util::Tape;
use rsbdd::bdd::{BDDEnv, BDD};
use serde_json::{json, Value};
use std::rc::Rc;

#[derive(Clone, Copy, Debug, PartialEq, Eq)]
pub enum Operands {
    Interned,
    Plain,
    OtherEnv,
}

impl Operands {
    pub fn name(self) -> &'static str {
        match self {
            Operands::Interned => "interned",
            Operands::Plain => "plain",
            Operands::OtherEnv => "other-env",
        }
    }
    pub fn from_name(s: &str) -> Operands {
        match s {
            "plain" => Operands::Plain,
            "other-env" => Operands::OtherEnv,
            _ => Operands::Interned,
        }
    }
}

thread_local! {
    static MODE: std::cell::Cell<Operands> = const { std::cell::Cell::new(Operands::Interned) };
}

pub fn operands() -> Operands {
    MODE.with(|m| m.get())
}

/// Run a check with operands of the given provenance; a violation's case records the mode.
pub fn with_operands<F: FnOnce() -> crate::engine::Check>(mode: Operands, f: F) -> crate::engine::Check {
    let old = operands();
    MODE.with(|m| m.set(mode));
    let r = f();
    MODE.with(|m| m.set(old));
    r.map_err(|mut v| {
        if mode != Operands::Interned && !v.message.starts_with("SKIP:") {
            v.case["operands"] = serde_json::json!(mode.name());
            v.message = format!("(operands: {}) {}", mode.name(), v.message);
        }
        v
    })
}

/// replay helper: the mode recorded in a case
pub fn case_operands(case: &Value) -> Operands {
    Operands::from_name(case["operands"].as_str().unwrap_or("interned"))
}

#[derive(Clone, Debug, PartialEq, Eq, Hash)]
pub struct Fun {
    pub tt: TT,
    /// ids[p] = variable id of table position p (distinct, any order)
    pub ids: Vec<usize>,
}

impl Fun {
    pub fn new(tt: TT, ids: Vec<usize>) -> Fun {
        assert_eq!(tt.k, ids.len());
        Fun { tt, ids }
    }

    pub fn konst(b: bool) -> Fun {
        Fun::new(TT::konst(0, b), vec![])
    }

    pub fn to_json(&self) -> Value {
        json!({"tt": self.tt.to_hex(), "ids": self.ids})
    }

    pub fn from_json(v: &Value) -> Option<Fun> {
        let tt = TT::from_hex(v["tt"].as_str()?)?;
        let ids: Vec<usize> = v["ids"]
            .as_array()?
            .iter()
            .map(|x| x.as_u64().map(|u| u as usize))
            .collect::<Option<Vec<_>>>()?;
        if ids.len() != tt.k {
            return None;
        }
        let mut s = ids.clone();
        s.sort();
        s.dedup();
        if s.len() != ids.len() {
            return None;
        }
        Some(Fun { tt, ids })
    }

    /// Table of this function over the universe `uni` (sorted distinct ids, superset of ids).
    pub fn over(&self, uni: &[usize]) -> TT {
        let map: Vec<usize> = self
            .ids
            .iter()
            .map(|id| uni.iter().position(|u| u == id).expect("id in universe"))
            .collect();
        self.tt.remap(uni.len(), &map)
    }

    /// The operand handle for a check. Default: created in `env` through mk_choice. Under
    /// `Operands::Plain` the diagram is made of plain values that belong to no environment
    /// (what `BDD::<usize>::from(named)` produces and the repository's own parser tests then
    /// feed to a fresh environment); under `Operands::OtherEnv` it lives in another environment.
    pub fn intern(&self, env: &BDDEnv<usize>) -> Rc<BDD<usize>> {
        match operands() {
            Operands::Interned => plain::intern(env, &self.tt, &self.ids),
            Operands::Plain => plain::build(&self.tt, &self.ids),
            Operands::OtherEnv => {
                // the nodes keep themselves alive; the foreign environment need not outlive the call
                let other: BDDEnv<usize> = BDDEnv::new();
                plain::intern(&other, &self.tt, &self.ids)
            }
        }
    }

    pub fn plain(&self) -> Rc<BDD<usize>> {
        plain::build(&self.tt, &self.ids)
    }

    /// ids of the variables the function really depends on
    pub fn support_ids(&self) -> Vec<usize> {
        let mut v: Vec<usize> = self.tt.support().into_iter().map(|p| self.ids[p]).collect();
        v.sort();
        v
    }

    pub fn fingerprint(&self) -> u64 {
        crate::util::fnv(format!("{}{:?}", self.tt.to_hex(), self.ids).as_bytes())
    }
}

/// sorted union of ids
pub fn universe(funs: &[&Fun], extra: &[usize]) -> Vec<usize> {
    let mut u: Vec<usize> = funs.iter().flat_map(|f| f.ids.iter().copied()).collect();
    u.extend_from_slice(extra);
    u.sort();
    u.dedup();
    u
}

/// Decode a function from the tape: up to `max_vars` variables with ids drawn from
/// `0..id_pool` (distinct), table bits from the tape.
/// operand provenance from the tape: mostly interned, sometimes foreign
pub fn gen_operands(t: &mut Tape) -> Operands {
    match t.choose(5) {
        0 => Operands::Plain,
        1 => Operands::OtherEnv,
        _ => Operands::Interned,
    }
}

pub fn gen_fun(t: &mut Tape, max_vars: usize, id_pool: usize) -> Fun {
    let n = t.choose(max_vars + 1);
    let mut ids: Vec<usize> = Vec::new();
    for _ in 0..n {
        let mut c = t.choose(id_pool);
        let mut guard = 0;
        while ids.contains(&c) && guard < id_pool {
            c = (c + 1) % id_pool;
            guard += 1;
        }
        if !ids.contains(&c) {
            ids.push(c);
        }
    }
    let k = ids.len();
    let mut tt = TT::konst(k, false);
    let nbits = 1usize << k;
    let mut i = 0;
    while i < nbits {
        let b = t.byte();
        for j in 0..8 {
            if i + j < nbits && (b >> j) & 1 == 1 {
                tt.set(i + j, true);
            }
        }
        i += 8;
    }
    Fun::new(tt, ids)
}
