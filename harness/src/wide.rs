//! Wide cases: functions over tens to hundreds of variables (and ids far from zero), judged
//! against the harness's own reference ROBDD package (`refbdd`) instead of truth tables.
//!
//! rsbdd's operations recurse over *paths*, so the generator builds functions with few paths:
//! cubes / clauses over long variable runs, small arbitrary functions placed anywhere, and a
//! few connectives on top, cut back (by construction, not rejection) until the reference
//! diagram has at most `PATH_CAP` paths.
//!
//! One generator and one case format serve the API-level properties C02, C03, C04, C05, C07
//! and C20 (`kind` = "wide-conn" | "wide-quant" | "wide-count" | "wide-model" | "wide-retain").

use crate::engine::*;
use crate::fun::{self, Fun, Operands};
use crate::plain;
use crate::refbdd::{self, Id, Ref};
use crate::tt::TT;
use crate::util::{fnv_str, Tape};
use rsbdd::bdd::{BDDEnv, BDD};
use rsbdd::TruthTableEntry;
use serde_json::{json, Value};
use std::collections::BTreeSet;
use std::hash::{Hash, Hasher};
use std::rc::Rc;

pub const PATH_CAP: u64 = 1500;

#[derive(Clone, Debug)]
pub enum W {
    Const(bool),
    Cube(Vec<(usize, bool)>),
    Clause(Vec<(usize, bool)>),
    Small(Fun),
    Not(Box<W>),
    Bin(u8, Box<W>, Box<W>),
}

fn op_name(op: u8) -> &'static str {
    match op {
        refbdd::OP_AND => "and",
        refbdd::OP_OR => "or",
        refbdd::OP_XOR => "xor",
        refbdd::OP_IFF => "iff",
        refbdd::OP_IMP => "imp",
        _ => "and",
    }
}
fn op_code(s: &str) -> u8 {
    match s {
        "or" => refbdd::OP_OR,
        "xor" => refbdd::OP_XOR,
        "iff" => refbdd::OP_IFF,
        "imp" => refbdd::OP_IMP,
        _ => refbdd::OP_AND,
    }
}

fn lits_json(l: &[(usize, bool)]) -> Value {
    // compact: runs are common, but keep it plain and replayable. ids may exceed 2^53: strings
    Value::Array(l.iter().map(|(v, p)| json!(format!("{}{}", if *p { "" } else { "-" }, v))).collect())
}
fn lits_from(v: &Value) -> Option<Vec<(usize, bool)>> {
    v.as_array()?
        .iter()
        .map(|x| {
            let s = x.as_str()?;
            let (neg, d) = match s.strip_prefix('-') {
                Some(r) => (true, r),
                None => (false, s),
            };
            Some((d.parse::<usize>().ok()?, !neg))
        })
        .collect()
}

impl W {
    pub fn to_json(&self) -> Value {
        match self {
            W::Const(b) => json!({ "const": b }),
            W::Cube(l) => json!({ "cube": lits_json(l) }),
            W::Clause(l) => json!({ "clause": lits_json(l) }),
            W::Small(f) => json!({"fun": {"tt": f.tt.to_hex(), "k": f.tt.k, "ids": f.ids.iter().map(|i| i.to_string()).collect::<Vec<_>>()}}),
            W::Not(a) => json!({ "not": a.to_json() }),
            W::Bin(op, a, b) => json!({"op": op_name(*op), "a": a.to_json(), "b": b.to_json()}),
        }
    }
    pub fn from_json(v: &Value) -> Option<W> {
        if let Some(b) = v.get("const") {
            return Some(W::Const(b.as_bool()?));
        }
        if let Some(l) = v.get("cube") {
            return Some(W::Cube(lits_from(l)?));
        }
        if let Some(l) = v.get("clause") {
            return Some(W::Clause(lits_from(l)?));
        }
        if let Some(f) = v.get("fun") {
            let ids: Vec<usize> = f["ids"].as_array()?.iter().map(|x| x.as_str()?.parse().ok()).collect::<Option<_>>()?;
            let tt = TT::from_hex(f["tt"].as_str()?)?;
            if tt.k != ids.len() {
                return None;
            }
            return Some(W::Small(Fun::new(tt, ids)));
        }
        if let Some(a) = v.get("not") {
            return Some(W::Not(Box::new(W::from_json(a)?)));
        }
        if let Some(op) = v.get("op") {
            return Some(W::Bin(op_code(op.as_str()?), Box::new(W::from_json(&v["a"])?), Box::new(W::from_json(&v["b"])?)));
        }
        None
    }
    pub fn to_ref(&self, m: &mut Ref) -> Id {
        match self {
            W::Const(b) => m.konst(*b),
            W::Cube(l) => {
                let mut r = refbdd::T;
                let mut s: Vec<(usize, bool)> = l.clone();
                s.sort();
                for (v, p) in s.iter().rev() {
                    let x = m.lit(*v, *p);
                    r = m.and(x, r);
                }
                r
            }
            W::Clause(l) => {
                let mut r = refbdd::F;
                let mut s: Vec<(usize, bool)> = l.clone();
                s.sort();
                for (v, p) in s.iter().rev() {
                    let x = m.lit(*v, *p);
                    r = m.or(x, r);
                }
                r
            }
            W::Small(f) => {
                let p = f.plain();
                m.read_usize(&p)
            }
            W::Not(a) => {
                let x = a.to_ref(m);
                m.not(x)
            }
            W::Bin(op, a, b) => {
                let x = a.to_ref(m);
                let y = b.to_ref(m);
                m.apply(*op, x, y)
            }
        }
    }
    /// cut the expression back until its reference diagram has at most `cap` paths
    pub fn fit(self, m: &mut Ref, cap: u64) -> W {
        let mut w = self;
        loop {
            let id = w.to_ref(m);
            if m.paths(id) <= cap {
                return w;
            }
            w = match w {
                W::Bin(_, a, _) => *a,
                W::Not(a) => *a,
                W::Cube(l) => W::Cube(l[..l.len() / 2].to_vec()),
                W::Clause(l) => W::Clause(l[..l.len() / 2].to_vec()),
                other => return other,
            };
        }
    }
}

/// The variable ids of a wide case, ascending. Sizes sit around machine-word widths and powers of
/// two, ids start at zero or just below 2^8, 2^16, 2^31, 2^32, 2^63 or the top of usize.
pub fn gen_layout(t: &mut Tape, thorough: bool) -> Vec<usize> {
    const SIZES: [usize; 20] = [6, 12, 24, 31, 32, 33, 40, 63, 64, 65, 66, 70, 100, 127, 128, 129, 200, 255, 256, 257];
    let mut n = SIZES[t.choose(SIZES.len())];
    if thorough && t.chance(40) {
        n = 258 + t.choose(600);
    }
    let stride = [1usize, 1, 1, 2, 7][t.choose(5)];
    let span = n * stride + 8;
    let base = match t.choose(10) {
        0 | 1 | 2 => 0usize,
        3 => 1,
        4 => 250usize.saturating_sub(n / 2),
        5 => 65536usize.saturating_sub(span / 2),
        6 => (1usize << 31).saturating_sub(span / 2),
        7 => (1usize << 32).saturating_sub(span / 2),
        8 => (1usize << 63).saturating_sub(span / 2),
        _ => usize::MAX - span,
    };
    (0..n).map(|i| base + i * stride).collect()
}

fn gen_lits(t: &mut Tape, ids: &[usize]) -> Vec<(usize, bool)> {
    let n = ids.len();
    let len = match t.choose(6) {
        0 => 1 + t.choose(5.min(n)),
        1 => n,
        2 => n.saturating_sub(1 + t.choose(3)).max(1),
        3 => [31usize, 32, 33, 63, 64, 65, 66, 127, 128, 129, 255, 256, 257][t.choose(13)].min(n),
        _ => 1 + t.choose(n),
    };
    // a window of `len` consecutive positions, from the start, the end, or anywhere
    let start = match t.choose(3) {
        0 => 0,
        1 => n - len,
        _ => t.choose(n - len + 1),
    };
    let pol = t.choose(4);
    (0..len)
        .map(|i| {
            let p = match pol {
                0 => true,
                1 => false,
                2 => i % 2 == 0,
                _ => t.flag(),
            };
            (ids[start + i], p)
        })
        .collect()
}

fn gen_small(t: &mut Tape, ids: &[usize]) -> Fun {
    let k = 1 + t.choose(4.min(ids.len()));
    let mut pos: Vec<usize> = Vec::new();
    for _ in 0..k {
        // prefer the ends and the word boundaries
        let mut p = match t.choose(4) {
            0 => t.choose(3.min(ids.len())),
            1 => ids.len() - 1 - t.choose(3.min(ids.len())),
            2 => [31usize, 32, 63, 64, 65, 127, 128, 255, 256][t.choose(9)].min(ids.len() - 1),
            _ => t.choose(ids.len()),
        };
        let mut guard = 0;
        while pos.contains(&p) && guard < ids.len() {
            p = (p + 1) % ids.len();
            guard += 1;
        }
        if !pos.contains(&p) {
            pos.push(p);
        }
    }
    let k = pos.len();
    let mut tt = TT::konst(k, false);
    for i in 0..(1usize << k) {
        if t.flag() {
            tt.set(i, true);
        }
    }
    Fun::new(tt, pos.iter().map(|p| ids[*p]).collect())
}

pub fn gen_w(t: &mut Tape, ids: &[usize], depth: usize) -> W {
    let kinds = if depth == 0 { 5 } else { 9 };
    match t.choose(kinds) {
        0 | 1 => W::Cube(gen_lits(t, ids)),
        2 => W::Clause(gen_lits(t, ids)),
        3 => W::Small(gen_small(t, ids)),
        4 => {
            if t.chance(20) {
                W::Const(t.flag())
            } else {
                W::Cube(gen_lits(t, ids))
            }
        }
        5 => W::Not(Box::new(gen_w(t, ids, depth - 1))),
        _ => {
            let op = [refbdd::OP_AND, refbdd::OP_OR, refbdd::OP_XOR, refbdd::OP_IFF, refbdd::OP_IMP][t.choose(5)];
            let a = gen_w(t, ids, depth - 1);
            let b = gen_w(t, ids, depth - 1);
            W::Bin(op, Box::new(a), Box::new(b))
        }
    }
}

/// The operand handed to the implementation: built from the reference diagram through
/// `mk_choice` only (or as plain values / in another environment, per the operand mode).
pub fn operand(env: &BDDEnv<usize>, m: &Ref, id: Id) -> Rc<BDD<usize>> {
    let p = m.to_plain(id);
    match fun::operands() {
        Operands::Interned => plain::copy_into(env, &p),
        Operands::Plain => p,
        Operands::OtherEnv => {
            let other: BDDEnv<usize> = BDDEnv::new();
            plain::copy_into(&other, &p)
        }
    }
}

thread_local! {
    static PREFILL: std::cell::Cell<usize> = const { std::cell::Cell::new(0) };
}

/// The environment of a wide check. With a prefill of n it already holds n unrelated nodes
/// (single-variable diagrams on ids from 2^40 on): a node table that has grown, rehashed or -
/// in a broken variant - "filled up" must behave like a new one.
pub fn new_env() -> BDDEnv<usize> {
    let env: BDDEnv<usize> = BDDEnv::new();
    let n = PREFILL.with(|p| p.get());
    for i in 0..n {
        let _ = env.var((1usize << 40) + i);
    }
    env
}

pub fn with_prefill<F: FnOnce() -> Check>(n: usize, f: F) -> Check {
    let old = PREFILL.with(|p| p.replace(n));
    let r = f();
    PREFILL.with(|p| p.set(old));
    r.map_err(|mut v| {
        if n > 0 && !v.message.starts_with("SKIP:") {
            v.case["prefill"] = json!(n);
            v.message = format!("(environment already holding {} other nodes) {}", n, v.message);
        }
        v
    })
}

pub fn gen_prefill(t: &mut Tape, st: &mut Stats) -> usize {
    if t.chance(8) {
        st.class("environment pre-filled with 2^17+ nodes");
        (1usize << 17) + 9000 + t.choose(5000)
    } else if t.chance(16) {
        st.class("environment pre-filled with ~2^16 nodes");
        65530 + t.choose(12)
    } else {
        0
    }
}

fn std_hash<T: Hash>(x: &T) -> u64 {
    let mut h = std::collections::hash_map::DefaultHasher::new();
    x.hash(&mut h);
    h.finish()
}

fn witness(m: &mut Ref, got: Id, want: Id) -> String {
    let d = m.xor(got, want);
    match m.any_sat(d) {
        Some(a) => {
            let tr: Vec<usize> = a.iter().filter(|(_, b)| *b).map(|(v, _)| *v).collect();
            let fa: Vec<usize> = a.iter().filter(|(_, b)| !*b).map(|(v, _)| *v).collect();
            let asg = |v: usize| tr.contains(&v);
            format!(
                "under the assignment with true = {:?}, false = {:?} (others false) the result is {} but the reference is {}",
                tr,
                fa,
                m.eval(got, &asg),
                m.eval(want, &asg)
            )
        }
        None => "no distinguishing assignment".to_string(),
    }
}

/// Compare a result of the implementation with the reference function `want`.
/// `canon`: also require the canonical shape (ordered, reduced, structurally identical to the
/// reference diagram, same hash) - C02's claim.
pub fn expect(m: &mut Ref, what: &str, r: &Rc<BDD<usize>>, want: Id, canon: bool, cj: &Value) -> Check {
    let got = m.read_usize(r);
    if got != want {
        return Err(Violation::new(format!("{}: {}", what, witness(m, got, want)), cj.clone()));
    }
    if canon {
        let sh = plain::invariants(r);
        if !sh.ordered || !sh.reduced {
            return Err(Violation::new(
                format!("{}: the result is not ordered and reduced ({})", what, sh.problem.unwrap_or_default()),
                cj.clone(),
            ));
        }
        let p = m.to_plain(want);
        if r.as_ref() != p.as_ref() {
            return Err(Violation::new(format!("{}: the result denotes the reference function but does not compare equal to its canonical diagram", what), cj.clone()));
        }
        if std_hash(r.as_ref()) != std_hash(p.as_ref()) || r.get_hash() != p.get_hash() {
            return Err(Violation::new(format!("{}: equal diagrams hash differently", what), cj.clone()));
        }
    }
    Ok(())
}

fn ids_json(v: &[usize]) -> Value {
    Value::Array(v.iter().map(|i| json!(i.to_string())).collect())
}
fn ids_from(v: &Value) -> Option<Vec<usize>> {
    v.as_array()?.iter().map(|x| x.as_str()?.parse().ok()).collect()
}

// ------------------------------------------------------------------------------------------------
// connectives (C03; with canon = true also C02)

pub fn check_conn(a: &W, b: &W, c: &W, canon: bool) -> Check {
    let cj = json!({"kind": "wide-conn", "a": a.to_json(), "b": b.to_json(), "c": c.to_json(), "canon": canon});
    guarded(&cj.clone(), || {
        let mut m = Ref::new();
        let (ia, ib, ic) = (a.to_ref(&mut m), b.to_ref(&mut m), c.to_ref(&mut m));
        let env = new_env();
        let (ha, hb, hc) = (operand(&env, &m, ia), operand(&env, &m, ib), operand(&env, &m, ic));
        let snap = (plain::deep_clone(&ha), plain::deep_clone(&hb));
        let x = |h: &Rc<BDD<usize>>| Rc::clone(h);
        let wants: Vec<(&str, Rc<BDD<usize>>, Id)> = vec![
            ("and(a,b)", env.and(x(&ha), x(&hb)), m.and(ia, ib)),
            ("or(a,b)", env.or(x(&ha), x(&hb)), m.or(ia, ib)),
            ("not(a)", env.not(x(&ha)), m.not(ia)),
            ("implies(a,b)", env.implies(x(&ha), x(&hb)), m.imp(ia, ib)),
            ("eq(a,b)", env.eq(x(&ha), x(&hb)), m.iff(ia, ib)),
            ("xor(a,b)", env.xor(x(&ha), x(&hb)), m.xor(ia, ib)),
            ("nor(a,b)", env.nor(x(&ha), x(&hb)), m.apply(refbdd::OP_NOR, ia, ib)),
            ("nand(a,b)", env.nand(x(&ha), x(&hb)), m.apply(refbdd::OP_NAND, ia, ib)),
            ("and(b,a)", env.and(x(&hb), x(&ha)), m.and(ia, ib)),
            ("xor(b,a)", env.xor(x(&hb), x(&ha)), m.xor(ia, ib)),
            ("ite(a,b,c)", env.ite(x(&ha), x(&hb), x(&hc)), m.ite(ia, ib, ic)),
            ("ite(c,a,b)", env.ite(x(&hc), x(&ha), x(&hb)), m.ite(ic, ia, ib)),
        ];
        for (what, r, want) in &wants {
            expect(&mut m, what, r, *want, canon, &cj)?;
        }
        if canon {
            // other routes to the same functions must give equal diagrams
            let dm = env.not(env.or(env.not(x(&ha)), env.not(x(&hb))));
            if dm != wants[0].1 || dm.get_hash() != wants[0].1.get_hash() {
                return Err(Violation::new("not(or(not a, not b)) and and(a,b) denote the same function but compare / hash differently", cj.clone()));
            }
            let x2 = env.not(env.eq(x(&ha), x(&hb)));
            if x2 != wants[5].1 {
                return Err(Violation::new("not(eq(a,b)) and xor(a,b) denote the same function but compare differently", cj.clone()));
            }
        }
        // var / const at the ids of the case
        for v in m.support(ia).iter().take(3).chain(m.support(ib).iter().rev().take(3)) {
            let hv = env.var(*v);
            let want = m.var(*v);
            expect(&mut m, &format!("var({})", v), &hv, want, canon, &cj)?;
        }
        if ha.as_ref() != snap.0.as_ref() || hb.as_ref() != snap.1.as_ref() {
            return Err(Violation::new("a connective changed one of its operands", cj.clone()));
        }
        Ok(())
    })
}

pub fn gen_conn(t: &mut Tape, thorough: bool, st: &mut Stats) -> (W, W, W) {
    let ids = gen_layout(t, thorough);
    let mut m = Ref::new();
    let a = gen_w(t, &ids, 2).fit(&mut m, PATH_CAP);
    let b = gen_w(t, &ids, 2).fit(&mut m, PATH_CAP);
    let c = gen_w(t, &ids, 1).fit(&mut m, 64);
    // keep the product of the operands' path counts bounded (cost of the path-recursive apply)
    let (ia, ib) = (a.to_ref(&mut m), b.to_ref(&mut m));
    let (a, b) = if m.paths(ia).saturating_mul(m.paths(ib)) > 60_000 {
        let b2 = b.fit(&mut m, 30);
        (a, b2)
    } else {
        (a, b)
    };
    classify(st, &mut m, &[&a, &b], &ids);
    (a, b, c)
}

fn classify(st: &mut Stats, m: &mut Ref, ws: &[&W], ids: &[usize]) {
    let mut sup = BTreeSet::new();
    let mut paths = 0u64;
    for w in ws {
        let id = w.to_ref(m);
        sup.extend(m.support(id));
        paths = paths.max(m.paths(id));
    }
    let n = sup.len();
    st.class(match n {
        0..=16 => "support<=16",
        17..=32 => "support 17..32",
        33..=64 => "support 33..64",
        65..=128 => "support 65..128",
        129..=256 => "support 129..256",
        _ => "support>256",
    });
    if ids.last().copied().unwrap_or(0) >= (1usize << 32) {
        st.class("ids beyond 2^32");
    } else if ids.last().copied().unwrap_or(0) >= 256 {
        st.class("ids beyond 2^8");
    }
    st.class(match paths {
        0..=8 => "paths<=8",
        9..=100 => "paths 9..100",
        _ => "paths>100",
    });
}

fn nontrivial(st: &mut Stats, m: &mut Ref, ws: &[&W], cj: &Value) {
    let mut n = 0;
    for w in ws {
        let id = w.to_ref(m);
        n = n.max(m.support(id).len());
    }
    if n > 16 {
        if st.nontrivial(fnv_str(&cj.to_string())) {
            st.nt_sample(|| cj.clone());
        }
    } else if st.want_sample() {
        st.sample(cj.clone());
    }
}

pub const RULE: &str = "wide cases = functions over 6..257 (thorough: ..857) variables with ids starting at 0 or straddling 2^8, 2^16, 2^31, 2^32, 2^63 or the top of usize: cubes / clauses over long runs (lengths around 32, 64, 128, 256), arbitrary functions of <= 4 variables at the ends and around positions 32/64/128/256, and up to two levels of and/or/xor/iff/imp/not on top, cut back until the reference diagram has <= 1500 paths (rsbdd recurses over paths). Oracle: the harness's own node-based ROBDD package (refbdd.rs, validated against truth tables on all 3-variable functions); the implementation's result is read back bottom-up as ite(var, hi, lo) and must be the same reference node. Non-trivial = support of more than 16 variables (beyond every truth-table stage).";

pub fn stage_conn(ctx: &mut Ctx, name: &str, canon: bool, cases: u64) -> Result<(), Violation> {
    let thorough = ctx.tier == Tier::Thorough;
    let r = par_random(ctx, name, cases, 600, |tape, st| tape_conn(tape, thorough, canon, st));
    ctx.stage(name, false, r)
}

/// one case of `stage_conn` decoded from a byte tape (shared with the libFuzzer target `wide`)
pub fn tape_conn(tape: &[u8], thorough: bool, canon: bool, st: &mut Stats) -> Check {
        let mut t = Tape::new(tape);
        let (a, b, c) = gen_conn(&mut t, thorough, st);
        let mode = fun::gen_operands(&mut t);
        st.eval();
        st.class(&format!("operands:{}", mode.name()));
        let cj = json!({"kind": "wide-conn", "a": a.to_json(), "b": b.to_json(), "c": c.to_json(), "canon": canon});
        let mut m = Ref::new();
        nontrivial(st, &mut m, &[&a, &b], &cj);
        {
            let pf = gen_prefill(&mut t, st);
            with_prefill(pf, || fun::with_operands(mode, || check_conn(&a, &b, &c, canon)))
        }
}

// ------------------------------------------------------------------------------------------------
// quantifiers (C04)

pub fn check_quant(f: &W, vars: &[usize]) -> Check {
    let cj = json!({"kind": "wide-quant", "f": f.to_json(), "vars": ids_json(vars)});
    guarded(&cj.clone(), || {
        let mut m = Ref::new();
        let fi = f.to_ref(&mut m);
        let env = new_env();
        let hf = operand(&env, &m, fi);
        let vs: BTreeSet<usize> = vars.iter().copied().collect();
        let want_ex = m.quant(true, &vs, fi);
        let want_all = m.quant(false, &vs, fi);
        let rex = env.exists(vars.to_vec(), Rc::clone(&hf));
        let rall = env.all(vars.to_vec(), Rc::clone(&hf));
        expect(&mut m, &format!("exists({} variables, f)", vars.len()), &rex, want_ex, false, &cj)?;
        expect(&mut m, &format!("all({} variables, f)", vars.len()), &rall, want_all, false, &cj)?;
        for (nm, r) in [("exists", &rex), ("all", &rall)] {
            let sup = plain::support_syms(r);
            if let Some(v) = vars.iter().find(|v| sup.contains(v)) {
                return Err(Violation::new(format!("{}(V, f): the result still tests quantified variable {}", nm, v), cj.clone()));
            }
        }
        let mut rev = vars.to_vec();
        rev.reverse();
        let mut dd: Vec<usize> = vs.iter().copied().collect();
        dd.extend(vars.iter().copied());
        for (tag, l) in [("reversed", &rev), ("sorted, then repeated", &dd)] {
            if env.exists(l.clone(), Rc::clone(&hf)) != rex {
                return Err(Violation::new(format!("exists over the {} list differs", tag), cj.clone()));
            }
            if env.all(l.clone(), Rc::clone(&hf)) != rall {
                return Err(Violation::new(format!("all over the {} list differs", tag), cj.clone()));
            }
        }
        let fsup = m.support(fi);
        if vars.iter().all(|v| !fsup.contains(v)) && (rex != hf || rall != hf) {
            return Err(Violation::new("quantifying variables f does not depend on changed f", cj.clone()));
        }
        Ok(())
    })
}

pub fn stage_quant(ctx: &mut Ctx, name: &str, cases: u64) -> Result<(), Violation> {
    let thorough = ctx.tier == Tier::Thorough;
    let r = par_random(ctx, name, cases, 600, |tape, st| tape_quant(tape, thorough, st));
    ctx.stage(name, false, r)
}

/// one case of `stage_quant` decoded from a byte tape (shared with the libFuzzer target `wide`)
pub fn tape_quant(tape: &[u8], thorough: bool, st: &mut Stats) -> Check {
        let mut t = Tape::new(tape);
        let ids = gen_layout(&mut t, thorough);
        let mut m = Ref::new();
        let f = gen_w(&mut t, &ids, 2).fit(&mut m, PATH_CAP);
        // V: a run, a scattering, or nearly everything; sometimes with ids outside the layout
        let n = ids.len();
        let mut vars: Vec<usize> = match t.choose(5) {
            0 => (0..1 + t.choose(4)).map(|_| ids[t.choose(n)]).collect(),
            1 => ids.iter().copied().filter(|_| t.flag()).collect(),
            2 => {
                let len = 1 + t.choose(n);
                let s = t.choose(n - len + 1);
                ids[s..s + len].to_vec()
            }
            3 => ids.iter().copied().skip(t.choose(3)).step_by(2).collect(),
            _ => {
                let keep = t.choose(n);
                ids.iter().copied().enumerate().filter(|(i, _)| *i != keep).map(|(_, v)| v).collect()
            }
        };
        if t.flag() {
            vars.reverse();
        }
        if t.chance(60) && !vars.is_empty() {
            let k = t.choose(vars.len());
            let v = vars[k];
            vars.push(v);
        }
        if t.chance(40) {
            vars.push(ids[n - 1].saturating_add(1));
        }
        if t.chance(40) {
            vars.insert(0, ids[0].saturating_sub(1));
        }
        let mode = fun::gen_operands(&mut t);
        st.eval();
        classify(st, &mut m, &[&f], &ids);
        st.class(match vars.len() {
            0..=4 => "V<=4",
            5..=64 => "V 5..64",
            _ => "V>64",
        });
        let cj = json!({"kind": "wide-quant", "f": f.to_json(), "vars": ids_json(&vars)});
        nontrivial(st, &mut m, &[&f], &cj);
        {
            let pf = gen_prefill(&mut t, st);
            with_prefill(pf, || fun::with_operands(mode, || check_quant(&f, &vars)))
        }
}

// ------------------------------------------------------------------------------------------------
// counting (C05)

pub fn check_count(a: &[W], b: &[W], n: i64) -> Check {
    let cj = json!({"kind": "wide-count", "a": a.iter().map(|w| w.to_json()).collect::<Vec<_>>(), "b": b.iter().map(|w| w.to_json()).collect::<Vec<_>>(), "n": n.to_string()});
    guarded(&cj.clone(), || {
        let mut m = Ref::new();
        let ia: Vec<Id> = a.iter().map(|w| w.to_ref(&mut m)).collect();
        let ib: Vec<Id> = b.iter().map(|w| w.to_ref(&mut m)).collect();
        let env = new_env();
        let ha: Vec<Rc<BDD<usize>>> = ia.iter().map(|i| operand(&env, &m, *i)).collect();
        let hb: Vec<Rc<BDD<usize>>> = ib.iter().map(|i| operand(&env, &m, *i)).collect();
        let nn = n as i128;
        let r = env.aln(&ha, n);
        let w = m.count_cmp(&ia, |c| c >= nn);
        expect(&mut m, &format!("aln({} operands, {})", a.len(), n), &r, w, false, &cj)?;
        let r = env.amn(&ha, n);
        let w = m.count_cmp(&ia, |c| c <= nn);
        expect(&mut m, &format!("amn({} operands, {})", a.len(), n), &r, w, false, &cj)?;
        let r = env.exn(&ha, n);
        let w = m.count_cmp(&ia, |c| c == nn);
        expect(&mut m, &format!("exn({} operands, {})", a.len(), n), &r, w, false, &cj)?;
        if a.len() + b.len() <= 14 {
            let r = env.count_leq(&ha, &hb);
            let w = m.count2_cmp(&ia, &ib, |x, y| x <= y);
            expect(&mut m, "count_leq(a, b)", &r, w, false, &cj)?;
            let r = env.count_lt(&ha, &hb);
            let w = m.count2_cmp(&ia, &ib, |x, y| x < y);
            expect(&mut m, "count_lt(a, b)", &r, w, false, &cj)?;
            let r = env.count_geq(&ha, &hb);
            let w = m.count2_cmp(&ia, &ib, |x, y| x >= y);
            expect(&mut m, "count_geq(a, b)", &r, w, false, &cj)?;
            let r = env.count_gt(&ha, &hb);
            let w = m.count2_cmp(&ia, &ib, |x, y| x > y);
            expect(&mut m, "count_gt(a, b)", &r, w, false, &cj)?;
            let r = env.count_eq(&ha, &hb);
            let w = m.count2_cmp(&ia, &ib, |x, y| x == y);
            expect(&mut m, "count_eq(a, b)", &r, w, false, &cj)?;
        }
        Ok(())
    })
}

fn gen_count_operand(t: &mut Tape, ids: &[usize]) -> W {
    match t.choose(8) {
        0 => W::Small(gen_small(t, ids)),
        1 => {
            let l = gen_lits(t, ids);
            W::Cube(l[..l.len().min(1 + t.choose(3))].to_vec())
        }
        2 => {
            let l = gen_lits(t, ids);
            W::Clause(l[..l.len().min(1 + t.choose(3))].to_vec())
        }
        _ => W::Cube(vec![(ids[t.choose(ids.len())], t.chance(200))]),
    }
}

pub fn stage_count(ctx: &mut Ctx, name: &str, cases: u64) -> Result<(), Violation> {
    let thorough = ctx.tier == Tier::Thorough;
    let r = par_random(ctx, name, cases, 400, |tape, st| tape_count(tape, thorough, st));
    ctx.stage(name, false, r)
}

/// one case of `stage_count` decoded from a byte tape (shared with the libFuzzer target `wide`)
pub fn tape_count(tape: &[u8], thorough: bool, st: &mut Stats) -> Check {
        let mut t = Tape::new(tape);
        let ids = gen_layout(&mut t, thorough);
        // long lists need many distinct variables to stay non-constant; short layouts are fine too
        let la = match t.choose(4) {
            0 => t.choose(5),
            1 => 7 + t.choose(3),
            _ => 5 + t.choose(if thorough { 15 } else { 12 } - 4),
        };
        let lb = t.choose(8);
        let mut a: Vec<W> = (0..la).map(|_| gen_count_operand(&mut t, &ids)).collect();
        let b: Vec<W> = (0..lb).map(|_| gen_count_operand(&mut t, &ids)).collect();
        if t.chance(50) && !a.is_empty() {
            let k = t.choose(a.len());
            let w = a[k].clone();
            a.push(w);
        }
        let la = a.len() as i64;
        let n = match t.choose(10) {
            0 => -1,
            1 => 0,
            2 => 1,
            3 => la - 1,
            4 => la,
            5 => la + 1,
            6 => i64::MAX,
            7 => i64::MIN,
            _ => t.choose((la + 2) as usize) as i64,
        };
        st.eval();
        let mut m = Ref::new();
        st.class(match a.len() {
            0..=6 => "list<=6",
            7..=8 => "list 7..8",
            9..=12 => "list 9..12",
            _ => "list>12",
        });
        if a.len() + b.len() <= 14 {
            st.class("list-vs-list compared");
        }
        let cj = json!({"kind": "wide-count", "a": a.iter().map(|w| w.to_json()).collect::<Vec<_>>(), "b": b.iter().map(|w| w.to_json()).collect::<Vec<_>>(), "n": n.to_string()});
        let all: Vec<&W> = a.iter().chain(b.iter()).collect();
        classify(st, &mut m, &all, &ids);
        if a.len() > 6 {
            if st.nontrivial(fnv_str(&cj.to_string())) {
                st.nt_sample(|| cj.clone());
            }
        } else if st.want_sample() {
            st.sample(cj.clone());
        }
        let mode = fun::gen_operands(&mut t);
        {
            let pf = gen_prefill(&mut t, st);
            with_prefill(pf, || fun::with_operands(mode, || check_count(&a, &b, n)))
        }
}

// ------------------------------------------------------------------------------------------------
// model / infer (C07)

/// Some(literals) if `r` is a single conjunction of literals (one path to True, every other edge to False)
pub fn as_cube(r: &Rc<BDD<usize>>) -> Option<Vec<(usize, bool)>> {
    let mut out = Vec::new();
    let mut cur = Rc::clone(r);
    loop {
        let next = match cur.as_ref() {
            BDD::True => return Some(out),
            BDD::False => return None,
            BDD::Choice(t, v, f) => {
                if f.is_false() && !t.is_false() {
                    out.push((*v, true));
                    Rc::clone(t)
                } else if t.is_false() && !f.is_false() {
                    out.push((*v, false));
                    Rc::clone(f)
                } else {
                    return None;
                }
            }
        };
        cur = next;
    }
}

pub fn check_model(f: &W, probes: &[usize]) -> Check {
    let cj = json!({"kind": "wide-model", "f": f.to_json(), "probes": ids_json(probes)});
    guarded(&cj.clone(), || {
        let mut m = Ref::new();
        let fi = f.to_ref(&mut m);
        let env = new_env();
        let hf = operand(&env, &m, fi);
        let r = env.model(Rc::clone(&hf));
        if fi == refbdd::F {
            if !r.is_false() {
                return Err(Violation::new("model of an unsatisfiable function is not the false leaf", cj.clone()));
            }
            return Ok(());
        }
        if r.is_false() {
            return Err(Violation::new("model of a satisfiable function is the false leaf", cj.clone()));
        }
        let cube = as_cube(&r).ok_or_else(|| Violation::new("model is not a single conjunction of literals", cj.clone()))?;
        let sh = plain::invariants(&r);
        if !sh.ordered || !sh.reduced {
            return Err(Violation::new(format!("model is not an ordered, reduced diagram ({})", sh.problem.unwrap_or_default()), cj.clone()));
        }
        let sup = m.support(fi);
        if let Some((v, _)) = cube.iter().find(|(v, _)| !sup.contains(v)) {
            return Err(Violation::new(format!("model mentions variable {} on which f does not depend", v), cj.clone()));
        }
        let ri = m.read_usize(&r);
        if !m.leq(ri, fi) {
            let nf = m.not(fi);
            let bad = m.and(ri, nf);
            let a = m.any_sat(bad).unwrap_or_default();
            let tr: Vec<usize> = a.iter().filter(|(_, b)| *b).map(|(v, _)| *v).collect();
            return Err(Violation::new(
                format!("an assignment satisfying the model ({} literals) does not satisfy f: true variables {:?}, all others false", cube.len(), tr),
                cj.clone(),
            ));
        }
        for v in probes {
            let forced = cube.iter().any(|(x, p)| x == v && *p);
            let ans = env.infer(Rc::clone(&r), *v);
            if (ans == (true, true)) != forced {
                return Err(Violation::new(
                    format!("infer(model, {}) = {:?} but the model {} variable {} to be true", v, ans, if forced { "forces" } else { "does not force" }, v),
                    cj.clone(),
                ));
            }
        }
        Ok(())
    })
}

pub fn stage_model(ctx: &mut Ctx, name: &str, cases: u64) -> Result<(), Violation> {
    let thorough = ctx.tier == Tier::Thorough;
    let r = par_random(ctx, name, cases, 600, |tape, st| tape_model(tape, thorough, st));
    ctx.stage(name, false, r)
}

/// one case of `stage_model` decoded from a byte tape (shared with the libFuzzer target `wide`)
pub fn tape_model(tape: &[u8], thorough: bool, st: &mut Stats) -> Check {
        let mut t = Tape::new(tape);
        let ids = gen_layout(&mut t, thorough);
        let mut m = Ref::new();
        let f = gen_w(&mut t, &ids, 2).fit(&mut m, PATH_CAP);
        let n = ids.len();
        let mut probes: Vec<usize> = vec![ids[0], ids[n - 1], ids[n / 2], ids[n - 1].saturating_add(1)];
        for p in [31usize, 32, 63, 64, 65, 127, 128, 255, 256] {
            if p < n {
                probes.push(ids[p]);
            }
        }
        for _ in 0..4 {
            probes.push(ids[t.choose(n)]);
        }
        st.eval();
        classify(st, &mut m, &[&f], &ids);
        let cj = json!({"kind": "wide-model", "f": f.to_json(), "probes": ids_json(&probes)});
        nontrivial(st, &mut m, &[&f], &cj);
        let mode = fun::gen_operands(&mut t);
        {
            let pf = gen_prefill(&mut t, st);
            with_prefill(pf, || fun::with_operands(mode, || check_model(&f, &probes)))
        }
}

// ------------------------------------------------------------------------------------------------
// retain choices (C20)

pub fn check_retain(f: &W) -> Check {
    let cj = json!({"kind": "wide-retain", "f": f.to_json()});
    guarded(&cj.clone(), || {
        let mut m = Ref::new();
        let fi = f.to_ref(&mut m);
        let env = new_env();
        let hf = operand(&env, &m, fi);
        let sup = m.support(fi);
        for (name, filt) in [("True", TruthTableEntry::True), ("False", TruthTableEntry::False), ("Any", TruthTableEntry::Any)] {
            let r = env.retain_choice_bottom_up(Rc::clone(&hf), filt);
            let ri = m.read_usize(&r);
            let ok = match filt {
                TruthTableEntry::True => m.leq(fi, ri),
                TruthTableEntry::False => m.leq(ri, fi),
                TruthTableEntry::Any => ri == fi,
            };
            if !ok {
                let w = match filt {
                    TruthTableEntry::True => {
                        let nr = m.not(ri);
                        m.and(fi, nr)
                    }
                    TruthTableEntry::False => {
                        let nf = m.not(fi);
                        m.and(ri, nf)
                    }
                    TruthTableEntry::Any => m.xor(ri, fi),
                };
                let a = m.any_sat(w).unwrap_or_default();
                let tr: Vec<usize> = a.iter().filter(|(_, b)| *b).map(|(v, _)| *v).collect();
                return Err(Violation::new(
                    format!("retain(filter {}) is not sound: under true = {:?} (others false) f is {} and the result is {}", name, tr, m.eval(fi, &|v| tr.contains(&v)), m.eval(ri, &|v| tr.contains(&v))),
                    cj.clone(),
                ));
            }
            let sh = plain::invariants(&r);
            if !sh.ordered || !sh.reduced {
                return Err(Violation::new(format!("retain(filter {}): result not ordered and reduced ({})", name, sh.problem.unwrap_or_default()), cj.clone()));
            }
            if let Some(v) = plain::support_syms(&r).iter().find(|v| !sup.contains(v)) {
                return Err(Violation::new(format!("retain(filter {}): result mentions {} on which f does not depend", name, v), cj.clone()));
            }
        }
        Ok(())
    })
}

pub fn stage_retain(ctx: &mut Ctx, name: &str, cases: u64) -> Result<(), Violation> {
    let thorough = ctx.tier == Tier::Thorough;
    let r = par_random(ctx, name, cases, 600, |tape, st| tape_retain(tape, thorough, st));
    ctx.stage(name, false, r)
}

/// one case of `stage_retain` decoded from a byte tape (shared with the libFuzzer target `wide`)
pub fn tape_retain(tape: &[u8], thorough: bool, st: &mut Stats) -> Check {
        let mut t = Tape::new(tape);
        let ids = gen_layout(&mut t, thorough);
        let mut m = Ref::new();
        let f = gen_w(&mut t, &ids, 2).fit(&mut m, PATH_CAP);
        st.eval();
        classify(st, &mut m, &[&f], &ids);
        let cj = json!({"kind": "wide-retain", "f": f.to_json()});
        nontrivial(st, &mut m, &[&f], &cj);
        let mode = fun::gen_operands(&mut t);
        {
            let pf = gen_prefill(&mut t, st);
            with_prefill(pf, || fun::with_operands(mode, || check_retain(&f)))
        }
}

// ------------------------------------------------------------------------------------------------

/// Replay of a wide case (Some(check) if `case` is one).
pub fn replay(case: &Value) -> Option<Check> {
    let kind = case["kind"].as_str()?;
    if !kind.starts_with("wide-") {
        return None;
    }
    let mode = fun::case_operands(case);
    let pf = case["prefill"].as_u64().unwrap_or(0) as usize;
    Some(with_prefill(pf, || replay_kind(kind, mode, case)))
}

fn replay_kind(kind: &str, mode: Operands, case: &Value) -> Check {
    let bad = || Err(Violation::new("unreadable wide replay case", case.clone()));
    match kind {
        "wide-conn" => match (W::from_json(&case["a"]), W::from_json(&case["b"]), W::from_json(&case["c"])) {
            (Some(a), Some(b), Some(c)) => fun::with_operands(mode, || check_conn(&a, &b, &c, case["canon"].as_bool().unwrap_or(false))),
            _ => bad(),
        },
        "wide-quant" => match (W::from_json(&case["f"]), ids_from(&case["vars"])) {
            (Some(f), Some(v)) => fun::with_operands(mode, || check_quant(&f, &v)),
            _ => bad(),
        },
        "wide-count" => {
            let a: Option<Vec<W>> = case["a"].as_array().and_then(|l| l.iter().map(W::from_json).collect());
            let b: Option<Vec<W>> = case["b"].as_array().and_then(|l| l.iter().map(W::from_json).collect());
            let n = case["n"].as_str().and_then(|s| s.parse::<i64>().ok());
            match (a, b, n) {
                (Some(a), Some(b), Some(n)) => fun::with_operands(mode, || check_count(&a, &b, n)),
                _ => bad(),
            }
        }
        "wide-model" => match (W::from_json(&case["f"]), ids_from(&case["probes"])) {
            (Some(f), Some(p)) => fun::with_operands(mode, || check_model(&f, &p)),
            _ => bad(),
        },
        "wide-history" => {
            let ws: Option<Vec<W>> = case["steps"].as_array().and_then(|l| l.iter().map(W::from_json).collect());
            match ws {
                Some(ws) => check_history(&ws),
                None => bad(),
            }
        }
        "wide-collision" => match (case["bits"].as_u64().and_then(collision_operands), case["which"].as_str()) {
            (Some(ops), Some(w)) => check_collision_case(&ops, w),
            _ => bad(),
        },
        "wide-retain" => match W::from_json(&case["f"]) {
            Some(f) => fun::with_operands(mode, || check_retain(&f)),
            None => bad(),
        },
        _ => bad(),
    }
}

// ------------------------------------------------------------------------------------------------
// Two different sub-diagrams with one and the same 64-bit hash inside ONE operand: an operation
// that remembers finished sub-results under (a truncation of) the hash would hand the first one's
// result to the second. The pair is constructed, not searched for: for a function g of three
// variables the variable id x with hash(var(x)) == hash(g) is solved for (see C02) and verified;
// the operands are  s ? g : var(x)  and  s ? var(x) : g  with s on top.

pub fn collision_operands(bits: u64) -> Option<Vec<W>> {
    let g = Fun::new(TT::from_bits(3, bits), vec![1001, 1002, 1005]);
    if g.tt.is_const() {
        return None;
    }
    let x = crate::props::c02::colliding_var(g.plain().get_hash())?;
    if g.ids.contains(&x) || x < 8 {
        return None;
    }
    let s = 3usize;
    let wg = W::Small(g);
    let wx = W::Cube(vec![(x, true)]);
    let pick = |hi: &W, lo: &W| {
        W::Bin(
            refbdd::OP_OR,
            Box::new(W::Bin(refbdd::OP_AND, Box::new(W::Cube(vec![(s, true)])), Box::new(hi.clone()))),
            Box::new(W::Bin(refbdd::OP_AND, Box::new(W::Cube(vec![(s, false)])), Box::new(lo.clone()))),
        )
    };
    Some(vec![pick(&wg, &wx), pick(&wx, &wg), wg, wx])
}

/// `which`: "conn" | "quant" | "model" | "retain"
pub fn stage_collisions(ctx: &mut Ctx, name: &str, which: &'static str) -> Result<(), Violation> {
    let r = par_exhaustive(ctx, 256, |i, st| {
        let ops = match collision_operands(i) {
            Some(o) => o,
            None => {
                if i != 0 && i != 255 {
                    st.class("hash-collision-not-constructible(hash function of another shape)");
                }
                return Ok(());
            }
        };
        st.eval();
        st.class("equal-hash sub-diagrams under one root");
        let cj = json!({"kind": "wide-collision", "bits": i, "which": which});
        if st.nontrivial(fnv_str(&cj.to_string())) {
            st.nt_sample(|| cj.clone());
        }
        check_collision_case(&ops, which)
    });
    ctx.stage(name, true, r)
}

/// g and var(x) have the same hash: combine each of them with the same partner z, one after the
/// other in ONE environment (a result remembered under the operands' hashes would be handed out twice)
fn same_partner_history(g: &W, x: &W) -> Check {
    let z = W::Cube(vec![(7usize, true)]);
    let mut steps = Vec::new();
    for op in [refbdd::OP_AND, refbdd::OP_OR, refbdd::OP_XOR, refbdd::OP_IFF, refbdd::OP_IMP] {
        for (l, r) in [(g, &z), (x, &z), (&z, x), (&z, g)] {
            steps.push(W::Bin(op, Box::new(l.clone()), Box::new(r.clone())));
        }
    }
    steps.push(W::Not(Box::new(g.clone())));
    steps.push(W::Not(Box::new(x.clone())));
    check_history(&steps)
}

fn check_collision_case(ops: &[W], which: &str) -> Check {
    let mut m = Ref::new();
    let xs: Vec<usize> = ops.iter().flat_map(|w| { let id = w.to_ref(&mut m); m.support(id).into_iter().collect::<Vec<_>>() }).collect();
    for f in &ops[..2] {
        match which {
            "conn" => {
                check_conn(f, &ops[2], &ops[3], false)?;
                check_conn(&ops[3], f, &ops[2], false)?;
                same_partner_history(&ops[2], &ops[3])?;
            }
            "canon" => {
                check_conn(f, &ops[2], &ops[3], true)?;
                same_partner_history(&ops[2], &ops[3])?;
            }
            "quant" => {
                for v in [3usize, 1001, 1005] {
                    check_quant(f, &[v])?;
                }
                let x = *xs.iter().max().unwrap_or(&0);
                check_quant(f, &[x])?;
                check_quant(f, &[1002, x, 1001])?;
            }
            "model" => check_model(f, &xs)?,
            "retain" => check_retain(f)?,
            _ => {}
        }
    }
    Ok(())
}

// ------------------------------------------------------------------------------------------------
// histories of wide computations in ONE environment (C13)

/// Evaluate `w` through the operations under test (var / not / and / or / xor / eq / implies).
pub fn eval_api(env: &BDDEnv<usize>, w: &W) -> Rc<BDD<usize>> {
    let lit = |v: usize, p: bool| if p { env.var(v) } else { env.not(env.var(v)) };
    match w {
        W::Const(b) => env.mk_const(*b),
        W::Cube(l) => {
            let mut s = l.clone();
            s.sort();
            s.iter().rev().fold(env.mk_const(true), |acc, (v, p)| env.and(lit(*v, *p), acc))
        }
        W::Clause(l) => {
            let mut s = l.clone();
            s.sort();
            s.iter().rev().fold(env.mk_const(false), |acc, (v, p)| env.or(lit(*v, *p), acc))
        }
        W::Small(f) => {
            // Shannon expansion through ite, bottom-up
            let mut ids = f.ids.clone();
            ids.sort();
            shannon(env, f, &ids, 0, &mut Vec::new())
        }
        W::Not(a) => env.not(eval_api(env, a)),
        W::Bin(op, a, b) => {
            let x = eval_api(env, a);
            let y = eval_api(env, b);
            match *op {
                refbdd::OP_OR => env.or(x, y),
                refbdd::OP_XOR => env.xor(x, y),
                refbdd::OP_IFF => env.eq(x, y),
                refbdd::OP_IMP => env.implies(x, y),
                _ => env.and(x, y),
            }
        }
    }
}

fn shannon(env: &BDDEnv<usize>, f: &Fun, ids: &[usize], level: usize, asg: &mut Vec<(usize, bool)>) -> Rc<BDD<usize>> {
    if level == ids.len() {
        let mut idx = 0usize;
        for (p, id) in f.ids.iter().enumerate() {
            if asg.iter().any(|(v, b)| v == id && *b) {
                idx |= 1 << p;
            }
        }
        return env.mk_const(f.tt.get(idx));
    }
    asg.push((ids[level], true));
    let hi = shannon(env, f, ids, level + 1, asg);
    asg.pop();
    asg.push((ids[level], false));
    let lo = shannon(env, f, ids, level + 1, asg);
    asg.pop();
    env.ite(env.var(ids[level]), hi, lo)
}

/// a near copy: the same expression with one literal changed deep down (or one literal fewer / more)
fn mutate(t: &mut Tape, w: &W, ids: &[usize]) -> W {
    match w {
        W::Cube(l) | W::Clause(l) if !l.is_empty() => {
            let mut s = l.clone();
            s.sort();
            let n = s.len();
            // mostly near the bottom of the diagram
            let k = if t.chance(180) { n - 1 - t.choose(3.min(n)) } else { t.choose(n) };
            match t.choose(4) {
                0 => {
                    s.truncate(k.max(1));
                }
                1 => {
                    if let Some(extra) = ids.iter().find(|i| **i > s[n - 1].0) {
                        s.push((*extra, t.flag()));
                    } else {
                        s[k].1 = !s[k].1;
                    }
                }
                _ => s[k].1 = !s[k].1,
            }
            if matches!(w, W::Cube(_)) {
                W::Cube(s)
            } else {
                W::Clause(s)
            }
        }
        W::Not(a) => W::Not(Box::new(mutate(t, a, ids))),
        W::Bin(op, a, b) => {
            if t.flag() {
                W::Bin(*op, Box::new(mutate(t, a, ids)), b.clone())
            } else {
                W::Bin(*op, a.clone(), Box::new(mutate(t, b, ids)))
            }
        }
        other => other.clone(),
    }
}

pub fn check_history(ws: &[W]) -> Check {
    let cj = json!({"kind": "wide-history", "steps": ws.iter().map(|w| w.to_json()).collect::<Vec<_>>()});
    guarded(&cj.clone(), || {
        let mut m = Ref::new();
        let env = new_env();
        let mut held: Vec<(Rc<BDD<usize>>, Id)> = Vec::new();
        for (i, w) in ws.iter().enumerate() {
            let want = w.to_ref(&mut m);
            let r = eval_api(&env, w);
            expect(&mut m, &format!("step {} (in the shared environment)", i), &r, want, true, &cj)?;
            let fresh: BDDEnv<usize> = BDDEnv::new();
            let rf = eval_api(&fresh, w);
            if rf.as_ref() != r.as_ref() {
                return Err(Violation::new(format!("step {}: the result in the shared environment differs structurally from the result in a fresh environment", i), cj.clone()));
            }
            let sh = plain::invariants(&r);
            if sh.distinct_tests != sh.distinct_allocs {
                return Err(Violation::new(
                    format!("step {}: {} structurally distinct sub-diagrams are spread over {} nodes (not shared)", i, sh.distinct_tests, sh.distinct_allocs),
                    cj.clone(),
                ));
            }
            held.push((r, want));
            // everything handed out earlier still denotes what it denoted
            for (j, (h, wj)) in held.iter().enumerate() {
                let got = m.read_usize(h);
                if got != *wj {
                    return Err(Violation::new(format!("after step {} the diagram returned by step {} denotes another function: {}", i, j, witness(&mut m, got, *wj)), cj.clone()));
                }
            }
        }
        // equal functions among the steps are one node
        for a in 0..held.len() {
            for b in 0..a {
                if held[a].1 == held[b].1 && !Rc::ptr_eq(&held[a].0, &held[b].0) && held[a].1 > 1 {
                    return Err(Violation::new(format!("steps {} and {} denote the same function but are two nodes of the environment", b, a), cj.clone()));
                }
                if held[a].1 != held[b].1 && held[a].0 == held[b].0 {
                    return Err(Violation::new(format!("steps {} and {} denote different functions but compare equal", b, a), cj.clone()));
                }
            }
        }
        Ok(())
    })
}

pub fn stage_history(ctx: &mut Ctx, name: &str, cases: u64) -> Result<(), Violation> {
    let thorough = ctx.tier == Tier::Thorough;
    let r = par_random(ctx, name, cases, 900, |tape, st| tape_history(tape, thorough, st));
    ctx.stage(name, false, r)
}

/// one case of `stage_history` decoded from a byte tape (shared with the libFuzzer target `wide`)
pub fn tape_history(tape: &[u8], thorough: bool, st: &mut Stats) -> Check {
        let mut t = Tape::new(tape);
        let ids = gen_layout(&mut t, thorough);
        let mut m = Ref::new();
        let steps = 2 + t.choose(5);
        let mut ws: Vec<W> = Vec::new();
        for i in 0..steps {
            let w = if i > 0 && t.chance(170) {
                let k = t.choose(ws.len());
                let base = ws[k].clone();
                mutate(&mut t, &base, &ids)
            } else {
                gen_w(&mut t, &ids, 1)
            };
            ws.push(w.fit(&mut m, 300));
        }
        st.eval();
        let refs: Vec<&W> = ws.iter().collect();
        classify(st, &mut m, &refs, &ids);
        let cj = json!({"kind": "wide-history", "steps": ws.iter().map(|w| w.to_json()).collect::<Vec<_>>()});
        nontrivial(st, &mut m, &refs, &cj);
        let pf = gen_prefill(&mut t, st);
        with_prefill(pf, || check_history(&ws))
}

/// Thorough tier: the libFuzzer target `wide` pinned to one kind of wide case (coverage guidance over the
/// same tape decoder and oracle; a crash is re-validated by the property's replay before it counts).
pub fn fuzz_kind(ctx: &mut Ctx, kind: &str, replay: fn(&Value) -> Check) -> Result<(), Violation> {
    if ctx.tier != Tier::Thorough {
        return Ok(());
    }
    std::env::set_var("VERIF_WIDE_KIND", kind);
    let seeds: Vec<Vec<u8>> = vec![vec![0u8; 64], (0..=255u8).collect(), (0..=255u8).rev().collect(), vec![0x80u8; 300]];
    let r = fuzz_stage(ctx, "wide", 10_000, 700, &seeds, replay);
    std::env::remove_var("VERIF_WIDE_KIND");
    ctx.stage(&format!("libfuzzer-wide-{}", kind), false, r)
}
