//! C02 — canonical form: equal iff same function; ordered; reduced; hash-consistent.

use crate::engine::*;
use crate::fun::Fun;
use crate::ops::{self, Op, Out};
use crate::plain;
use crate::tt::TT;
use crate::util::{fnv_str, mix, Tape};
use rsbdd::bdd::{BDDEnv, BDD};
use serde_json::{json, Value};
use std::rc::Rc;

type B = Rc<BDD<usize>>;

// ---------------------------------------------------------------- fixed routes

fn lit(env: &BDDEnv<usize>, id: usize, pos: bool) -> B {
    if pos {
        env.var(id)
    } else {
        env.not(env.var(id))
    }
}

/// or of minterm conjunctions
fn route_dnf(env: &BDDEnv<usize>, tt: &TT, ids: &[usize]) -> B {
    let mut acc = env.mk_const(false);
    for idx in 0..tt.len() {
        if tt.get(idx) {
            let mut m = env.mk_const(true);
            for (p, id) in ids.iter().enumerate() {
                m = env.and(m, lit(env, *id, (idx >> p) & 1 == 1));
            }
            acc = env.or(acc, m);
        }
    }
    acc
}

/// and of maxterm disjunctions (operands in reversed order on purpose)
fn route_cnf(env: &BDDEnv<usize>, tt: &TT, ids: &[usize]) -> B {
    let mut acc = env.mk_const(true);
    for idx in (0..tt.len()).rev() {
        if !tt.get(idx) {
            let mut m = env.mk_const(false);
            for (p, id) in ids.iter().enumerate().rev() {
                m = env.or(lit(env, *id, (idx >> p) & 1 == 0), m);
            }
            acc = env.and(m, acc);
        }
    }
    acc
}

/// Shannon expansion with ite, splitting on the LAST position first
fn route_shannon(env: &BDDEnv<usize>, tt: &TT, ids: &[usize], upto: usize) -> B {
    if tt.is_true() {
        return env.mk_const(true);
    }
    if tt.is_false() {
        return env.mk_const(false);
    }
    let p = upto - 1;
    let hi = route_shannon(env, &tt.cofactor(p, true), ids, p);
    let lo = route_shannon(env, &tt.cofactor(p, false), ids, p);
    env.ite(env.var(ids[p]), hi, lo)
}

/// xor of monomials (Reed-Muller / algebraic normal form)
fn route_anf(env: &BDDEnv<usize>, tt: &TT, ids: &[usize]) -> B {
    // Moebius transform
    let n = tt.len();
    let mut c: Vec<bool> = (0..n).map(|i| tt.get(i)).collect();
    for p in 0..tt.k {
        for i in 0..n {
            if (i >> p) & 1 == 1 {
                c[i] ^= c[i & !(1 << p)];
            }
        }
    }
    let mut acc = env.mk_const(false);
    for (m, &on) in c.iter().enumerate() {
        if on {
            let mut mono = env.mk_const(true);
            for (p, id) in ids.iter().enumerate() {
                if (m >> p) & 1 == 1 {
                    mono = env.and(mono, env.var(*id));
                }
            }
            acc = env.xor(acc, mono);
        }
    }
    acc
}

/// nand-only construction of the DNF
fn route_nand(env: &BDDEnv<usize>, tt: &TT, ids: &[usize]) -> B {
    // f = nand over minterms of nand(literals...) ; nand(x,x) = not x
    let mut terms: Vec<B> = Vec::new();
    for idx in 0..tt.len() {
        if tt.get(idx) {
            let mut m = env.mk_const(true);
            for (p, id) in ids.iter().enumerate() {
                let v = env.var(*id);
                let l = if (idx >> p) & 1 == 1 { v } else { env.nand(Rc::clone(&v), v) };
                let nm = env.nand(m, l);
                m = env.nand(Rc::clone(&nm), nm);
            }
            terms.push(env.nand(Rc::clone(&m), m)); // not minterm
        }
    }
    // or of minterms = nand of negated minterms = not(and(neg...))
    let mut conj = env.mk_const(true);
    for t in terms {
        conj = env.and(conj, t);
    }
    env.nand(Rc::clone(&conj), conj)
}

/// detours through quantifiers, counting, fixed point, model and retain that must not
/// change the function
fn route_detour(env: &BDDEnv<usize>, tt: &TT, ids: &[usize], z: usize) -> B {
    let e = route_dnf(env, tt, ids);
    // exists z # (z & e)  with z a fresh variable id
    let a = env.exists(vec![z], env.and(env.var(z), Rc::clone(&e)));
    // all z # (z => e) | e
    let b = env.or(env.all(vec![z], env.implies(env.var(z), Rc::clone(&a))), Rc::clone(&a));
    // e & ([e, e] >= 1)
    let c = env.and(Rc::clone(&b), env.aln(&[Rc::clone(&b), Rc::clone(&b)], 1));
    // fp(false, x -> x | e)
    let d = env.fp(env.mk_const(false), |x| env.or(x, Rc::clone(&c)));
    // e | model(e)
    let f = env.or(Rc::clone(&d), env.model(Rc::clone(&d)));
    // e & retain_true(e) ; e | retain_false(e)
    let g = env.and(
        Rc::clone(&f),
        env.retain_choice_bottom_up(Rc::clone(&f), rsbdd::TruthTableEntry::True),
    );
    env.or(
        Rc::clone(&g),
        env.retain_choice_bottom_up(Rc::clone(&g), rsbdd::TruthTableEntry::False),
    )
}

pub const ROUTES: [&str; 6] = ["dnf", "cnf", "shannon-ite", "anf-xor", "nand-only", "detour"];

fn build_route(env: &BDDEnv<usize>, route: &str, tt: &TT, ids: &[usize]) -> B {
    match route {
        "dnf" => route_dnf(env, tt, ids),
        "cnf" => route_cnf(env, tt, ids),
        "shannon-ite" => route_shannon(env, tt, ids, tt.k),
        "anf-xor" => route_anf(env, tt, ids),
        "nand-only" => route_nand(env, tt, ids),
        "detour" => {
            // a fresh id: above, inside or below the support depending on the table
            let z = match tt.count_ones() % 3 {
                0 => ids.iter().max().map(|m| m + 1).unwrap_or(0),
                1 => (0..).find(|c| !ids.contains(c)).unwrap(),
                _ => ids.iter().max().map(|m| m + 7).unwrap_or(3),
            };
            route_detour(env, tt, ids, z)
        }
        _ => panic!("harness: route {}", route),
    }
}

fn canonical(what: &str, r: &B, tt: &TT, ids: &[usize], case: &Value) -> Check {
    let sh = plain::invariants(r);
    if !sh.ordered || !sh.reduced {
        return Err(Violation::new(
            format!("{}: diagram is not ordered/reduced: {}", what, sh.problem.unwrap_or_default()),
            case.clone(),
        ));
    }
    let got = plain::table_usize(r, &sorted(ids))
        .map_err(|e| Violation::new(format!("{}: {}", what, e), case.clone()))?;
    let _ = tt; // canonicity is judged on the function the result denotes (a wrong function is C03-C07's business)
    let expect = plain::build(&got, &sorted(ids));
    if r.as_ref() != expect.as_ref() {
        return Err(Violation::new(
            format!(
                "{}: result {} is not the reduced ordered diagram {} of the function it denotes",
                what,
                plain::render(r),
                plain::render(&expect)
            ),
            case.clone(),
        ));
    }
    if r.get_hash() != expect.get_hash() {
        return Err(Violation::new(
            format!("{}: equal diagrams hash differently", what),
            case.clone(),
        ));
    }
    if got.is_true() != r.is_true() || got.is_false() != r.is_false() {
        return Err(Violation::new(
            format!("{}: valid/unsat function is not literally the leaf", what),
            case.clone(),
        ));
    }
    Ok(())
}

fn sorted(ids: &[usize]) -> Vec<usize> {
    let mut v = ids.to_vec();
    v.sort();
    v
}

/// all routes to one function, in one shared environment and in fresh environments
pub fn check_routes(tt: &TT, ids: &[usize]) -> Check {
    let case = json!({"kind": "routes", "tt": tt.to_hex(), "ids": ids});
    guarded(&case.clone(), || {
        let uni = sorted(ids);
        let intended = crate::fun::Fun::new(tt.clone(), ids.to_vec()).over(&uni);
        let expect = plain::build(tt, ids);
        let shared: BDDEnv<usize> = BDDEnv::new();
        let mut results: Vec<(String, B, TT)> = Vec::new();
        for route in ROUTES {
            let r1 = build_route(&shared, route, tt, ids);
            let fresh: BDDEnv<usize> = BDDEnv::new();
            let r2 = build_route(&fresh, route, tt, ids);
            for (tag, r) in [("shared-env", &r1), ("fresh-env", &r2)] {
                let what = format!("route {} ({})", route, tag);
                canonical(&what, r, tt, ids, &case)?;
                // canonicity is judged on the function the result denotes: a route that
                // denotes another function (a semantic defect, C03-C07) must then be unequal
                let mut uni2 = uni.clone();
                for s in plain::support_syms(r) {
                    if !uni2.contains(&s) {
                        uni2.push(s);
                    }
                }
                uni2.sort();
                let got = plain::table_usize(r, &uni2)
                    .map_err(|e| Violation::new(format!("{}: {}", what, e), case.clone()))?;
                let same = uni2 == uni && got == intended;
                if same != (r.as_ref() == expect.as_ref()) {
                    return Err(Violation::new(
                        format!(
                            "{} gives {} which {} the intended function, yet it compares {} to the independently built reduced ordered diagram {}",
                            what,
                            plain::render(r),
                            if same { "denotes" } else { "does not denote" },
                            if same { "unequal" } else { "equal" },
                            plain::render(&expect)
                        ),
                        case.clone(),
                    ));
                }
                if same && r.get_hash() != expect.get_hash() {
                    return Err(Violation::new(
                        format!("{}: hash differs from the independent diagram's", what),
                        case.clone(),
                    ));
                }
                let gt = if uni2 == uni { got } else { TT::konst(0, false) };
                results.push((format!("{} {}", route, tag), Rc::clone(r), gt));
            }
        }
        for i in 0..results.len() {
            for j in (i + 1)..results.len() {
                let same = results[i].2.k == uni.len() && results[i].2 == results[j].2;
                if same && results[i].1 != results[j].1 {
                    return Err(Violation::new(
                        format!("routes {} and {} denote the same function but compare unequal", results[i].0, results[j].0),
                        case.clone(),
                    ));
                }
            }
        }
        // a different function must compare unequal
        if tt.k > 0 {
            let mut other = tt.clone();
            let flip = (tt.count_ones() as usize * 7 + 3) % tt.len();
            other.set(flip, !tt.get(flip));
            let o = plain::intern(&shared, &other, ids);
            if o.as_ref() == expect.as_ref() || results.iter().any(|r| r.2 == intended && r.1 == o) {
                return Err(Violation::new(
                    "two different functions compare equal",
                    case.clone(),
                ));
            }
        }
        Ok(())
    })
}

// ---------------------------------------------------------------- random histories

/// Run a history in two environments; every result must be canonical for the function it
/// denotes; results are pairwise equal iff their tables are; the second environment
/// reproduces structurally identical results.
pub fn check_history(opsv: &[Op], st: Option<&mut Stats>) -> Check {
    let case = json!({"kind": "history", "ops": ops::ops_to_json(opsv)});
    if !ops::well_formed(opsv) {
        return Err(Violation::new("HARNESS: malformed history", case));
    }
    let mut same_pairs = 0u64;
    let mut diff_pairs = 0u64;
    let mut collisions = 0u64;
    let r = guarded(&case.clone(), || {
        let ids: Vec<usize> = (0..ops::K).collect();
        let env_a: BDDEnv<usize> = BDDEnv::new();
        let env_b: BDDEnv<usize> = BDDEnv::new();
        let mut pool_a: Vec<B> = Vec::new();
        let mut pool_b: Vec<B> = Vec::new();
        let mut tabs: Vec<TT> = Vec::new();
        for (i, op) in opsv.iter().enumerate() {
            let ra = match ops::apply(&env_a, op, &pool_a) {
                Out::Diagram(d) => d,
                Out::Pair(..) => Rc::clone(&pool_a[op.operands()[0]]),
            };
            let rb = match ops::apply(&env_b, op, &pool_b) {
                Out::Diagram(d) => d,
                Out::Pair(..) => Rc::clone(&pool_b[op.operands()[0]]),
            };
            let what = format!("step {} ({})", i, op.name());
            let t = plain::table_usize(&ra, &ids)
                .map_err(|e| Violation::new(format!("{}: {}", what, e), case.clone()))?;
            canonical(&what, &ra, &t, &ids, &case)?;
            if ra != rb {
                return Err(Violation::new(
                    format!("{}: the same history in a second environment gives a different diagram", what),
                    case.clone(),
                ));
            }
            pool_a.push(ra);
            pool_b.push(rb);
            tabs.push(t);
        }
        // pairwise: == iff same function
        for i in 0..pool_a.len() {
            for j in (i + 1)..pool_a.len() {
                let same_fun = tabs[i] == tabs[j];
                let eq = pool_a[i] == pool_a[j];
                if same_fun {
                    same_pairs += 1;
                } else {
                    diff_pairs += 1;
                    if pool_a[i].get_hash() == pool_a[j].get_hash() {
                        collisions += 1;
                    }
                }
                if same_fun != eq {
                    return Err(Violation::new(
                        format!(
                            "results {} and {} denote {} functions but compare {}",
                            i,
                            j,
                            if same_fun { "the same" } else { "different" },
                            if eq { "equal" } else { "unequal" }
                        ),
                        case.clone(),
                    ));
                }
                if eq && pool_a[i].get_hash() != pool_a[j].get_hash() {
                    return Err(Violation::new(
                        format!("results {} and {} are equal but hash differently", i, j),
                        case.clone(),
                    ));
                }
            }
        }
        Ok(())
    });
    if let Some(st) = st {
        st.class_n("pairs-same-function", same_pairs);
        st.class_n("pairs-different-function", diff_pairs);
        st.class_n("hash-collisions-between-different-functions(not asserted)", collisions);
    }
    r
}

/// The same canonical-form claims when operands cross environments: operation i runs in
/// environment sel[i] % 2 and takes its operands from one common pool, whichever
/// environment produced them ("in the same or in different environments").  Only what C02
/// states is checked here (==, hash, ordered, reduced) - no pointer identity.
/// `clean` is excluded: it looks its argument up in the environment's own table.
pub fn check_history_cross(opsv: &[Op], sel: &[u8]) -> Check {
    let case = json!({"kind": "cross-history", "ops": ops::ops_to_json(opsv), "env": sel});
    if !ops::well_formed(opsv) || sel.len() < opsv.len() {
        return Err(Violation::new("HARNESS: malformed history", case));
    }
    guarded(&case.clone(), || {
        let ids: Vec<usize> = (0..ops::K).collect();
        let envs: [BDDEnv<usize>; 2] = [BDDEnv::new(), BDDEnv::new()];
        let mut pool: Vec<B> = Vec::new();
        let mut tabs: Vec<TT> = Vec::new();
        for (i, op) in opsv.iter().enumerate() {
            let env = &envs[(sel[i] % 2) as usize];
            let op2 = match op {
                Op::Clean(a) => Op::Not(*a),
                o => o.clone(),
            };
            let r = match ops::apply(env, &op2, &pool) {
                Out::Diagram(d) => d,
                Out::Pair(..) => Rc::clone(&pool[op2.operands()[0]]),
            };
            let what = format!("step {} ({} in environment {})", i, op2.name(), sel[i] % 2);
            let t = plain::table_usize(&r, &ids).map_err(|e| Violation::new(format!("{}: {}", what, e), case.clone()))?;
            canonical(&what, &r, &t, &ids, &case)?;
            pool.push(r);
            tabs.push(t);
        }
        for i in 0..pool.len() {
            for j in (i + 1)..pool.len() {
                let same_fun = tabs[i] == tabs[j];
                let eq = pool[i] == pool[j];
                if same_fun != eq {
                    return Err(Violation::new(
                        format!(
                            "results {} and {} (operands crossing environments) denote {} functions but compare {}",
                            i,
                            j,
                            if same_fun { "the same" } else { "different" },
                            if eq { "equal" } else { "unequal" }
                        ),
                        case.clone(),
                    ));
                }
                if eq && pool[i].get_hash() != pool[j].get_hash() {
                    return Err(Violation::new(format!("results {} and {} are equal but hash differently", i, j), case.clone()));
                }
            }
        }
        Ok(())
    })
}

/// Construct a variable id x such that the single-variable diagram var(x) has the SAME 64-bit hash
/// as `target` (a different diagram). Equal hashes are legitimate for different functions; `==`
/// must still tell them apart. The construction treats `get_hash` as a black box of the shape
/// h(x) = rotl((c ^ x) * K, 5) * K (multiplicative hashing, the variable id being the last word
/// before the false leaf's discriminant 0) and is verified before it is used: if the hash function
/// is of another shape, no collision is found and the stage reports that instead.
pub fn colliding_var(target: u64) -> Option<usize> {
    // the odd multiplier is recovered from two samples is not possible in general; try the
    // FxHasher constant and fall back to "no collision constructed"
    const K: u64 = 0x517c_c1b7_2722_0a95;
    fn inv(k: u64) -> u64 {
        // Newton iteration for the inverse of an odd number modulo 2^64
        let mut x = k;
        for _ in 0..6 {
            x = x.wrapping_mul(2u64.wrapping_sub(k.wrapping_mul(x)));
        }
        x
    }
    let kinv = inv(K);
    let h0 = plain::build(&TT::var(1, 0), &[0usize]).get_hash();
    // h(x) = rotl((c ^ x) * K, 5) * K  =>  c ^ x = rotr(h * kinv, 5) * kinv
    let c = h0.wrapping_mul(kinv).rotate_right(5).wrapping_mul(kinv); // x = 0
    let x = target.wrapping_mul(kinv).rotate_right(5).wrapping_mul(kinv) ^ c;
    let x = x as usize;
    let probe: B = Rc::new(BDD::Choice(Rc::new(BDD::True), x, Rc::new(BDD::False)));
    if probe.get_hash() == target {
        Some(x)
    } else {
        None
    }
}

/// two different diagrams with one and the same hash: every claim of C02 must still hold
pub fn check_collision(target: &crate::fun::Fun) -> Result<bool, Violation> {
    let case = json!({"kind": "hash-collision", "target": target.to_json()});
    let v = |m: String| Violation::new(m, case.clone());
    let tplain = target.plain();
    let x = match colliding_var(tplain.get_hash()) {
        Some(x) => x,
        None => return Ok(false),
    };
    if target.ids.contains(&x) {
        return Ok(false);
    }
    guarded(&case.clone(), || {
        let env: BDDEnv<usize> = BDDEnv::new();
        let d = target.intern(&env);
        let vx = env.var(x);
        if vx.get_hash() != d.get_hash() {
            return Err(v("HARNESS: constructed collision does not collide".into()));
        }
        let mut uni = target.ids_sorted();
        uni.push(x);
        uni.sort();
        let px = uni.iter().position(|u| *u == x).unwrap();
        let tx = TT::var(uni.len(), px);
        let td = target.over(&uni);
        if td == tx {
            return Ok(());
        }
        if vx == d {
            return Err(v(format!(
                "var({}) and {} denote different functions (same hash {:#x}) but compare equal",
                x,
                plain::render(&d),
                d.get_hash()
            )));
        }
        for (what, r, want) in [
            ("var(x)", Rc::clone(&vx), tx.clone()),
            ("d", Rc::clone(&d), td.clone()),
            ("and(var(x), d)", env.and(Rc::clone(&vx), Rc::clone(&d)), tx.and(&td)),
            ("or(d, var(x))", env.or(Rc::clone(&d), Rc::clone(&vx)), td.or(&tx)),
            ("xor(var(x), d)", env.xor(Rc::clone(&vx), Rc::clone(&d)), tx.xor(&td)),
            ("not(var(x))", env.not(Rc::clone(&vx)), tx.not()),
            ("ite(var(x), d, not d)", env.ite(Rc::clone(&vx), Rc::clone(&d), env.not(Rc::clone(&d))), tx.ite(&td, &td.not())),
        ] {
            let got = plain::table_usize(&r, &uni).map_err(|e| v(format!("{}: {}", what, e)))?;
            if got != want {
                return Err(v(format!(
                    "{} with x = {} (whose diagram has the same hash as {}): table {} instead of {}",
                    what,
                    x,
                    plain::render(&d),
                    got.to_hex(),
                    want.to_hex()
                )));
            }
            canonical(what, &r, &want, &uni, &case)?;
        }
        // and the other creation order, in a second environment
        let env2: BDDEnv<usize> = BDDEnv::new();
        let vx2 = env2.var(x);
        let d2 = target.intern(&env2);
        let t2 = plain::table_usize(&d2, &uni).map_err(|e| v(e))?;
        if t2 != td || d2 != d || vx2 != vx {
            return Err(v(format!("creating {} after var({}) yields another diagram", plain::render(&d), x)));
        }
        Ok(())
    })?;
    Ok(true)
}

/// evaluate a formula, convert the NamedSymbol diagram with `BDD::<usize>::from`, compare with the
/// independent canonical diagram over the symbols' ids
pub fn check_conversion(text: &str) -> Check {
    let case = json!({"kind": "conversion", "text": text});
    let v = |m: String| Violation::new(m, case.clone());
    guarded(&case.clone(), || {
        let names_all = {
            let p = crate::rparse::parse_text(text.as_bytes()).map_err(|e| v(format!("HARNESS: {}", e)))?;
            crate::rlex::identifiers(&p.tokens)
        };
        let limit = (1usize << names_all.len().min(16)) + 2;
        let (r, pf) = match crate::front::run_text(text.as_bytes(), None, Some(limit)) {
            crate::front::Run::Ok(r, pf) => (r, pf),
            _ => return Ok(()), // C01 / C12 judge acceptance and termination
        };
        let ids: Vec<usize> = pf.vars.iter().map(|s| s.id).collect();
        let names: Vec<String> = pf.vars.iter().map(|s| s.name.as_ref().clone()).collect();
        let table = crate::front::table_by_name(&r, &names).map_err(|e| v(e))?;
        let converted: BDD<usize> = BDD::<usize>::from(r.as_ref().clone());
        let expect = plain::build(&table, &ids);
        if &converted != expect.as_ref() {
            return Err(v(format!(
                "BDD::<usize>::from gives {} but the canonical diagram of the same function over the ids is {}",
                plain::render(&converted),
                plain::render(&expect)
            )));
        }
        if converted.get_hash() != expect.get_hash() {
            return Err(v("converted diagram hashes differently from an equal diagram".into()));
        }
        Ok(())
    })
}

fn record_history(opsv: &[Op], st: &mut Stats) {
    st.eval();
    let mut kinds: Vec<String> = opsv.iter().map(|o| o.name()).collect();
    kinds.sort();
    kinds.dedup();
    for k in &kinds {
        st.class(&format!("history-with:{}", k));
    }
    let detour = opsv.iter().any(|o| {
        matches!(
            o,
            Op::Exists(..) | Op::All(..) | Op::CountN(..) | Op::Count2(..) | Op::Fp(..) | Op::Model(_) | Op::Retain(..)
        )
    });
    if opsv.len() >= 10 && kinds.len() >= 4 && detour {
        let j = ops::ops_to_json(opsv);
        if st.nontrivial(fnv_str(&j.to_string())) {
            st.nt_sample(|| json!({"history": j}));
        }
    } else if st.want_sample() {
        st.sample(json!({"history": ops::ops_to_json(opsv)}));
    }
}

pub fn id_maps(k: usize) -> Vec<Vec<usize>> {
    match k {
        0 => vec![vec![]],
        1 => vec![vec![0], vec![6]],
        2 => vec![vec![0, 1], vec![3, 8], vec![5, 2]],
        3 => vec![vec![0, 1, 2], vec![2, 5, 9], vec![7, 0, 3]],
        _ => vec![vec![0, 1, 2, 3], vec![1, 4, 6, 11], vec![9, 2, 5, 0]],
    }
}

pub fn run(ctx: &mut Ctx) -> Result<(), Violation> {
    ctx.rule = "stage routes: every Boolean function of k variables (k<=3 quick, k=4 thorough) under three id maps is built by six fixed routes \
                (DNF, CNF, Shannon/ite bottom-up, xor of monomials, nand-only, and a detour through exists/all/counting/fp/model/retain), each in a shared and in a fresh \
                environment; every result must be `==` (and hash-equal) to a reduced ordered diagram built independently from plain enum values, be ordered and reduced, \
                and a neighbouring function must compare unequal. Stage histories: random operation histories (all public operations, old handles reused) run in two environments; \
                every result must equal plain::build(table(result)), results are pairwise equal iff their tables are equal. A third stage runs histories whose operands cross two environments (only ==, hash, ordered, reduced are judged there). Non-trivial = route case whose function depends on >= 2 variables, \
                or a history of >= 10 operations with >= 4 operation kinds including a quantifier/counting/fp/model/retain; distinct by (table, ids) resp. operation list."
        .to_string();
    ctx.rule.push_str(" Wide stage: ");
    ctx.rule.push_str(crate::wide::RULE);
    ctx.rule.push_str(" C02 additionally requires of every wide result: ordered, reduced, `==` and hash-equal to the reference diagram, and equal to the result of another route (De Morgan, not-eq).");
    ctx.assume("the table of a result is read by the harness walker; the expected diagram is built from that table with plain enum values (no BDDEnv)");
    ctx.assume("hash inequality of different functions is not asserted (collisions are counted only)");

    let maxk = 4;
    for k in 0..=maxk {
        let maps: Vec<Vec<usize>> = if k == 4 && ctx.tier == Tier::Quick { id_maps(k).into_iter().take(1).collect() } else { id_maps(k) };
        let nf: u64 = 1u64 << (1u64 << k);
        let n = nf * maps.len() as u64;
        let r = par_exhaustive(ctx, n, |i, st| {
            let m = &maps[(i / nf) as usize];
            let tt = if k <= 6 { TT::from_bits(k, i % nf) } else { unreachable!() };
            st.evals(ROUTES.len() as u64 * 2);
            st.class_n("route-evaluations", ROUTES.len() as u64 * 2);
            if tt.support().len() >= 2 {
                let fp = mix(i, k as u64);
                if st.nontrivial(fp) {
                    st.nt_sample(|| json!({"kind": "routes", "tt": tt.to_hex(), "ids": m, "routes": ROUTES}));
                }
            } else if st.want_sample() {
                st.sample(json!({"kind": "routes", "tt": tt.to_hex(), "ids": m}));
            }
            check_routes(&tt, m)
        });
        ctx.stage(&format!("routes-all-functions-k{}", k), true, r)?;
    }

    // random functions of 5 and 6 variables through all routes
    let cases = ctx.tier.cases(2_000, 60_000);
    let r = par_random(ctx, "routes-random-5-6-vars", cases, 12, |tape, st| {
        let mut t = Tape::new(tape);
        let k = 5 + t.choose(2);
        let mut bits = t.u64();
        if k == 5 {
            bits &= 0xffff_ffff;
        }
        let tt = TT::from_bits(k, bits);
        let ids: Vec<usize> = if t.flag() { (0..k).collect() } else { vec![1, 3, 4, 8, 9, 12][..k].to_vec() };
        st.evals(ROUTES.len() as u64 * 2);
        st.class("route-evaluations-5-6-vars");
        if st.nontrivial(mix(bits, k as u64 + 100)) {
            st.nt_sample(|| json!({"kind": "routes", "tt": tt.to_hex(), "ids": ids}));
        }
        check_routes(&tt, &ids)
    });
    ctx.stage("routes-random-functions-5-6-vars", false, r)?;

    let cases = ctx.tier.cases(40_000, 3_000_000);
    let max_ops = ctx.tier.pick(40, 80);
    let r = par_random(ctx, "histories", cases, 400, |tape, st| {
        let mut t = Tape::new(tape);
        let opsv = ops::gen_ops(&mut t, max_ops);
        record_history(&opsv, st);
        check_history(&opsv, Some(st))
    });
    ctx.stage("random-histories-two-envs", false, r)?;

    // constructed hash collisions: for every non-constant function of <= 3 variables a variable id whose
    // single-variable diagram has the same 64-bit hash
    let r = par_exhaustive(ctx, 4 + 16 + 256, |i, st| {
        let f = if i < 4 {
            Fun::new(TT::from_bits(1, i), vec![1])
        } else if i < 20 {
            Fun::new(TT::from_bits(2, i - 4), vec![1, 2])
        } else {
            Fun::new(TT::from_bits(3, i - 20), vec![0, 2, 5])
        };
        if f.tt.is_const() {
            return Ok(());
        }
        st.eval();
        if check_collision(&f)? {
            st.class("hash-collision-constructed-and-checked");
            if st.nontrivial(f.fingerprint()) {
                st.nt_sample(|| json!({"kind": "hash-collision", "target": f.to_json()}));
            }
        } else {
            st.class("hash-collision-not-constructible(hash function of another shape)");
        }
        Ok(())
    });
    ctx.stage("equal-hash-different-function", true, r)?;

    // BDD::<usize>::from(named diagram): the converted diagram is the canonical diagram of the same
    // function over the symbols' ids
    let cases = ctx.tier.cases(10_000, 300_000);
    let r = par_random(ctx, "named-to-usize", cases, 300, |tape, st| {
        let mut t = Tape::new(tape);
        let mut cfg = crate::gen::Cfg::standard(2 + t.choose(5), 1 + t.choose(4));
        cfg.big_consts = false;
        cfg.max_list = 3;
        let ast = crate::gen::formula(&mut t, &cfg);
        let text = crate::rprint::plain(&ast);
        st.eval();
        st.class("named-diagram-converted-to-usize");
        check_conversion(&text)?;
        if st.nontrivial(crate::util::fnv_str(&text)) {
            st.nt_sample(|| json!({"kind": "conversion", "text": text}));
        }
        Ok(())
    });
    ctx.stage("named-to-usize-conversion", false, r)?;

    let cases = ctx.tier.cases(40_000, 3_000_000);
    let r = par_random(ctx, "cross-env-histories", cases, 400, |tape, st| {
        let mut t = Tape::new(tape);
        let opsv = ops::gen_ops(&mut t, max_ops);
        let sel: Vec<u8> = (0..opsv.len()).map(|_| t.byte()).collect();
        record_history(&opsv, st);
        st.class("operands-crossing-environments");
        check_history_cross(&opsv, &sel)
    });
    ctx.stage("random-histories-operands-crossing-environments", false, r)?;
    let wc = ctx.tier.cases(4_000, 150_000);
    crate::wide::stage_conn(ctx, "wide-functions-canonical-results", true, wc)?;
    crate::wide::stage_collisions(ctx, "equal-hash-sub-diagrams-under-one-root", "canon")?;
    crate::wide::fuzz_kind(ctx, "canon", replay)?;
    Ok(())
}

pub fn replay(case: &Value) -> Check {
    if let Some(r) = crate::wide::replay(case) {
        return r;
    }
    match case["kind"].as_str() {
        Some("routes") => {
            let tt = TT::from_hex(case["tt"].as_str().unwrap_or(""));
            let ids: Option<Vec<usize>> = case["ids"]
                .as_array()
                .map(|a| a.iter().filter_map(|x| x.as_u64().map(|u| u as usize)).collect());
            match (tt, ids) {
                (Some(tt), Some(ids)) if ids.len() == tt.k => check_routes(&tt, &ids),
                _ => Err(Violation::new("unreadable replay case", case.clone())),
            }
        }
        Some("history") => match ops::ops_from_json(&case["ops"]) {
            Some(o) => check_history(&o, None),
            None => Err(Violation::new("unreadable replay case", case.clone())),
        },
        Some("hash-collision") => match crate::fun::Fun::from_json(&case["target"]) {
            Some(f) => check_collision(&f).map(|_| ()),
            None => Err(Violation::new("unreadable replay case", case.clone())),
        },
        Some("conversion") => check_conversion(case["text"].as_str().unwrap_or("true")),
        Some("cross-history") => {
            let sel: Option<Vec<u8>> = case["env"].as_array().map(|a| a.iter().filter_map(|x| x.as_u64().map(|u| u as u8)).collect());
            match (ops::ops_from_json(&case["ops"]), sel) {
                (Some(o), Some(s)) => check_history_cross(&o, &s),
                _ => Err(Violation::new("unreadable replay case", case.clone())),
            }
        }
        _ => Err(Violation::new("unreadable replay case", case.clone())),
    }
}
