//! C18 — random_graph_gen outputs the graph that was asked for.

use crate::cli;
use crate::engine::*;
use crate::util::{self, fnv_str, Tape};
use serde_json::{json, Value};
use std::collections::{BTreeMap, BTreeSet, HashMap};
use std::time::Duration;

#[derive(Clone, Debug)]
pub enum Case {
    Generate {
        vertices: usize,
        edges: usize,
        undirected: bool,
        complete: bool,
        dot: bool,
        to_file: bool,
    },
    Convert {
        input: Vec<(String, String)>,
        undirected: bool,
        dot: bool,
    },
    Colors {
        input: Vec<(String, String)>,
        colors: usize,
        undirected: bool,
    },
}

fn edges_json(e: &[(String, String)]) -> Value {
    Value::Array(e.iter().map(|(a, b)| json!([a, b])).collect())
}
fn edges_from(v: &Value) -> Option<Vec<(String, String)>> {
    let mut out = Vec::new();
    for e in v.as_array()? {
        let p = e.as_array()?;
        out.push((p.first()?.as_str()?.to_string(), p.get(1)?.as_str()?.to_string()));
    }
    Some(out)
}

impl Case {
    pub fn to_json(&self) -> Value {
        match self {
            Case::Generate {
                vertices,
                edges,
                undirected,
                complete,
                dot,
                to_file,
            } => json!({"kind": "generate", "vertices": vertices, "edges": edges, "undirected": undirected, "complete": complete, "dot": dot, "to_file": to_file}),
            Case::Convert { input, undirected, dot } => {
                json!({"kind": "convert", "input": edges_json(input), "undirected": undirected, "dot": dot})
            }
            Case::Colors {
                input,
                colors,
                undirected,
            } => json!({"kind": "colors", "input": edges_json(input), "colors": colors, "undirected": undirected}),
        }
    }
    pub fn from_json(v: &Value) -> Option<Case> {
        Some(match v["kind"].as_str()? {
            "generate" => Case::Generate {
                vertices: v["vertices"].as_u64()? as usize,
                edges: v["edges"].as_u64()? as usize,
                undirected: v["undirected"].as_bool()?,
                complete: v["complete"].as_bool()?,
                dot: v["dot"].as_bool()?,
                to_file: v["to_file"].as_bool().unwrap_or(false),
            },
            "convert" => Case::Convert {
                input: edges_from(&v["input"])?,
                undirected: v["undirected"].as_bool()?,
                dot: v["dot"].as_bool()?,
            },
            "colors" => Case::Colors {
                input: edges_from(&v["input"])?,
                colors: v["colors"].as_u64()? as usize,
                undirected: v["undirected"].as_bool()?,
            },
            _ => return None,
        })
    }
}

/// parse the edge-list (`a,b` per line) or DOT output
pub fn parse_output(out: &str, dot: bool, undirected: bool) -> Result<Vec<(String, String)>, String> {
    let mut edges = Vec::new();
    if dot {
        // any layout / quoting style of the DOT language; only the graph it denotes counts
        let g = crate::dot::parse(out)?;
        if g.directed == undirected {
            return Err(format!(
                "DOT output is a {} but the request was {}",
                if g.directed { "digraph" } else { "graph" },
                if undirected { "undirected" } else { "directed" }
            ));
        }
        for (a, _, b) in g.edges {
            edges.push((a, b));
        }
    } else {
        for l in out.lines() {
            let f = csv_fields(l)?;
            if f.len() != 2 {
                return Err(format!("edge line with {} fields {:?}", f.len(), l));
            }
            edges.push((f[0].clone(), f[1].clone()));
        }
    }
    Ok(edges)
}

/// one CSV record (RFC 4180): fields separated by commas, optionally enclosed in double quotes
/// with `""` for a quote inside
fn csv_fields(line: &str) -> Result<Vec<String>, String> {
    let cs: Vec<char> = line.trim_end_matches('\r').chars().collect();
    let mut out = Vec::new();
    let mut i = 0usize;
    loop {
        let mut f = String::new();
        if i < cs.len() && cs[i] == '"' {
            i += 1;
            loop {
                if i >= cs.len() {
                    return Err(format!("unterminated quoted field in {:?}", line));
                }
                if cs[i] == '"' {
                    if i + 1 < cs.len() && cs[i + 1] == '"' {
                        f.push('"');
                        i += 2;
                        continue;
                    }
                    i += 1;
                    break;
                }
                f.push(cs[i]);
                i += 1;
            }
            if i < cs.len() && cs[i] != ',' {
                return Err(format!("text after a closing quote in {:?}", line));
            }
        } else {
            while i < cs.len() && cs[i] != ',' {
                f.push(cs[i]);
                i += 1;
            }
        }
        out.push(f);
        if i >= cs.len() {
            break;
        }
        i += 1; // the comma
        if i == cs.len() {
            out.push(String::new());
            break;
        }
    }
    Ok(out)
}

fn run_tool(args: &[String]) -> cli::Output {
    cli::run(&cli::bin("random_graph_gen"), args, None, Duration::from_secs(60))
}

/// the documented merge of --convert
fn convert_model(input: &[(String, String)], undirected: bool) -> Vec<(String, String)> {
    let mut out: Vec<(String, String)> = Vec::new();
    for (a, b) in input {
        if undirected && out.contains(&(b.clone(), a.clone())) {
            continue;
        }
        out.push((a.clone(), b.clone()));
    }
    out
}

fn vertices_of(e: &[(String, String)]) -> Vec<String> {
    let mut v: Vec<String> = Vec::new();
    for (a, b) in e {
        for x in [a, b] {
            if !v.contains(x) {
                v.push(x.clone());
            }
        }
    }
    v
}

fn k_colourable(input: &[(String, String)], k: usize) -> bool {
    let vs = vertices_of(input);
    let n = vs.len();
    if k == 0 {
        return n == 0;
    }
    let idx = |s: &String| vs.iter().position(|x| x == s).unwrap();
    let es: Vec<(usize, usize)> = input.iter().map(|(a, b)| (idx(a), idx(b))).collect();
    let mut col = vec![0usize; n];
    loop {
        if es.iter().all(|(a, b)| col[*a] != col[*b]) {
            return true;
        }
        // next colouring
        let mut i = 0;
        loop {
            if i == n {
                return false;
            }
            col[i] += 1;
            if col[i] < k {
                break;
            }
            col[i] = 0;
            i += 1;
        }
    }
}

/// How the colour copies of the input vertices are spelt is not prescribed: the scheme is read off
/// the output (`<v>_c<k>` or `c<k>_<v>`); every output vertex must be a copy under ONE scheme.
#[derive(Clone, Copy, Debug, PartialEq)]
enum CopyScheme {
    Suffix,
    Prefix,
}

fn copy_name(scheme: CopyScheme, v: &str, k: usize) -> String {
    match scheme {
        CopyScheme::Suffix => format!("{}_c{}", v, k),
        CopyScheme::Prefix => format!("c{}_{}", k, v),
    }
}

fn copy_scheme(output: &[(String, String)], input_vertices: &[String], k: usize) -> Result<CopyScheme, String> {
    let present: BTreeSet<&String> = output.iter().flat_map(|(a, b)| [a, b]).collect();
    for scheme in [CopyScheme::Suffix, CopyScheme::Prefix] {
        let all = present
            .iter()
            .all(|x| input_vertices.iter().any(|vn| (0..k).any(|c| **x == copy_name(scheme, vn, c))));
        if all {
            return Ok(scheme);
        }
    }
    let odd = present
        .iter()
        .find(|x| !input_vertices.iter().any(|vn| (0..k).any(|c| ***x == copy_name(CopyScheme::Suffix, vn, c))))
        .map(|x| x.to_string())
        .unwrap_or_default();
    Err(format!("output vertex {} is not a colour copy (<input vertex>_c<colour> or c<colour>_<input vertex>) of an input vertex", odd))
}

/// does the output edge list contain a clique with exactly one colour copy per input vertex?
fn covering_clique(output: &[(String, String)], input_vertices: &[String], k: usize, scheme: CopyScheme) -> bool {
    let adj: BTreeSet<(String, String)> = output
        .iter()
        .flat_map(|(a, b)| [(a.clone(), b.clone()), (b.clone(), a.clone())])
        .collect();
    let n = input_vertices.len();
    if n == 0 {
        return true;
    }
    if k == 0 {
        return false;
    }
    let present: BTreeSet<String> = output.iter().flat_map(|(a, b)| [a.clone(), b.clone()]).collect();
    let mut choice = vec![0usize; n];
    loop {
        let names: Vec<String> = (0..n).map(|i| copy_name(scheme, &input_vertices[i], choice[i])).collect();
        let ok = (n == 1 && present.contains(&names[0]))
            || (n > 1
                && (0..n).all(|i| ((i + 1)..n).all(|j| adj.contains(&(names[i].clone(), names[j].clone())))));
        if ok {
            return true;
        }
        let mut i = 0;
        loop {
            if i == n {
                return false;
            }
            choice[i] += 1;
            if choice[i] < k {
                break;
            }
            choice[i] = 0;
            i += 1;
        }
    }
}

pub fn check_case(c: &Case) -> Check {
    let cj = c.to_json();
    let v = |m: String| Violation::new(m, cj.clone());
    let scratch = cli::Scratch::new();
    match c {
        Case::Generate {
            vertices,
            edges,
            undirected,
            complete,
            dot,
            to_file,
        } => {
            let mut args: Vec<String> = vec![vertices.to_string()];
            if !*complete {
                args.push(edges.to_string());
            }
            if *undirected {
                args.push("-u".into());
            }
            if *complete {
                args.push("--complete".into());
            }
            if *dot {
                args.push("--dot".into());
            }
            let path = scratch.stale(&cli::Scratch::awkward("graph.out"));
            if *to_file {
                args.push("-o".into());
                args.push(path.to_string_lossy().into_owned());
            }
            let max_edges = if *undirected {
                vertices * vertices.saturating_sub(1) / 2
            } else {
                vertices * vertices.saturating_sub(1)
            };
            let want_edges = if *complete { max_edges } else { *edges };
            let feasible = want_edges <= max_edges;
            // every run is a fresh sample: three runs
            for run in 0..3 {
                if *to_file {
                    // an earlier, longer output is already there
                    let _ = scratch.stale(&cli::Scratch::awkward("graph.out"));
                }
                let out = run_tool(&args);
                if out.timed_out {
                    return Err(v("HARNESS: random_graph_gen timed out".into()));
                }
                if out.panicked() {
                    return Err(v(format!("random_graph_gen panicked instead of answering or refusing: {}", out.describe()))
                        .sig(if *vertices == 0 && *complete { "complete-zero-vertices" } else { "" }));
                }
                let text = if *to_file {
                    std::fs::read_to_string(&path).unwrap_or_default()
                } else {
                    out.out()
                };
                if !feasible {
                    if out.ok() {
                        return Err(v(format!(
                            "a request for {} edges on {} vertices (at most {}) was not refused (run {})",
                            want_edges, vertices, max_edges, run
                        )));
                    }
                    let untouched = *to_file && text.starts_with("stale,content");
                    let wrote = if untouched { 0 } else { parse_output(&text, *dot, *undirected).map(|e| e.len()).unwrap_or(0) };
                    if wrote > 0 {
                        return Err(v(format!("the refused request still wrote {} edges", wrote)));
                    }
                    let _ = std::fs::remove_file(&path);
                    continue;
                }
                if !out.ok() {
                    return Err(v(format!("a satisfiable request was refused: {}", out.describe())));
                }
                let es = parse_output(&text, *dot, *undirected).map_err(|e| v(e))?;
                if es.len() != want_edges {
                    return Err(v(format!("{} edges written, {} requested", es.len(), want_edges)));
                }
                let names: BTreeSet<String> = (0..*vertices).map(|i| format!("v{}", i)).collect();
                let mut seen: BTreeSet<(String, String)> = BTreeSet::new();
                for (a, b) in &es {
                    if !names.contains(a) || !names.contains(b) {
                        return Err(v(format!("edge {},{} has an endpoint outside v0..v{}", a, b, vertices.saturating_sub(1))));
                    }
                    if a == b {
                        return Err(v(format!("self loop {},{}", a, b)));
                    }
                    if !seen.insert((a.clone(), b.clone())) {
                        return Err(v(format!("edge {},{} appears twice", a, b)));
                    }
                    if *undirected && seen.contains(&(b.clone(), a.clone())) {
                        return Err(v(format!("with -u the pair {},{} appears in both orientations", a, b)));
                    }
                }
                let _ = std::fs::remove_file(&path);
            }
            Ok(())
        }
        Case::Convert { input, undirected, dot } => {
            let csv: String = input.iter().map(|(a, b)| format!("{},{}\n", a, b)).collect();
            let p = scratch.file(&cli::Scratch::awkward("in.csv"), csv.as_bytes());
            let mut args = vec!["--convert".to_string(), p.to_string_lossy().into_owned()];
            if *undirected {
                args.push("-u".into());
            }
            if *dot {
                args.push("-d".into());
            }
            let out = run_tool(&args);
            if !out.ok() {
                return Err(v(format!("--convert failed: {}", out.describe())));
            }
            let es = parse_output(&out.out(), *dot, *undirected).map_err(|e| v(e))?;
            let want = convert_model(input, *undirected);
            if es != want {
                return Err(v(format!("--convert wrote {:?}, expected {:?}", es, want)));
            }
            Ok(())
        }
        Case::Colors {
            input,
            colors,
            undirected,
        } => {
            let csv: String = input.iter().map(|(a, b)| format!("{},{}\n", a, b)).collect();
            let p = scratch.file(&cli::Scratch::awkward("in.csv"), csv.as_bytes());
            let mut args = vec![
                "--convert".to_string(),
                p.to_string_lossy().into_owned(),
                "--colors".to_string(),
                colors.to_string(),
            ];
            if *undirected {
                args.push("-u".into());
            }
            let out = run_tool(&args);
            if !out.ok() {
                return Err(v(format!("--colors failed: {}", out.describe())));
            }
            let es = parse_output(&out.out(), false, *undirected).map_err(|e| v(e))?;
            let vs = vertices_of(input);
            let want = k_colourable(input, *colors);
            // output vertices are well-formed copies under one naming scheme
            let scheme = copy_scheme(&es, &vs, *colors).map_err(|e| v(e))?;
            let got = covering_clique(&es, &vs, *colors, scheme);
            if got != want {
                return Err(v(format!(
                    "the input graph {} {}-colourable but the output graph {} clique covering every input vertex",
                    if want { "is" } else { "is not" },
                    colors,
                    if got { "has a" } else { "has no" }
                )));
            }
            Ok(())
        }
    }
}

const NAME_POOLS: [[&str; 6]; 4] = [
    ["a", "b", "c", "d", "e", "f"],
    // names that are prefixes of one another / look like generated or coloured vertices
    ["v1", "v10", "v11", "v2", "v1_", "v"],
    ["a", "ab", "a_c0", "a_c1", "a1", "a_"],
    ["x", "x0", "x00", "X", "x_0", "x1"],
];

fn gen_edges(t: &mut Tape, maxv: usize, loops: bool) -> Vec<(String, String)> {
    let names = NAME_POOLS[t.choose(NAME_POOLS.len())];
    let nv = 1 + t.choose(maxv);
    let ne = t.choose(nv * nv + 2);
    let mut es = Vec::new();
    for _ in 0..ne {
        let a = t.choose(nv);
        let b = t.choose(nv);
        if a == b && !loops {
            continue;
        }
        es.push((names[a].to_string(), names[b].to_string()));
        if t.chance(40) {
            es.push((names[b].to_string(), names[a].to_string())); // reversed duplicate
        }
        if t.chance(25) {
            es.push((names[a].to_string(), names[b].to_string())); // duplicate
        }
    }
    es
}

fn record(c: &Case, st: &mut Stats) {
    let j = c.to_json();
    match c {
        Case::Generate {
            vertices,
            edges,
            undirected,
            complete,
            dot,
            to_file,
        } => {
            st.evals(3);
            let max = if *undirected {
                vertices * vertices.saturating_sub(1) / 2
            } else {
                vertices * vertices.saturating_sub(1)
            };
            st.class(if *complete {
                "generate:complete"
            } else if *edges > max {
                "generate:infeasible"
            } else if *edges == max {
                "generate:exactly-all-edges"
            } else {
                "generate:feasible"
            });
            if *undirected {
                st.class("generate:-u");
            }
            if *dot {
                st.class("generate:--dot");
            }
            if *to_file {
                st.class("generate:-o file");
            }
            if *vertices >= 3 && (*complete || *edges >= 2) {
                if st.nontrivial(fnv_str(&j.to_string())) {
                    st.nt_sample(|| j.clone());
                }
            } else if st.want_sample() {
                st.sample(j);
            }
        }
        Case::Convert { input, undirected, .. } => {
            st.eval();
            st.class(if *undirected { "convert:-u" } else { "convert:directed" });
            if input.len() >= 2 && st.nontrivial(fnv_str(&j.to_string())) {
                st.nt_sample(|| j.clone());
            }
        }
        Case::Colors { input, colors, .. } => {
            st.eval();
            st.class(&format!("colors:k={}", colors));
            st.class(if k_colourable(input, *colors) { "colors:colourable" } else { "colors:not-colourable" });
            if input.len() >= 2 && st.nontrivial(fnv_str(&j.to_string())) {
                st.nt_sample(|| j.clone());
            }
        }
    }
}

pub fn run(ctx: &mut Ctx) -> Result<(), Violation> {
    ctx.rule = "cases = requests to the random_graph_gen binary built from the working tree. Generate: V in 0..12, E in 0..max+3 (feasible, exactly-all, infeasible), -u, --complete, --dot, -o file; each request is run three times (fresh samples) and only invariants that must hold for every sample are judged: exactly E distinct edges, endpoints distinct and within v0..v(V-1), with -u no pair in both orientations, --complete = all pairs, an infeasible request exits non-zero and writes no edge, a panic is never an acceptable refusal. \
                --convert: small edge lists (<= 6 vertices, duplicates, reversed duplicates) x -u x --dot against the documented merge. --colors k (1..4) on loop-free graphs of <= 5 vertices (name pools incl. names that are prefixes of one another such as v1/v10, a/ab/a_c0) and on generated graphs of up to 11 vertices piped back through --convert: brute-force k-colourability of the input <=> the output edge list has a clique with one vertex <v>_c<k> per input vertex (brute-force search). \
                Exhaustive stage: every (V, E) with V <= 5 and E <= max+2 x -u x --dot. Non-trivial = generate request with V >= 3 and >= 2 edges, convert/colour input with >= 2 edges; distinct by request."
        .to_string();
    ctx.assume("the distribution of the samples is not judged, only per-sample invariants");

    // exhaustive small requests
    let mut jobs: Vec<Case> = Vec::new();
    for vertices in 0..=5usize {
        for undirected in [false, true] {
            let max = if undirected { vertices * vertices.saturating_sub(1) / 2 } else { vertices * vertices.saturating_sub(1) };
            for edges in 0..=(max + 2) {
                for dot in [false, true] {
                    jobs.push(Case::Generate {
                        vertices,
                        edges,
                        undirected,
                        complete: false,
                        dot,
                        to_file: (vertices + edges) % 3 == 0,
                    });
                }
            }
            jobs.push(Case::Generate {
                vertices,
                edges: 0,
                undirected,
                complete: true,
                dot: false,
                to_file: false,
            });
        }
    }
    let r = par_jobs(ctx, &jobs, |c, st| {
        record(c, st);
        check_case(c)
    });
    ctx.stage("all-small-requests", true, r)?;

    // pipeline: a generated graph (up to 11 vertices, so that v1 / v10 coexist) fed back through --convert --colors
    let pipes: Vec<(usize, usize, usize)> = {
        let mut v = Vec::new();
        let reps = ctx.tier.pick(2usize, 20usize);
        for rep in 0..reps {
            for vertices in [3usize, 6, 11] {
                for colors in 1..=3usize {
                    v.push((vertices, colors, rep));
                }
            }
        }
        v
    };
    let r = par_jobs(ctx, &pipes, |(vertices, colors, rep), st| {
        let cj = json!({"kind": "pipeline", "vertices": vertices, "colors": colors});
        let ne = (vertices + rep) % (vertices * (vertices - 1) / 2 + 1);
        let out = run_tool(&[vertices.to_string(), ne.to_string(), "-u".to_string()]);
        if !out.ok() {
            return Err(Violation::new(format!("generation failed: {}", out.describe()), cj));
        }
        let input = parse_output(&out.out(), false, true).map_err(|e| Violation::new(e, cj.clone()))?;
        if input.is_empty() {
            return Ok(());
        }
        let c = Case::Colors {
            input,
            colors: *colors,
            undirected: true,
        };
        record(&c, st);
        st.class("colors:pipeline-from-generated-graph");
        check_case(&c)
    });
    ctx.stage("generated-graph-to-colouring-pipeline", false, r)?;

    let cases = ctx.tier.cases(1_000, 60_000);
    let r = par_random(ctx, "random-requests", cases, 120, |tape, st| {
        let mut t = Tape::new(tape);
        let c = match t.choose(4) {
            0 | 1 => {
                let vertices = t.choose(13);
                let undirected = t.flag();
                let max = if undirected { vertices * vertices.saturating_sub(1) / 2 } else { vertices * vertices.saturating_sub(1) };
                let edges = match t.choose(4) {
                    0 => max,
                    1 => max + 1 + t.choose(3),
                    _ => t.choose(max + 1),
                };
                Case::Generate {
                    vertices,
                    edges,
                    undirected,
                    complete: t.chance(40),
                    dot: t.chance(80),
                    to_file: t.chance(80),
                }
            }
            2 => Case::Convert {
                input: gen_edges(&mut t, 6, true),
                undirected: t.flag(),
                dot: t.chance(80),
            },
            _ => {
                let input = gen_edges(&mut t, 5, false);
                Case::Colors {
                    input,
                    colors: 1 + t.choose(4),
                    undirected: t.flag(),
                }
            }
        };
        if let Case::Colors { input, .. } = &c {
            if input.is_empty() {
                st.discarded += 1;
                return Ok(());
            }
        }
        record(&c, st);
        check_case(&c)
    });
    ctx.stage("random-requests", false, r)?;

    let mut wjobs: Vec<(usize, usize, usize, bool)> = Vec::new();
    for (i, n) in ctx.tier.pick(vec![12usize, 64, 65, 66, 70, 130], vec![12usize, 33, 63, 64, 65, 66, 67, 70, 100, 128, 129, 130, 200]).into_iter().enumerate() {
        for k in 2..=3usize {
            for shape in 0..3usize {
                for u in [false, true] {
                    if ctx.tier == Tier::Quick && (i + k + shape + u as usize) % 2 == 1 && n != 66 {
                        continue;
                    }
                    wjobs.push((n, k, shape, u));
                }
            }
        }
    }
    let seed = ctx.seed;
    let r = par_jobs(ctx, &wjobs, |(n, k, shape, u), st| {
        st.eval();
        let decided = check_colors_wide(*n, *k, *shape, *u, seed)?;
        st.class(if *n > 64 { "colors-wide:more-than-64-vertices" } else { "colors-wide:up-to-64-vertices" });
        st.class(if *shape == 2 { "colors-wide:planted-clique(not colourable)" } else { "colors-wide:planted-colouring" });
        if !decided {
            st.class("colors-wide:search-gave-up(inconclusive)");
            st.discarded += 1;
        } else if *n > 11 && st.nontrivial(fnv_str(&format!("{} {} {} {}", n, k, shape, u))) {
            st.nt_sample(|| json!({"kind": "colors-wide", "n": n, "k": k, "shape": shape, "undirected": u}));
        }
        Ok(())
    });
    ctx.stage("colours-on-graphs-with-planted-answers-60-to-130-vertices", true, r)?;
    Ok(())
}

// ---------------------------------------------------------------------------------------------
// --colors on graphs of 60..130 vertices: brute force over colourings is out of reach, so the input
// is built with a KNOWN answer - a planted proper colouring (answer: colourable) or a planted
// (k+1)-clique (answer: not colourable) - and the output is searched for a covering clique by
// back-tracking over the input vertices (planted clique first, then breadth-first along input edges).

/// deterministic sparse graph on n vertices: (edges, k-colourable?)
pub fn wide_colour_graph(n: usize, k: usize, shape: usize, seed: u64) -> (Vec<(String, String)>, bool) {
    let mut rng = util::Rng::new(seed ^ ((n as u64) << 20) ^ ((k as u64) << 8) ^ shape as u64);
    // vertex names in an order unrelated to their numbers, so that first-appearance ids differ from numbers
    let name = |i: usize| format!("n{}", (i * 37 + 11) % (n + 7) * 1000 + i);
    let mut col: Vec<usize> = (0..n).map(|i| i % k.max(1)).collect();
    for c in col.iter_mut() {
        if rng.below(4) == 0 {
            *c = rng.below(k.max(1));
        }
    }
    let mut es: Vec<(usize, usize)> = Vec::new();
    let mut push = |a: usize, b: usize, es: &mut Vec<(usize, usize)>| {
        if a != b && !es.contains(&(a, b)) && !es.contains(&(b, a)) {
            es.push((a, b));
        }
    };
    match shape % 3 {
        0 => {
            // a path, two-colourable along the path
            for i in 0..n {
                col[i] = i % 2;
            }
            for i in 0..n - 1 {
                push(i, i + 1, &mut es);
            }
        }
        _ => {
            // spanning chain of properly coloured steps plus ~n extra properly coloured edges, many of them long
            for i in 0..n - 1 {
                if col[i] != col[i + 1] {
                    push(i, i + 1, &mut es);
                }
            }
            for _ in 0..n {
                let a = rng.below(n);
                let b = if rng.below(2) == 0 { n - 1 - rng.below(n.min(6)) } else { rng.below(n) };
                if col[a] != col[b] {
                    push(a, b, &mut es);
                }
            }
        }
    }
    let mut colourable = k >= 2 || es.is_empty();
    if shape % 3 == 2 {
        // planted (k+1)-clique among late vertices: not k-colourable
        let q: Vec<usize> = (0..=k).map(|j| n - 1 - 2 * j).collect();
        for a in 0..q.len() {
            for b in 0..a {
                push(q[a], q[b], &mut es);
            }
        }
        colourable = false;
    }
    if rng.below(2) == 0 {
        es.reverse();
    }
    (es.into_iter().map(|(a, b)| if rng.below(2) == 0 { (name(a), name(b)) } else { (name(b), name(a)) }).collect(), colourable)
}

/// Back-tracking search for a clique of the output with one copy per input vertex. None = gave up.
fn search_covering_clique(output: &[(String, String)], input: &[(String, String)], k: usize, scheme: CopyScheme, budget: u64) -> Option<bool> {
    let vs = vertices_of(input);
    let n = vs.len();
    let idx: HashMap<&str, usize> = vs.iter().enumerate().map(|(i, s)| (s.as_str(), i)).collect();
    // output adjacency over (vertex, colour)
    let mut copy_of: HashMap<String, (usize, usize)> = HashMap::new();
    for (i, v) in vs.iter().enumerate() {
        for c in 0..k {
            copy_of.insert(copy_name(scheme, v, c), (i, c));
        }
    }
    let mut adj = vec![false; n * k * n * k];
    for (a, b) in output {
        if let (Some(&(i, c)), Some(&(j, d))) = (copy_of.get(a), copy_of.get(b)) {
            adj[(i * k + c) * n * k + (j * k + d)] = true;
            adj[(j * k + d) * n * k + (i * k + c)] = true;
        }
    }
    // order: highest input degree first, then breadth-first
    let mut nb: Vec<Vec<usize>> = vec![Vec::new(); n];
    for (a, b) in input {
        let (i, j) = (idx[a.as_str()], idx[b.as_str()]);
        nb[i].push(j);
        nb[j].push(i);
    }
    let mut order: Vec<usize> = Vec::new();
    let mut seen = vec![false; n];
    let mut starts: Vec<usize> = (0..n).collect();
    starts.sort_by_key(|i| std::cmp::Reverse(nb[*i].len()));
    for s0 in starts {
        if seen[s0] {
            continue;
        }
        let mut queue = std::collections::VecDeque::from([s0]);
        seen[s0] = true;
        while let Some(x) = queue.pop_front() {
            order.push(x);
            let mut ns = nb[x].clone();
            ns.sort_by_key(|i| std::cmp::Reverse(nb[*i].len()));
            for y in ns {
                if !seen[y] {
                    seen[y] = true;
                    queue.push_back(y);
                }
            }
        }
    }
    fn go(pos: usize, order: &[usize], chosen: &mut Vec<usize>, adj: &[bool], n: usize, k: usize, steps: &mut u64, budget: u64) -> Option<bool> {
        if pos == order.len() {
            return Some(true);
        }
        let v = order[pos];
        for c in 0..k {
            *steps += 1;
            if *steps > budget {
                return None;
            }
            let me = v * k + c;
            if chosen.iter().all(|o| adj[me * n * k + o]) {
                chosen.push(me);
                match go(pos + 1, order, chosen, adj, n, k, steps, budget) {
                    Some(true) => return Some(true),
                    None => return None,
                    Some(false) => {}
                }
                chosen.pop();
            }
        }
        Some(false)
    }
    if n == 1 {
        let present: BTreeSet<&String> = output.iter().flat_map(|(a, b)| [a, b]).collect();
        return Some((0..k).any(|c| present.contains(&copy_name(scheme, &vs[0], c))));
    }
    let mut steps = 0u64;
    go(0, &order, &mut Vec::new(), &adj, n, k, &mut steps, budget)
}

pub fn check_colors_wide(n: usize, k: usize, shape: usize, undirected: bool, seed: u64) -> Result<bool, Violation> {
    let cj = json!({"kind": "colors-wide", "n": n, "k": k, "shape": shape, "undirected": undirected, "seed": seed.to_string()});
    let v = |m: String| Violation::new(m, cj.clone());
    let (input, want) = wide_colour_graph(n, k, shape, seed);
    let scratch = cli::Scratch::new();
    let csv: String = input.iter().map(|(a, b)| format!("{},{}\n", a, b)).collect();
    let p = scratch.file(&cli::Scratch::awkward("in.csv"), csv.as_bytes());
    let mut args = vec!["--convert".to_string(), p.to_string_lossy().into_owned(), "--colors".to_string(), k.to_string()];
    if undirected {
        args.push("-u".into());
    }
    let out = run_tool(&args);
    if !out.ok() {
        return Err(v(format!("--colors failed: {}", out.describe())));
    }
    let es = parse_output(&out.out(), false, undirected).map_err(|e| v(e))?;
    let vs = vertices_of(&input);
    let scheme = copy_scheme(&es, &vs, k).map_err(|e| v(e))?;
    match search_covering_clique(&es, &input, k, scheme, 3_000_000) {
        None => Ok(false),
        Some(got) if got == want => Ok(true),
        Some(got) => Err(v(format!(
            "the input graph ({} vertices, {} edges, {}) {} {}-colourable but the output graph {} clique covering every input vertex",
            vs.len(),
            input.len(),
            if want { "built around a proper colouring" } else { "containing a planted clique of k+1 vertices" },
            if want { "is" } else { "is not" },
            k,
            if got { "has a" } else { "has no" }
        ))),
    }
}

pub fn replay(case: &Value) -> Check {
    if case["kind"].as_str() == Some("colors-wide") {
        let g = |k: &str| case[k].as_u64().map(|x| x as usize);
        return match (g("n"), g("k"), g("shape"), case["undirected"].as_bool(), case["seed"].as_str().and_then(|s| s.parse::<u64>().ok())) {
            (Some(n), Some(k), Some(sh), Some(u), Some(seed)) => check_colors_wide(n, k, sh, u, seed).map(|_| ()),
            _ => Err(Violation::new("unreadable replay case", case.clone())),
        };
    }
    match Case::from_json(case) {
        Some(c) => check_case(&c),
        None => Err(Violation::new("unreadable replay case", case.clone())),
    }
}

#[allow(dead_code)]
fn unused(_: BTreeMap<u8, u8>) {}
