//! C13 — environment history never changes results; handed-out diagrams stay valid.

use crate::dot;
use crate::engine::*;
use crate::ops::{self, Op, Oracle, Out};
use crate::plain;
use crate::tt::TT;
use crate::util::{fnv_str, Tape};
use rsbdd::bdd::{BDDEnv, BDD};
use rsbdd::bdd_io::BDDGraph;
use rsbdd::TruthTableEntry;
use serde_json::{json, Value};
use std::rc::Rc;

type B = Rc<BDD<usize>>;

fn env_invariants(env: &BDDEnv<usize>, live: &[B]) -> Result<(), String> {
    let nodes = env.nodes.borrow();
    match nodes.get(&BDD::True) {
        Some(t) if t.is_true() => {}
        _ => return Err("the environment does not contain the true leaf".into()),
    }
    match nodes.get(&BDD::False) {
        Some(t) if t.is_false() => {}
        _ => return Err("the environment does not contain the false leaf".into()),
    }
    for (k, v) in nodes.iter() {
        if k != v.as_ref() {
            return Err(format!(
                "unique-table entry maps structure {} to a different node {}",
                plain::render(k),
                plain::render(v)
            ));
        }
    }
    if env.size() != nodes.len() {
        return Err("size() disagrees with the unique table".into());
    }
    let mut seen = std::collections::HashSet::new();
    for h in live {
        let mut stack = vec![Rc::clone(h)];
        while let Some(n) = stack.pop() {
            if !seen.insert(Rc::as_ptr(&n)) {
                continue;
            }
            match nodes.get(n.as_ref()) {
                Some(e) if Rc::ptr_eq(e, &n) => {}
                Some(_) => {
                    return Err(format!(
                        "sub-diagram {} reachable from a result is a second allocation, not the environment's shared node",
                        plain::render(&n)
                    ))
                }
                None => {
                    return Err(format!(
                        "sub-diagram {} reachable from a result is not in the environment",
                        plain::render(&n)
                    ))
                }
            }
            if let BDD::Choice(t, _, f) = n.as_ref() {
                stack.push(Rc::clone(t));
                stack.push(Rc::clone(f));
            }
        }
    }
    Ok(())
}

fn dot_consistent(h: &B) -> Result<(), String> {
    let mut buf = Vec::new();
    BDDGraph::new(h, TruthTableEntry::Any)
        .render_dot(&mut buf)
        .map_err(|e| format!("render_dot failed: {}", e))?;
    let text = String::from_utf8(buf).map_err(|_| "DOT output is not UTF-8".to_string())?;
    let g = dot::parse(&text)?;
    let labels = g.well_formed()?;
    // test nodes = declared nodes with outgoing edges (identifiers are not interpreted)
    let tests = labels.keys().filter(|id| !g.out_edges(id).is_empty()).count();
    let sh = plain::invariants(h);
    if tests != sh.distinct_tests {
        return Err(format!(
            "DOT export declares {} test nodes but the diagram has {} structurally distinct tests",
            tests, sh.distinct_tests
        ));
    }
    Ok(())
}

pub fn check_history(opsv: &[Op], st: Option<&mut Stats>) -> Check {
    check_history_keep(opsv, 0, st)
}

/// `keep` = 0: every handle stays alive (and is re-inspected) for the whole history.
/// `keep` = k > 0: the caller drops every handle older than k steps; when a later operation
/// needs such a result again it is rebuilt in the same environment from its truth table
/// (a user who lets diagrams go out of scope and continues to use the environment).
pub fn check_history_keep(opsv: &[Op], keep: usize, mut st: Option<&mut Stats>) -> Check {
    // both public constructors give "an environment": half of the histories run in
    // BDDEnv::default() (a pure function of the case, so a replay takes the same one)
    let use_default = (opsv.len() + keep) % 2 == 1;
    let case = json!({"kind": "history", "ops": ops::ops_to_json(opsv), "keep": keep,
        "env_constructor(derived)": if use_default { "BDDEnv::default()" } else { "BDDEnv::new()" }});
    if !ops::well_formed(opsv) {
        return Err(Violation::new("HARNESS: malformed history", case));
    }
    let v = |m: String| Violation::new(m, case.clone());
    let mut old_reuse = 0u64;
    let r = guarded(&case.clone(), || {
        let ids: Vec<usize> = (0..ops::K).collect();
        let env: BDDEnv<usize> = if use_default { BDDEnv::default() } else { BDDEnv::new() };
        // before anything is computed the environment already holds the two leaves
        env_invariants(&env, &[]).map_err(|e| v(format!("in a just-created environment: {}", e)))?;
        let mut pool: Vec<B> = Vec::new();
        let mut alive: Vec<bool> = Vec::new();
        let mut tabs: Vec<TT> = Vec::new();
        let mut snaps: Vec<B> = Vec::new();
        let full_every = if opsv.len() > 80 { 16 } else { 1 };
        for (i, op) in opsv.iter().enumerate() {
            if keep > 0 {
                // drop old handles; rebuild the operands this step needs
                let placeholder_needed: Vec<usize> = (0..i).filter(|j| alive[*j] && i - j > keep).collect();
                for j in placeholder_needed {
                    alive[j] = false;
                }
                for j in op.operands() {
                    if !alive[j] {
                        pool[j] = plain::intern(&env, &tabs[j], &ids);
                        snaps[j] = plain::deep_clone(&pool[j]);
                        alive[j] = true;
                    }
                }
                // dead slots must not keep any node alive
                let dead: Vec<usize> = (0..i).filter(|j| !alive[*j]).collect();
                if !dead.is_empty() {
                    let ph: B = Rc::new(BDD::False);
                    for j in dead {
                        pool[j] = Rc::clone(&ph);
                        snaps[j] = Rc::clone(&ph);
                    }
                }
            }
            let what = format!("step {} {}", i, op.to_json());
            if op.operands().iter().any(|j| i - j > 5) {
                old_reuse += 1;
            }
            // (b) the same operation on operands rebuilt in a brand-new environment
            let fresh: BDDEnv<usize> = BDDEnv::new();
            let mut fpool: Vec<B> = vec![fresh.mk_const(false); i];
            for j in op.operands() {
                fpool[j] = plain::intern(&fresh, &tabs[j], &ids);
            }
            let out = ops::apply(&env, op, &pool);
            let fout = ops::apply(&fresh, op, &fpool);
            let orc = ops::oracle(op, &tabs);
            let res: B = match (out, fout) {
                (Out::Pair(a, b), Out::Pair(fa, fb)) => {
                    if (a, b) != (fa, fb) {
                        return Err(v(format!("{}: ({},{}) here but ({},{}) in a fresh environment", what, a, b, fa, fb)));
                    }
                    match orc {
                        // only the answer (true, true) is specified: exactly when the variable is forced true
                        Oracle::Pair(x, y) if ((x, y) == (true, true)) == ((a, b) == (true, true)) => {}
                        Oracle::Pair(x, y) => {
                            return Err(v(format!("{}: ({},{}) but the table model says ({},{})", what, a, b, x, y)))
                        }
                        _ => return Err(v("HARNESS: oracle kind".into())),
                    }
                    Rc::clone(&pool[op.operands()[0]])
                }
                (Out::Diagram(d), Out::Diagram(fd)) => {
                    if d.as_ref() != fd.as_ref() {
                        return Err(v(format!(
                            "{}: result {} differs from the result {} of the same operation in a fresh environment",
                            what,
                            plain::render(&d),
                            plain::render(&fd)
                        )));
                    }
                    let t = plain::table_usize(&d, &ids).map_err(|e| v(format!("{}: {}", what, e)))?;
                    match orc {
                        Oracle::Exact(want) => {
                            if t != want {
                                return Err(v(format!(
                                    "{}: table {} but the table model of the history gives {}",
                                    what,
                                    t.to_hex(),
                                    want.to_hex()
                                )));
                            }
                        }
                        Oracle::ModelOf(ft) => {
                            let ok = if ft.is_false() {
                                d.is_false()
                            } else {
                                t.as_cube().is_some() && t.leq(&ft)
                            };
                            if !ok {
                                return Err(v(format!("{}: not a satisfying cube of its operand", what)));
                            }
                        }
                        Oracle::RetainOf(f, ft) => {
                            let ok = if f == "t" { ft.leq(&t) } else { t.leq(&ft) };
                            if !ok {
                                return Err(v(format!("{}: not in the filter's direction of its operand", what)));
                            }
                        }
                        Oracle::Pair(..) => return Err(v("HARNESS: oracle kind".into())),
                    }
                    if let Op::Clean(a) = op {
                        if !Rc::ptr_eq(&d, &pool[*a]) {
                            return Err(v(format!("{}: clean returned a different node than the shared one", what)));
                        }
                    }
                    d
                }
                _ => return Err(v("HARNESS: output kinds differ".into())),
            };
            let t = plain::table_usize(&res, &ids).map_err(|e| v(format!("{}: {}", what, e)))?;
            snaps.push(plain::deep_clone(&res));
            tabs.push(t);
            pool.push(res);
            alive.push(true);

            // (c) every earlier handle still has its table and structure
            let check_all = i % full_every == 0 || i + 1 == opsv.len();
            let range: Vec<usize> = if check_all {
                (0..pool.len()).collect()
            } else {
                op.operands()
            };
            for j in range {
                if !alive[j] {
                    continue;
                }
                if pool[j].as_ref() != snaps[j].as_ref() {
                    return Err(v(format!(
                        "after {}: handle {} changed from {} to {}",
                        what,
                        j,
                        plain::render(&snaps[j]),
                        plain::render(&pool[j])
                    )));
                }
                if check_all {
                    let tj = plain::table_usize(&pool[j], &ids).map_err(|e| v(e))?;
                    if tj != tabs[j] {
                        return Err(v(format!("after {}: handle {} denotes another function", what, j)));
                    }
                }
            }
            // (d) environment invariants
            if check_all {
                let live: Vec<B> = pool.iter().zip(alive.iter()).filter(|(_, a)| **a).map(|(h, _)| Rc::clone(h)).collect();
                env_invariants(&env, &live).map_err(|e| v(format!("after {}: {}", what, e)))?;
            }
        }
        // node_list(): every entry is the environment's own node, and the distinct entries are
        // exactly the reachable nodes (leaves included)
        for (j, h) in pool.iter().enumerate() {
            if !alive[j] || j % 4 != 0 {
                continue;
            }
            let listed = h.node_list();
            let reach = plain::reachable(h);
            let nodes = env.nodes.borrow();
            let mut distinct = std::collections::HashSet::new();
            for n in &listed {
                match nodes.get(n.as_ref()) {
                    Some(e) if Rc::ptr_eq(e, n) => {}
                    _ => return Err(v(format!("node_list of handle {} contains a node that is not the environment's shared node", j))),
                }
                distinct.insert(Rc::as_ptr(n));
            }
            if distinct.len() != reach.len() {
                return Err(v(format!(
                    "node_list of handle {} has {} distinct nodes, {} are reachable",
                    j,
                    distinct.len(),
                    reach.len()
                )));
            }
        }
        // (e) exported node identities are consistent for every handle
        for (j, h) in pool.iter().enumerate() {
            if alive[j] && (j % 3 == 0 || j + 1 == pool.len()) {
                dot_consistent(h).map_err(|e| v(format!("DOT export of handle {}: {}", j, e)))?;
            }
        }
        Ok(())
    });
    if let Some(st) = st.as_deref_mut() {
        st.class_n("steps-reusing-handle-older-than-5", old_reuse);
    }
    r
}

fn record(opsv: &[Op], st: &mut Stats) {
    st.eval();
    st.class_n("operations", opsv.len() as u64);
    let mut kinds: Vec<String> = opsv.iter().map(|o| o.name()).collect();
    kinds.sort();
    kinds.dedup();
    for k in &kinds {
        st.class(&format!("history-with:{}", k));
    }
    let old = opsv
        .iter()
        .enumerate()
        .any(|(i, o)| o.operands().iter().any(|j| i - j > 5));
    let j = ops::ops_to_json(opsv);
    if opsv.len() >= 10 && old {
        if st.nontrivial(fnv_str(&j.to_string())) {
            st.nt_sample(|| json!({"history": j}));
        }
    } else if st.want_sample() {
        st.sample(json!({"history": j}));
    }
}

pub fn run(ctx: &mut Ctx) -> Result<(), Violation> {
    ctx.rule = "cases = operation histories over one BDDEnv<usize> (vocabulary: const var not and or implies eq xor nor nand ite exists all exists-of-one-variable aln amn exn count_leq/lt/geq/gt/eq fp model retain clean infer; operands are indices of ALL earlier results, ids 0..6) decoded from a proptest byte tape, \
                plus histories of formula evaluations sharing one BDDEnv<NamedSymbol> under a common ordering. After every step: (a) result table == table model of the step; (b) result `==` the result of the same operation on operands re-interned in a brand-new environment; \
                (c) every earlier handle keeps its structure and table; (d) the unique table contains both leaves, maps each structure to itself, and every sub-diagram reachable from any handle is that very allocation (Rc::ptr_eq); (e) DOT export declares exactly the structurally distinct tests and references only declared ids. \
                A second mode lets the caller drop every handle older than k (1..4) steps, with extra `clean` calls, rebuilding dropped operands from their truth tables in the same environment. Thorough adds histories of up to 300 operations and the libFuzzer target `history`. Non-trivial = history of >= 10 operations in which a handle older than 5 steps is used again; distinct by operation list."
        .to_string();
    ctx.rule.push_str(" Wide histories: 2..6 expressions over one wide layout (see below), most of them near copies of an earlier one (one literal flipped, dropped or added near the bottom of a long cube / clause), evaluated through var/not/and/or/xor/eq/implies/ite in ONE environment - in a share of the cases an environment that already holds 2^16 or 2^17+ unrelated nodes; every result must be the reference function, structurally identical to the result in a fresh environment, made of shared nodes, and every earlier result must keep its function; equal functions must be one node, different ones must compare unequal. ");
    ctx.rule.push_str(crate::wide::RULE);
    ctx.assume("all handles given to an environment were produced by that environment (the library's precondition)");
    ctx.assume("formulas sharing an environment use one common ordering covering all their names (ids must mean the same name)");

    let cases = ctx.tier.cases(20_000, 300_000);
    let max_ops = ctx.tier.pick(60, 120);
    let r = par_random(ctx, "histories", cases, 600, |tape, st| {
        let mut t = Tape::new(tape);
        let opsv = ops::gen_ops(&mut t, max_ops);
        record(&opsv, st);
        check_history(&opsv, Some(st))
    });
    ctx.stage("random-histories", false, r)?;

    // the caller lets handles go out of scope (and cleans more often)
    let cases = ctx.tier.cases(20_000, 300_000);
    let r = par_random(ctx, "dropping-handles", cases, 600, |tape, st| {
        let mut t = Tape::new(tape);
        let keep = 1 + t.choose(4);
        let opsv = ops::gen_ops_with(&mut t, max_ops, 8);
        record(&opsv, st);
        st.class(&format!("keep-last-{}-handles", keep));
        check_history_keep(&opsv, keep, Some(st))
    });
    ctx.stage("random-histories-dropping-old-handles", false, r)?;
    let wc = ctx.tier.cases(2_000, 80_000);
    crate::wide::stage_history(ctx, "wide-histories-of-near-copies", wc)?;
    crate::wide::fuzz_kind(ctx, "history", replay)?;

    if ctx.tier == Tier::Thorough {
        let r = par_random(ctx, "long-histories", 3_000, 3000, |tape, st| {
            let mut t = Tape::new(tape);
            let opsv = ops::gen_ops(&mut t, 300);
            record(&opsv, st);
            check_history(&opsv, Some(st))
        });
        ctx.stage("random-long-histories", false, r)?;
    }

    if ctx.tier == Tier::Thorough {
        let r = fuzz_stage(ctx, "history", 300_000, 600, &[vec![0u8; 16], (0..=255u8).collect()], replay);
        ctx.stage("libfuzzer-history", false, r)?;
    }
    crate::props::c13b::run_shared_formulas(ctx)?;
    Ok(())
}

pub fn replay(case: &Value) -> Check {
    if let Some(r) = crate::wide::replay(case) {
        return r;
    }
    match case["kind"].as_str() {
        Some("history") => match ops::ops_from_json(&case["ops"]) {
            Some(o) => check_history_keep(&o, case["keep"].as_u64().unwrap_or(0) as usize, None),
            None => Err(Violation::new("unreadable replay case", case.clone())),
        },
        Some("shared-formulas") => crate::props::c13b::replay(case),
        _ => Err(Violation::new("unreadable replay case", case.clone())),
    }
}
