//! C08 — the parser accepts exactly the grammar and builds the tree it prescribes.

use crate::engine::*;
use crate::front;
use crate::gen::{self, Cfg};
use crate::rast::{self, RAst};
use crate::rlex::{self, Tok};
use crate::rparse::Parser;
use crate::rprint;
use crate::util::{self, fnv, Tape};
use rsbdd::parser::SymbolicBDD;
use serde_json::{json, Value};
use std::io::BufReader;

pub struct Diff {
    pub accepted: bool,
    pub ntokens: usize,
    /// tokens consumed by the reference parser before it rejected (0 when accepted)
    pub error_pos: usize,
}

fn text_json(text: &[u8]) -> Value {
    match std::str::from_utf8(text) {
        Ok(s) => json!({"kind": "text", "text": s}),
        Err(_) => json!({"kind": "bytes", "bytes": text}),
    }
}

pub fn case_bytes(case: &Value) -> Option<Vec<u8>> {
    if let Some(s) = case["text"].as_str() {
        return Some(s.as_bytes().to_vec());
    }
    case["bytes"]
        .as_array()
        .map(|a| a.iter().filter_map(|x| x.as_u64().map(|u| u as u8)).collect())
}

/// Differential oracle on one input text: tokens, acceptance, tree.
pub fn diff_text(text: &[u8]) -> Result<Diff, Violation> {
    let cj = text_json(text);
    let v = |m: String| Violation::new(m, cj.clone());

    // --- lexer
    let ref_tokens: Result<Vec<Tok>, String> = match std::str::from_utf8(text) {
        Ok(s) => rlex::lex(s),
        Err(_) => Err("not UTF-8".into()),
    };
    let impl_tokens = util::catch(|| {
        let mut rd = BufReader::new(text);
        SymbolicBDD::tokenize(&mut rd, None)
    });
    match (&ref_tokens, &impl_tokens) {
        (_, Err(p)) => {
            return Err(v(format!("tokenize panicked: {}", p)).sig(format!("panic:{}", p.split(" @ ").next().unwrap_or(""))))
        }
        (Ok(rt), Ok(Ok(it))) => {
            let it2: Vec<Tok> = it.iter().map(rlex::from_impl).collect();
            if &it2 != rt {
                let i = (0..std::cmp::max(it2.len(), rt.len()))
                    .find(|i| it2.get(*i) != rt.get(*i))
                    .unwrap_or(0);
                return Err(v(format!(
                    "token {} differs: tokenizer gives {:?}, the lexical rules give {:?}",
                    i,
                    it2.get(i),
                    rt.get(i)
                )));
            }
        }
        (Ok(_), Ok(Err(e))) => {
            let t = String::from_utf8_lossy(text);
            return Err(front::rejection(&t, "tokenizer: lexically valid text", &e.to_string(), &cj));
        }
        (Err(e), Ok(Ok(_))) => return Err(v(format!("tokenizer accepts a text the lexical rules reject ({})", e))),
        (Err(_), Ok(Err(_))) => {}
    }

    // --- parser
    let mut pos = 0usize;
    let mut ntokens = 0usize;
    let reference: Result<RAst, String> = match &ref_tokens {
        Ok(toks) => {
            ntokens = toks.len() - 1;
            let mut p = Parser::new(toks);
            let r = p.formula();
            if r.is_err() {
                pos = p.position();
            }
            r
        }
        Err(e) => Err(e.clone()),
    };
    let implementation = util::catch(|| front::parse(text, None));
    match (reference, implementation) {
        (_, Err(p)) => Err(v(format!("parser panicked: {}", p)).sig(format!("panic:{}", p.split(" @ ").next().unwrap_or("")))),
        (Err(_), Ok(Err(_))) => Ok(Diff {
            accepted: false,
            ntokens,
            error_pos: pos,
        }),
        (Err(e), Ok(Ok(pf))) => Err(v(format!(
            "not a sentence of the grammar ({}), yet accepted as {:?}",
            e,
            rast::from_symbolic(&pf.bdd).map(|a| rprint::plain(&a))
        ))
        .sig("accepted-non-sentence")),
        (Ok(a), Ok(Err(e))) => {
            let t = String::from_utf8_lossy(text);
            Err(front::rejection(&t, &format!("sentence `{}`", rprint::plain(&a)), &e, &cj))
        }
        (Ok(a), Ok(Ok(pf))) => {
            let got = rast::from_symbolic(&pf.bdd).map_err(|e| v(e))?;
            if got != a {
                return Err(v(format!(
                    "parsed as `{}` but the grammar assigns `{}`",
                    rprint::plain(&got),
                    rprint::plain(&a)
                )));
            }
            Ok(Diff {
                accepted: true,
                ntokens,
                error_pos: 0,
            })
        }
    }
}

/// The ordering only numbers variables: with ANY ordering (also one whose names look like
/// keywords, numbers or symbols) the token sequence, by name, and the accept/reject verdict
/// must be what they are without one.
pub fn ordering_invariance(text: &[u8], names: &[String]) -> Check {
    let cj = json!({"kind": "with-ordering", "text": String::from_utf8_lossy(text), "ordering": names});
    let v = |m: String| Violation::new(m, cj.clone());
    let ord: Vec<rsbdd::NamedSymbol> = names.iter().enumerate().map(|(i, n)| front::sym(n, i * 2 + 1)).collect();
    let plain = util::catch(|| {
        let mut rd = BufReader::new(text);
        SymbolicBDD::tokenize(&mut rd, None)
    });
    let o = ord.clone();
    let with = util::catch(|| {
        let mut rd = BufReader::new(text);
        SymbolicBDD::tokenize(&mut rd, Some(o))
    });
    match (plain, with) {
        (Err(p), _) | (_, Err(p)) => return Err(v(format!("tokenize panicked: {}", p))),
        (Ok(Ok(a)), Ok(Ok(b))) => {
            let a2: Vec<Tok> = a.iter().map(rlex::from_impl).collect();
            let b2: Vec<Tok> = b.iter().map(rlex::from_impl).collect();
            if a2 != b2 {
                let i = (0..std::cmp::max(a2.len(), b2.len())).find(|i| a2.get(*i) != b2.get(*i)).unwrap_or(0);
                return Err(v(format!(
                    "with the ordering {:?} token {} is {:?} instead of {:?}: an ordering must not change how the text is tokenised",
                    names,
                    i,
                    b2.get(i),
                    a2.get(i)
                )));
            }
        }
        (Ok(Err(_)), Ok(Err(_))) => {}
        (Ok(a), Ok(b)) => {
            return Err(v(format!("tokenize is {} without and {} with the ordering", if a.is_ok() { "Ok" } else { "Err" }, if b.is_ok() { "Ok" } else { "Err" })))
        }
    }
    let p1 = util::catch(|| front::parse(text, None).map(|pf| rast::from_symbolic(&pf.bdd)));
    let p2 = util::catch(|| front::parse(text, Some(ord)).map(|pf| rast::from_symbolic(&pf.bdd)));
    match (p1, p2) {
        (Err(p), _) | (_, Err(p)) => Err(v(format!("parser panicked: {}", p))),
        (Ok(Ok(a)), Ok(Ok(b))) if a == b => Ok(()),
        (Ok(Err(_)), Ok(Err(_))) => Ok(()),
        (Ok(a), Ok(b)) => Err(v(format!(
            "the parse differs with the ordering {:?}: {:?} vs {:?}",
            names,
            a.map(|x| x.map(|t| rprint::plain(&t))),
            b.map(|x| x.map(|t| rprint::plain(&t)))
        ))),
    }
}

const ORDERING_NAMES: [&str; 16] = ["a", "b", "x1", "in", "and", "true", "exists", "lfp", "not", "if", "1", "12", "a'", "&", "", "\u{e9}"];

fn record(text: &[u8], d: &Diff, st: &mut Stats) {
    st.eval();
    if d.accepted {
        st.class("accepted");
    } else {
        st.class("rejected");
    }
    let nt = (d.accepted && d.ntokens >= 3) || (!d.accepted && d.error_pos >= 2);
    if !d.accepted && d.error_pos >= 2 {
        st.class("near-miss(rejected after a valid prefix >= 2 tokens)");
    }
    if nt {
        if st.nontrivial(fnv(text)) {
            st.nt_sample(|| text_json(text));
        }
    } else if st.want_sample() {
        st.sample(text_json(text));
    }
}

pub const ALPHABET: [&str; 33] = [
    "a", "b", "0", "2", "{r}", "&", "|", "-", "^", "nor", "nand", "=>", "<=", "<=>", "if", "then", "else", "exists",
    "forall", "=", ">=", ">", "<", "(", ")", "[", "]", ",", "false", "true", "lfp", "gfp", "#",
];

pub const REDUCED: [&str; 19] = [
    "a", "1", "&", "-", "<=", "if", "then", "else", "exists", "=", "(", ")", "[", "]", ",", "true", "lfp", "#", "=>",
];

pub const TINY: [&str; 9] = ["a", "&", "-", "(", ")", "[", "]", ">=", "1"];

fn seq_text(alpha: &[&str], mut idx: u64, len: usize) -> String {
    let n = alpha.len() as u64;
    let mut parts = Vec::with_capacity(len);
    for _ in 0..len {
        parts.push(alpha[(idx % n) as usize]);
        idx /= n;
    }
    parts.join(" ")
}

const LEX_CHARS: [char; 18] = [
    '<', '=', '>', '-', '!', '&', '|', 'a', '1', '\'', '"', '{', '}', '_', ' ', '\u{e9}', '\u{663}', '\\',
];

pub const SPELLINGS: [&str; 66] = [
    "a", "b", "x1", "a'", "_", "\u{e9}", "0", "1", "2", "007", "18446744073709551615", "{r}", "{a'}", "&", "*", "and",
    "|", "+", "or", "-", "!", "not", "^", "xor", "nor", "nand", "=>", "implies", "in", "<=", "<=>", "iff", "eq", "if",
    "then", "else", "exists", "any", "forall", "all", "=", ">=", ">", "<", "(", ")", "[", "]", ",", "false", "true",
    "lfp", "mu", "gfp", "nu", "#", "\"c\"", "@", "$", "{", "}", "\"", "mand", "nott", "\\", "\"x\\\"",
];

fn mutate_tokens(words: &mut Vec<String>, t: &mut Tape) {
    let n = 1 + t.choose(3);
    for _ in 0..n {
        if words.is_empty() {
            words.push(SPELLINGS[t.choose(SPELLINGS.len())].to_string());
            continue;
        }
        let i = t.choose(words.len());
        match t.choose(6) {
            0 => {
                words.remove(i);
            }
            1 => words.insert(i, SPELLINGS[t.choose(SPELLINGS.len())].to_string()),
            2 => words[i] = SPELLINGS[t.choose(SPELLINGS.len())].to_string(),
            3 => {
                let j = t.choose(words.len());
                words.swap(i, j);
            }
            4 => {
                let w = words[i].clone();
                words.insert(i, w);
            }
            _ => words.truncate(i),
        }
    }
}

fn repo_texts() -> Vec<String> {
    let mut v = Vec::new();
    for dir in ["/repo/tests/data", "/repo/examples"] {
        if let Ok(rd) = std::fs::read_dir(dir) {
            let mut paths: Vec<_> = rd.filter_map(|e| e.ok().map(|e| e.path())).collect();
            paths.sort();
            for p in paths {
                if p.extension().map(|e| e == "txt").unwrap_or(false) {
                    if let Ok(s) = std::fs::read_to_string(&p) {
                        if s.len() < 20_000 {
                            v.push(s);
                        }
                    }
                }
            }
        }
    }
    v
}

pub fn run(ctx: &mut Ctx) -> Result<(), Violation> {
    ctx.rule = "cases = input texts. (1) bounded-exhaustive: every sequence of <= L tokens over the full 33-token alphabet (a b 0 2 {r} & | - ^ nor nand => <= <=> if then else exists forall = >= > < ( ) [ ] , false true lfp gfp #), L = 4 quick / 5 thorough, every sequence of exactly 5 (quick) / 6 (thorough) tokens over a reduced 19-token alphabet, and (thorough) of exactly 8 tokens over a 9-token alphabet, space separated; \
                (2) lexer: every string of <= 5 characters over `< = > - ! & | a 1 ' \" { } _ space e-acute arabic-three backslash`, and every string of <= 2 (thorough 3) characters over all of ASCII plus six non-ASCII characters placed between two identifiers; (3) random token soups over all spellings/aliases/decoys, generated valid formulas under 1-3 token-level mutations (delete, insert, replace, swap, duplicate, truncate), decorated renderings of valid formulas, and the repository's formula files with mutations. \
                Oracle: reference lexer + LL(1) recursive-descent parser without back-tracking (harness code): tokens equal one by one; reference rejects <=> ParsedFormula::new returns Err; when both accept the trees are structurally equal (variables by name, list lengths, operator kinds, numbers); a panic is a violation. \
                A share of the random texts is additionally tokenised and parsed under an ordering whose names include keyword-like, number-like and empty names: the ordering must not change tokens (by name) or the verdict. Non-trivial = accepted with >= 3 tokens, or rejected only after a valid prefix of >= 2 tokens; distinct by text."
        .to_string();
    ctx.assume("the reference grammar was derived from README.md and from reading the parser; agreement on the unchanged tree is partly by construction, the check's value is regression detection and grammar-level sanity (LL(1), no back-tracking)");

    // (1) bounded exhaustive token sequences
    let lmax = ctx.tier.pick(4usize, 5usize);
    for len in 0..=lmax {
        let n = (ALPHABET.len() as u64).pow(len as u32);
        let r = par_exhaustive(ctx, n, |i, st| {
            let text = seq_text(&ALPHABET, i, len);
            let d = diff_text(text.as_bytes())?;
            record(text.as_bytes(), &d, st);
            Ok(())
        });
        ctx.stage(&format!("all-token-sequences-len{}-alphabet33", len), true, r)?;
    }
    // reduced alphabets reach longer sequences
    let plans: Vec<(&[&str], usize)> = match ctx.tier {
        Tier::Quick => vec![(&REDUCED[..], 5)],
        Tier::Thorough => vec![(&REDUCED[..], 6), (&TINY[..], 8)],
    };
    for (alpha, len) in plans {
        let n = (alpha.len() as u64).pow(len as u32);
        let r = par_exhaustive(ctx, n, |i, st| {
            let text = seq_text(alpha, i, len);
            let d = diff_text(text.as_bytes())?;
            record(text.as_bytes(), &d, st);
            Ok(())
        });
        ctx.stage(&format!("all-token-sequences-len{}-alphabet{}", len, alpha.len()), true, r)?;
    }

    // (2) lexer: all short character strings
    let clen = 5usize;
    let mut total = 0u64;
    for l in 0..=clen {
        total += (LEX_CHARS.len() as u64).pow(l as u32);
    }
    let r = par_exhaustive(ctx, total, |mut i, st| {
        let mut len = 0usize;
        loop {
            let n = (LEX_CHARS.len() as u64).pow(len as u32);
            if i < n {
                break;
            }
            i -= n;
            len += 1;
        }
        let mut s = String::new();
        for _ in 0..len {
            s.push(LEX_CHARS[(i % LEX_CHARS.len() as u64) as usize]);
            i /= LEX_CHARS.len() as u64;
        }
        let d = diff_text(s.as_bytes())?;
        st.eval();
        st.class("lexer-string");
        if d.ntokens >= 2 && st.nontrivial(fnv(s.as_bytes())) {
            st.nt_sample(|| json!({"kind": "text", "text": s}));
        }
        Ok(())
    });
    ctx.stage("all-strings-len<=5-lexer-alphabet18", true, r)?;

    // (2b) every string of <= 2 (thorough 3) characters over ALL of ASCII plus a few non-ASCII characters
    let mut full: Vec<char> = (0u8..128).map(|b| b as char).collect();
    full.extend(['\u{e9}', '\u{663}', '\u{b2}', '\u{20ac}', '\u{301}', '\u{200d}']);
    let flen = ctx.tier.pick(2usize, 3usize);
    let mut total = 0u64;
    for l in 0..=flen {
        total += (full.len() as u64).pow(l as u32);
    }
    let r = par_exhaustive(ctx, total, |mut i, st| {
        let mut len = 0usize;
        loop {
            let n = (full.len() as u64).pow(len as u32);
            if i < n {
                break;
            }
            i -= n;
            len += 1;
        }
        let mut s = String::new();
        for _ in 0..len {
            s.push(full[(i % full.len() as u64) as usize]);
            i /= full.len() as u64;
        }
        // embedded between two identifiers so that separators / comments show their effect
        let text = format!("a{}b", s);
        let d = diff_text(text.as_bytes())?;
        st.eval();
        st.class("full-ascii-string-between-identifiers");
        if d.ntokens >= 2 && st.nontrivial(fnv(text.as_bytes())) {
            st.nt_sample(|| json!({"kind": "text", "text": text}));
        }
        Ok(())
    });
    ctx.stage(&format!("all-strings-len<={}-full-ascii-between-identifiers", flen), true, r)?;

    // (3a) repo files and their mutations
    let files = repo_texts();
    let nmut = ctx.tier.pick(200u64, 5000u64);
    let r = par_exhaustive(ctx, files.len() as u64 * nmut, |i, st| {
        let f = &files[(i / nmut) as usize];
        let m = i % nmut;
        let text = if m == 0 {
            f.clone()
        } else {
            let bytes = util::Rng::new(ctx.seed ^ i).bytes(16);
            let mut t = Tape::new(&bytes);
            let mut words: Vec<String> = f.split_whitespace().map(|s| s.to_string()).collect();
            mutate_tokens(&mut words, &mut t);
            words.join(" ")
        };
        let d = diff_text(text.as_bytes())?;
        st.eval();
        st.class(if d.accepted { "repo-file-variant-accepted" } else { "repo-file-variant-rejected" });
        if st.nontrivial(fnv(text.as_bytes())) && text.len() < 300 {
            st.nt_sample(|| json!({"kind": "text", "text": text}));
        }
        Ok(())
    });
    ctx.stage("repo-formula-files-and-mutations", false, r)?;

    // (3a') large texts: 1 KiB .. 300 KiB (thorough 1.2 MiB), separators of every kind between the tokens
    let mut ljobs: Vec<(usize, usize, usize, usize)> = Vec::new();
    for (entries, flen) in ctx.tier.pick(
        vec![(10usize, 60usize), (80, 100), (80, 1000), (30, 5000), (200, 1500)],
        vec![(10usize, 60usize), (80, 50), (80, 100), (80, 1000), (30, 5000), (200, 1500), (9, 8000), (17, 65000), (300, 4000)],
    ) {
        for filler in 0..5usize {
            for shape in 0..3usize {
                ljobs.push((entries, filler, flen, shape));
            }
        }
    }
    let r = par_jobs(ctx, &ljobs, |(entries, filler, flen, shape), st| {
        let text = large_text(*entries, *filler, *flen, *shape);
        st.eval();
        st.class(match text.len() {
            0..=4095 => "large-text<4KiB",
            4096..=8191 => "large-text 4..8KiB",
            8192..=65535 => "large-text 8..64KiB",
            _ => "large-text>=64KiB",
        });
        let cj = json!({"kind": "large-text", "entries": entries, "filler": filler, "filler_len": flen, "shape": shape});
        if text.len() >= 4096 && st.nontrivial(fnv(cj.to_string().as_bytes())) {
            st.nt_sample(|| cj.clone());
        }
        let d = diff_text(text.as_bytes()).map_err(|mut v| {
            // keep the replay file small: the text is regenerated from its parameters
            v.case = cj.clone();
            v
        })?;
        if !d.accepted {
            return Err(Violation::new("HARNESS: a generated large text is not a sentence".to_string(), cj));
        }
        Ok(())
    });
    ctx.stage("large-texts-with-long-separators", true, r)?;

    // (3b) random soups, mutated valid formulas, decorated valid formulas
    let cases = ctx.tier.cases(150_000, 6_000_000);
    let r = par_random(ctx, "random-texts", cases, 200, |tape, st| {
        let mut t = Tape::new(tape);
        let text: String = match t.choose(4) {
            0 => {
                let n = t.choose(41);
                let mut s = String::new();
                for _ in 0..n {
                    s.push_str(SPELLINGS[t.choose(SPELLINGS.len())]);
                    s.push_str(["", " ", " ", "\n"][t.choose(4)]);
                }
                st.class("gen:token-soup");
                s
            }
            1 | 2 => {
                let mut cfg = Cfg::standard(4, 1 + t.choose(4));
                cfg.allow_ref = true;
                let ast = gen::formula(&mut t, &cfg);
                let mut words: Vec<String> = rprint::plain(&ast).split(' ').map(|s| s.to_string()).collect();
                mutate_tokens(&mut words, &mut t);
                st.class("gen:mutated-valid-formula");
                words.join(" ")
            }
            _ => {
                let mut cfg = Cfg::standard(5, 1 + t.choose(5));
                cfg.allow_ref = true;
                let ast = gen::formula(&mut t, &cfg);
                st.class("gen:decorated-valid-formula");
                let text = rprint::decorated(&ast, &mut t);
                crate::props::c01::self_check(&ast, &text)?;
                text
            }
        };
        let d = diff_text(text.as_bytes())?;
        record(text.as_bytes(), &d, st);
        if t.chance(90) {
            // the same text under an ordering (names incl. keyword-like and number-like ones)
            let n = 1 + t.choose(5);
            let mut names: Vec<String> = Vec::new();
            for _ in 0..n {
                let c = ORDERING_NAMES[t.choose(ORDERING_NAMES.len())].to_string();
                if !names.contains(&c) {
                    names.push(c);
                }
            }
            st.class("also-tokenised-under-an-ordering");
            ordering_invariance(text.as_bytes(), &names)?;
        }
        Ok(())
    });
    ctx.stage("random-soups-mutations-decorations", false, r)?;
    if ctx.tier == Tier::Thorough {
        let seeds: Vec<Vec<u8>> = repo_texts().into_iter().filter(|s| s.len() < 4000).map(|s| s.into_bytes()).collect();
        let r = fuzz_stage(ctx, "parse_diff", 3_000_000, 400, &seeds, replay);
        ctx.stage("libfuzzer-parse_diff", false, r)?;
    }
    Ok(())
}

/// A sentence blown up to `~ entries * filler_len` bytes by separators the lexical rules define as
/// such: comments (with line breaks, spaces, token-like words inside), white-space runs, stray characters.
pub fn large_text(entries: usize, filler: usize, filler_len: usize, shape: usize) -> String {
    let fill = |i: usize| -> String {
        let n = filler_len + (i * 13) % 17;
        match filler % 5 {
            0 => format!("\"{}\n| z\"", " ".repeat(n)),
            1 => format!("\"{}\"", "x".repeat(n)),
            2 => format!("{}\n{}", " ".repeat(n / 2), "\t".repeat(n / 2)),
            3 => format!("\"{}\"", "& y\n".repeat(n / 4 + 1)),
            _ => format!(" {} ", "\u{a7}$@".repeat(n / 4 + 1)),
        }
    };
    let mut out = String::new();
    match shape % 3 {
        0 => {
            out.push('[');
            for i in 0..entries {
                out.push_str(&format!("x{}", i));
                if i + 1 < entries {
                    out.push(',');
                }
                out.push_str(&fill(i));
            }
            out.push_str("] >= 1");
        }
        1 => {
            for i in 0..entries {
                out.push_str(&format!("x{} ", i));
                out.push_str(&fill(i));
                out.push_str(if i + 1 < entries { ["&", "|", "=>", "^"][i % 4] } else { "" });
                out.push_str(&fill(i + 1));
            }
        }
        _ => {
            out.push_str("exists ");
            for i in 0..entries {
                out.push_str(&format!("x{}", i));
                out.push_str(&fill(i));
                if i + 1 < entries {
                    out.push(',');
                }
            }
            out.push_str(&format!(" # x0 {} & x{}", fill(3), entries - 1));
        }
    }
    out
}

pub fn replay(case: &Value) -> Check {
    if case["kind"].as_str() == Some("large-text") {
        let g = |k: &str| case[k].as_u64().map(|x| x as usize);
        return match (g("entries"), g("filler"), g("filler_len"), g("shape")) {
            (Some(e), Some(f), Some(l), Some(sh)) => diff_text(large_text(e, f, l, sh).as_bytes()).map(|_| ()),
            _ => Err(Violation::new("unreadable replay case", case.clone())),
        };
    }
    if case["kind"].as_str() == Some("with-ordering") {
        let names: Vec<String> = case["ordering"].as_array().map(|a| a.iter().filter_map(|x| x.as_str().map(|s| s.to_string())).collect()).unwrap_or_default();
        return match case["text"].as_str() {
            Some(t) => ordering_invariance(t.as_bytes(), &names),
            None => Err(Violation::new("unreadable replay case", case.clone())),
        };
    }
    match case_bytes(case) {
        Some(b) => diff_text(&b).map(|_| ()),
        None => Err(Violation::new("unreadable replay case", case.clone())),
    }
}
