//! C07 — model extraction returns one genuine satisfying cube; infer; `rsbdd -m -t`.

use crate::cli;
use crate::engine::*;
use crate::front;
use crate::fun::{gen_fun, Fun};
use crate::plain;
use crate::tt::TT;
use crate::util::{fnv_str, Tape};
use rsbdd::bdd::{BDDEnv, BDD};
use serde_json::{json, Value};
use std::rc::Rc;
use std::time::Duration;

fn single_path(m: &BDD<usize>) -> bool {
    match m {
        BDD::True => true,
        BDD::False => false,
        BDD::Choice(t, _, f) => match (t.as_ref(), f.as_ref()) {
            (BDD::False, other) | (other, BDD::False) => single_path(other),
            _ => false,
        },
    }
}

/// does f's diagram contain a test whose true-branch is unsatisfiable (the False leaf)?
fn forces_else(b: &Rc<BDD<usize>>) -> bool {
    plain::reachable(b).iter().any(|n| match n.as_ref() {
        BDD::Choice(t, _, _) => t.is_false(),
        _ => false,
    })
}

pub fn check_api(f: &Fun) -> Check {
    let cj = json!({"kind": "api", "f": f.to_json()});
    let v = |m: String| Violation::new(m, cj.clone());
    guarded(&cj.clone(), || {
        let env: BDDEnv<usize> = BDDEnv::new();
        let uni = f.ids_sorted();
        let ft = f.over(&uni);
        let hf = f.intern(&env);
        let snap = plain::deep_clone(&hf);
        let m = env.model(Rc::clone(&hf));
        if hf.as_ref() != snap.as_ref() {
            return Err(v("model changed its operand".into()));
        }
        let mt = plain::table_usize(&m, &uni).map_err(|e| v(format!("model mentions a variable f does not: {}", e)))?;
        if ft.is_false() != m.is_false() {
            return Err(v(format!(
                "model is the false leaf: {}, but f unsatisfiable: {}",
                m.is_false(),
                ft.is_false()
            )));
        }
        if !ft.is_false() {
            if mt.as_cube().is_none() {
                return Err(v(format!("model {} is not a single conjunction of literals", plain::render(&m))));
            }
            if !single_path(&m) {
                return Err(v(format!("model {} has more than one path to true", plain::render(&m))));
            }
            if !mt.leq(&ft) {
                return Err(v(format!(
                    "model {} has a satisfying assignment that does not satisfy f",
                    plain::render(&m)
                )));
            }
            let fsup = f.support_ids();
            if let Some(x) = plain::support_syms(&m).iter().find(|x| !fsup.contains(x)) {
                return Err(v(format!("model tests variable {} which f does not depend on", x)));
            }
        }
        let sh = plain::invariants(&m);
        if !sh.ordered || !sh.reduced {
            return Err(v(format!("model is not ordered/reduced: {}", sh.problem.unwrap_or_default())));
        }
        // infer on the model (and on f itself) for every variable in play plus an absent one
        let mut qs = uni.clone();
        qs.push(uni.iter().max().map(|x| x + 1).unwrap_or(0));
        if let Some(lo) = uni.iter().min() {
            if *lo > 0 {
                qs.push(lo - 1);
            }
        }
        for q in qs {
            let mut u2 = uni.clone();
            if !u2.contains(&q) {
                u2.push(q);
                u2.sort();
            }
            let pos = u2.iter().position(|x| *x == q).unwrap();
            for (name, h, fun_t) in [("model", &m, Fun::new(mt.clone(), uni.clone()).over(&u2)), ("f", &hf, f.over(&u2))] {
                let imp = fun_t.implies(&TT::var(u2.len(), pos));
                // the property fixes one answer only: (true, true) exactly when v is forced true
                let forced = imp.is_true();
                let got = env.infer(Rc::clone(h), q);
                if (got == (true, true)) != forced {
                    return Err(v(format!(
                        "infer({}, {}) = {:?} but the {} {} variable {} to be true",
                        name,
                        q,
                        got,
                        name,
                        if forced { "forces" } else { "does not force" },
                        q
                    )));
                }
            }
        }
        Ok(())
    })
}

/// `rsbdd --evaluate=<dnf(f)> -m -t`
pub fn check_cli(f: &Fun) -> Check {
    let cj = json!({"kind": "cli", "f": f.to_json()});
    let v = |m: String| Violation::new(m, cj.clone());
    let uni = f.ids_sorted();
    let ft = f.over(&uni);
    let names: Vec<String> = uni.iter().map(|i| format!("q{}", i)).collect();
    let text = front::dnf_text(&ft, &names);
    let out = cli::run(
        &cli::bin("rsbdd"),
        &[format!("--evaluate={}", text), cli::s("-m"), cli::s("-t")],
        None,
        Duration::from_secs(60),
    );
    if out.timed_out {
        return Err(v(format!("HARNESS: rsbdd timed out on `{}`", text)));
    }
    if !out.ok() {
        return Err(v(format!("rsbdd -m -t failed on `{}`: {}", text, out.describe())));
    }
    let p = cli::parse_stdout(&out.out()).map_err(|e| v(format!("`{}`: {}", text, e)))?;
    let header = p.header.clone().ok_or_else(|| v("no table printed".into()))?;
    // columns are the free variables of the text = variables occurring in the DNF
    let col_pos: Vec<usize> = header
        .iter()
        .map(|h| names.iter().position(|n| n == h).ok_or_else(|| v(format!("unknown column {}", h))))
        .collect::<Result<_, _>>()?;
    let true_rows: Vec<&(Vec<cli::Cell>, bool)> = p.rows.iter().filter(|r| r.1).collect();
    if ft.is_false() {
        if !true_rows.is_empty() {
            return Err(v(format!("`{}` is unsatisfiable but -m -t printed a True row", text)));
        }
        return Ok(());
    }
    if true_rows.len() != 1 {
        return Err(v(format!(
            "`{}` is satisfiable but -m -t printed {} True rows (expected exactly one)",
            text,
            true_rows.len()
        )));
    }
    // every total assignment covered by that row satisfies f
    let row = &true_rows[0].0;
    for idx in 0..ft.len() {
        let covered = row.iter().enumerate().all(|(c, cell)| {
            let bit = (idx >> col_pos[c]) & 1 == 1;
            match cell {
                cli::Cell::Any => true,
                cli::Cell::True => bit,
                cli::Cell::False => !bit,
            }
        });
        if covered && !ft.get(idx) {
            return Err(v(format!(
                "`{}`: the model row {:?} covers assignment {:#b} which does not satisfy the formula",
                text, row, idx
            )));
        }
    }
    Ok(())
}

fn record(f: &Fun, via: &str, st: &mut Stats) {
    st.eval();
    st.class(via);
    let pl = f.plain();
    let fe = forces_else(&pl);
    if f.tt.is_false() {
        st.class("f:unsatisfiable");
    } else if f.tt.is_true() {
        st.class("f:valid");
    } else {
        st.class("f:contingent");
    }
    if fe {
        st.class("f:has-node-with-unsatisfiable-true-branch");
    }
    let j = json!({"kind": via, "f": f.to_json()});
    if !f.tt.is_const() && fe {
        if st.nontrivial(fnv_str(&j.to_string())) {
            st.nt_sample(|| j.clone());
        }
    } else if st.want_sample() {
        st.sample(j);
    }
}

pub fn run(ctx: &mut Ctx) -> Result<(), Violation> {
    ctx.rule = "cases = functions f as truth tables on ids. Exhaustive: every function of <= 4 variables under id maps {0,1,2,3} and {2,5,6,9}; random: functions of 5..8 variables; CLI: `rsbdd --evaluate=<DNF of f> -m -t` for sampled functions. \
                Oracle: model is the false leaf iff the table is all-zero; otherwise its table is a single cube (every depended-on variable forced to one polarity), is contained in f's table, tests only variables f depends on, has one path to true, is ordered and reduced; \
                infer(x, v) == (true,true) iff table(x) => v is valid (checked for the model and for f, for every variable in play plus absent ones). Non-trivial = f non-constant whose diagram has a test with an unsatisfiable true-branch (forces the else-arm); distinct by (table, ids). Operand provenance: created in the environment through mk_choice (default), or - in a share of the random cases and in dedicated stages - plain values that belong to no environment / nodes of another environment (what BDD::<usize>::from(named) and the repository's own parser tests produce)."
        .to_string();
    ctx.rule.push_str(" Wide stage: ");
    ctx.rule.push_str(crate::wide::RULE);
    ctx.assume("operands interned via mk_choice; the CLI binary is built from the working tree into /verif/target/repo");

    for (k, maps) in [
        (0usize, vec![vec![]]),
        (1, vec![vec![0usize], vec![4]]),
        (2, vec![vec![0, 1], vec![3, 7]]),
        (3, vec![vec![0, 1, 2], vec![1, 4, 8]]),
        (4, vec![vec![0, 1, 2, 3], vec![2, 5, 6, 9]]),
    ] {
        let nf = 1u64 << (1u64 << k);
        let n = nf * maps.len() as u64;
        let r = par_exhaustive(ctx, n, |i, st| {
            let f = Fun::new(TT::from_bits(k, i % nf), maps[(i / nf) as usize].clone());
            record(&f, "api", st);
            check_api(&f)
        });
        ctx.stage(&format!("api-all-functions-k{}", k), true, r)?;
    }

    let cases = ctx.tier.cases(100_000, 8_000_000);
    let r = par_random(ctx, "random-api", cases, 80, |tape, st| {
        let mut t = Tape::new(tape);
        let mut f = gen_fun(&mut t, 8, 12);
        // sparse functions make unsatisfiable true-branches likely
        if t.flag() {
            let g = gen_fun(&mut Tape::new(&tape[tape.len() / 2..]), 8, 12);
            if g.ids == f.ids {
                f.tt = f.tt.and(&g.tt);
            }
        }
        let mode = crate::fun::gen_operands(&mut t);
        record(&f, "api", st);
        st.class(&format!("operands:{}", mode.name()));
        crate::fun::with_operands(mode, || check_api(&f))
    });
    ctx.stage("api-random-functions-up-to-8-vars", false, r)?;
    let wc = ctx.tier.cases(6_000, 200_000);
    crate::wide::stage_model(ctx, "wide-functions", wc)?;
    crate::wide::stage_collisions(ctx, "operands-with-equal-hash-sub-diagrams", "model")?;
    crate::wide::fuzz_kind(ctx, "model", replay)?;

    // diagrams that do not come from the extracting environment (plain values such as
    // BDD::<usize>::from(named) produces, or another environment's nodes): all 3- and 4-variable functions
    for mode in [crate::fun::Operands::Plain, crate::fun::Operands::OtherEnv] {
        let r = par_exhaustive(ctx, 256 + 65536, |i, st| {
            let f = if i < 256 {
                Fun::new(TT::from_bits(3, i), vec![1, 4, 8])
            } else {
                Fun::new(TT::from_bits(4, i - 256), vec![0, 1, 2, 3])
            };
            st.eval();
            st.class(&format!("operands:{}", mode.name()));
            crate::fun::with_operands(mode, || check_api(&f))
        });
        ctx.stage(&format!("api-all-functions-k3-k4-operands-{}", mode.name()), true, r)?;
    }

    // CLI: all functions of <= 2 variables, then a seeded sample of 3- and 4-variable functions
    let mut jobs: Vec<Fun> = Vec::new();
    for b in 0..16u64 {
        jobs.push(Fun::new(TT::from_bits(2, b), vec![0, 1]));
    }
    let mut rng = crate::util::Rng::new(ctx.seed ^ 0xC07);
    let extra = ctx.tier.pick(400, 12_000);
    for i in 0..extra {
        if i % 2 == 0 {
            jobs.push(Fun::new(TT::from_bits(3, rng.next() & 0xff), vec![0, 1, 2]));
        } else {
            // sparse 4-variable functions
            jobs.push(Fun::new(TT::from_bits(4, rng.next() & rng.next() & 0xffff), vec![0, 1, 2, 3]));
        }
    }
    let r = par_jobs(ctx, &jobs, |f, st| {
        record(f, "cli", st);
        check_cli(f)
    });
    ctx.stage("cli-model-table", false, r)?;
    Ok(())
}

pub fn replay(case: &Value) -> Check {
    if let Some(r) = crate::wide::replay(case) {
        return r;
    }
    let f = Fun::from_json(&case["f"]);
    match (case["kind"].as_str(), f) {
        (Some("api"), Some(f)) => crate::fun::with_operands(crate::fun::case_operands(case), || check_api(&f)),
        (Some("cli"), Some(f)) => check_cli(&f),
        _ => Err(Violation::new("unreadable replay case", case.clone())),
    }
}
