//! C01 — evaluating a formula yields exactly its documented truth function.

use crate::cli;
use crate::engine::*;
use crate::front::{self, Run};
use crate::gen::{self, Cfg};
use crate::rast::RAst;
use crate::rlex;
use crate::rparse;
use crate::rprint;
use crate::rsem::{self, SemError};
use crate::tt::TT;
use crate::util::{fnv_str, Tape};
use serde_json::{json, Value};
use std::collections::BTreeSet;
use std::time::Duration;

pub struct Info {
    pub fix_iters: usize,
    pub oracle: TT,
    pub names: Vec<String>,
}

/// Project a table over `names` onto the sub-list `cols` (the function must not depend
/// on the other names, which the caller has checked).
pub fn project(t: &TT, names: &[String], cols: &[String]) -> TT {
    let pos: Vec<usize> = cols
        .iter()
        .map(|c| names.iter().position(|n| n == c).expect("column is a name"))
        .collect();
    TT::from_fn(cols.len(), |idx| {
        let mut full = 0usize;
        for (i, p) in pos.iter().enumerate() {
            if (idx >> i) & 1 == 1 {
                full |= 1 << p;
            }
        }
        t.get(full)
    })
}

/// The core oracle: the text must be accepted and evaluate to the reference table.
pub fn check_text(text: &str, via_cli: bool) -> Result<Info, Violation> {
    let cj = json!({"kind": "formula", "text": text, "cli": via_cli});
    let v = |m: String| Violation::new(m, cj.clone());
    let parsed = rparse::parse_text(text.as_bytes())
        .map_err(|e| v(format!("HARNESS: reference parser rejects the generated text: {}", e)))?;
    let names = rlex::identifiers(&parsed.tokens);
    if names.len() > 16 {
        return Err(v("HARNESS: too many names for a truth-table oracle".into()));
    }
    let out = match rsem::table_with(&parsed.ast, &names, &[]) {
        Ok(o) => o,
        Err(SemError::NonConvergent) => {
            return Err(v("HARNESS: reference fixed point does not converge (non-monotone body generated)".into()))
        }
        Err(e) => return Err(v(format!("HARNESS: reference semantics: {:?}", e))),
    };
    let oracle = out.table;
    let limit = (1usize << names.len()) + 2;
    let info = Info {
        fix_iters: out.max_fix_iterations,
        oracle: oracle.clone(),
        names: names.clone(),
    };
    match front::run_text(text.as_bytes(), None, Some(limit)) {
        Run::ParseErr(e) => return Err(front::rejection(text, "well-formed formula", &e, &cj)),
        Run::ParsePanic(p) => return Err(v(format!("parser panicked on a well-formed formula: {}", p))),
        Run::EvalPanic(p, _) => {
            if p.contains("rsbdd-verif: fp iteration limit") {
                return Err(v(format!(
                    "evaluation of a monotone fixed point exceeded the lattice height ({} iterations): does not terminate",
                    limit
                )));
            }
            return Err(v(format!("evaluation panicked: {}", p)));
        }
        Run::Ok(r, _pf) => {
            let got = front::table_by_name(&r, &names).map_err(|e| v(e))?;
            if got != oracle {
                let diff = (0..got.len()).find(|i| got.get(*i) != oracle.get(*i)).unwrap_or(0);
                let asg: Vec<String> = names
                    .iter()
                    .enumerate()
                    .map(|(p, n)| format!("{}={}", n, (diff >> p) & 1))
                    .collect();
                return Err(v(format!(
                    "the answer is {} under [{}] but the documented meaning gives {} (answer table {}, reference {})",
                    got.get(diff),
                    asg.join(" "),
                    oracle.get(diff),
                    got.to_hex(),
                    oracle.to_hex()
                )));
            }
            if r.is_true() != oracle.is_true() || r.is_false() != oracle.is_false() {
                return Err(v(format!(
                    "valid: {} / unsatisfiable: {} but the answer is_true()={} is_false()={}",
                    oracle.is_true(),
                    oracle.is_false(),
                    r.is_true(),
                    r.is_false()
                )));
            }
        }
    }
    if via_cli {
        check_cli(text, &parsed.ast, &names, &oracle).map_err(|m| v(m))?;
    }
    Ok(info)
}

/// `rsbdd --evaluate=<text> -t` (or a file when the text cannot be an argument)
fn check_cli(text: &str, ast: &RAst, names: &[String], oracle: &TT) -> Result<(), String> {
    let scratch = cli::Scratch::new();
    let args: Vec<String> = if text.contains('\0') {
        let p = scratch.file("f.txt", text.as_bytes());
        vec![p.to_string_lossy().into_owned(), cli::s("-t")]
    } else {
        vec![format!("--evaluate={}", text), cli::s("-t")]
    };
    let out = cli::run(&cli::bin("rsbdd"), &args, None, Duration::from_secs(120));
    if out.timed_out {
        return Err("HARNESS: rsbdd timed out".into());
    }
    if !out.ok() {
        return Err(format!("rsbdd -t failed on a well-formed formula: {}", out.describe()));
    }
    let p = cli::parse_stdout(&out.out())?;
    let header = p.header.ok_or("rsbdd -t printed no table")?;
    let fv: BTreeSet<String> = ast.free_vars();
    let want_header: Vec<String> = names.iter().filter(|n| fv.contains(*n)).cloned().collect();
    // which order the solver chooses without an ordering file is its own business (C11 prescribes
    // only the order of names listed in a file): the columns are matched by name
    let mut got_sorted = header.clone();
    got_sorted.sort();
    let mut want_sorted = want_header.clone();
    want_sorted.sort();
    if got_sorted != want_sorted {
        return Err(format!("table header {:?} is not exactly the free variables {:?}", header, want_header));
    }
    let proj = project(oracle, names, &header);
    cli::check_rows(&p.rows, &proj, 'a').map_err(|e| format!("rsbdd -t: {}", e))
}

pub fn classify(ast: &RAst, text: &str, info: &Info, st: &mut Stats) {
    let mut kinds = BTreeSet::new();
    ast.kinds(&mut kinds);
    for k in &kinds {
        st.class(&format!("construct:{}", k));
    }
    st.class(&format!("depth:{}", std::cmp::min(ast.depth(), 12)));
    if info.oracle.is_true() {
        st.class("result:valid");
    } else if info.oracle.is_false() {
        st.class("result:unsatisfiable");
    } else {
        st.class("result:contingent");
    }
    if info.fix_iters >= 3 {
        st.class("fixed-point-needing>=2-real-iterations");
    }
    let fv = ast.free_vars();
    let mut all = Vec::new();
    ast.names_in_order(&mut all);
    if has_shadowing(ast, &mut Vec::new()) {
        st.class("shadowing(name bound twice nested)");
    }
    if bound_and_free(ast) {
        st.class("name-both-bound-and-free");
    }
    for (needle, label) in [
        (" and ", "spelling:and"),
        ("*", "spelling:*"),
        (" or ", "spelling:or"),
        ("+", "spelling:+"),
        (" in ", "spelling:in"),
        ("implies", "spelling:implies"),
        (" eq ", "spelling:eq"),
        ("iff", "spelling:iff"),
        ("xor", "spelling:xor"),
        ("not", "spelling:not"),
        ("!", "spelling:!"),
        ("any", "spelling:any"),
        ("all", "spelling:all"),
        ("mu", "spelling:mu"),
        ("nu", "spelling:nu"),
        ("\"", "has-comment"),
    ] {
        if text.contains(needle) {
            st.class(label);
        }
    }
    if has_big_const(ast) {
        st.class("big-constant");
    }
    let nontrivial = kinds.len() >= 3
        && all.len() >= 2
        && (!info.oracle.is_const()
            || kinds.iter().any(|k| {
                matches!(*k, "exists" | "forall" | "count-const" | "count-list" | "lfp" | "gfp")
            }));
    let _ = fv;
    if nontrivial {
        if st.nontrivial(fnv_str(&rprint::plain(ast))) {
            st.nt_sample(|| json!({"text": text}));
        }
    } else if st.want_sample() {
        st.sample(json!({"text": text}));
    }
}

fn has_big_const(a: &RAst) -> bool {
    matches!(a, RAst::CountConst(_, _, n) if *n > 1000) || a.children().iter().any(|c| has_big_const(c))
}

pub fn has_shadowing(a: &RAst, bound: &mut Vec<String>) -> bool {
    match a {
        RAst::Quant(_, ns, b) => {
            let hit = ns.iter().any(|n| bound.contains(n));
            let mark = bound.len();
            bound.extend(ns.iter().cloned());
            let r = has_shadowing(b, bound);
            bound.truncate(mark);
            hit || r
        }
        RAst::Fix(n, _, b) => {
            let hit = bound.contains(n);
            bound.push(n.clone());
            let r = has_shadowing(b, bound);
            bound.pop();
            hit || r
        }
        _ => a.children().iter().any(|c| has_shadowing(c, bound)),
    }
}

pub fn bound_and_free(a: &RAst) -> bool {
    fn binders(a: &RAst, out: &mut BTreeSet<String>) {
        match a {
            RAst::Quant(_, ns, _) => out.extend(ns.iter().cloned()),
            RAst::Fix(n, _, _) => {
                out.insert(n.clone());
            }
            _ => {}
        }
        for c in a.children() {
            binders(c, out);
        }
    }
    let mut b = BTreeSet::new();
    binders(a, &mut b);
    a.free_vars().iter().any(|n| b.contains(n))
}

pub fn run(ctx: &mut Ctx) -> Result<(), Violation> {
    ctx.rule = "cases = formula texts: a reference syntax tree decoded from a proptest byte tape over the full language (constants, variables, negation, the 8 binary connectives, ite, exists/forall with empty/repeated lists, \
                the 5 counting operators against constants (incl. 2^31..2^64-1) and lists, syntactically monotone lfp/gfp incl. nested and shadowed; names reused bound and free), rendered with random operator spellings, redundant parentheses, trailing commas, whitespace, comments and stray characters. \
                Oracle: reference lexer + LL(1) parser + truth-table semantics (harness code written from README.md); the answer diagram is walked under every assignment addressing variables BY NAME; is_true/is_false must coincide with validity/unsatisfiability; a sample also goes through `rsbdd --evaluate -t`. \
                Non-trivial = >= 3 distinct node kinds, >= 2 names, and a non-constant result or a quantifier/counting/fixed-point node; distinct by the canonical rendering of the tree."
        .to_string();
    ctx.rule.push_str(" Wide texts: ");
    ctx.rule.push_str(crate::widetext::RULE);
    ctx.assume("references ({name}) are not generated: the statement does not list them");
    ctx.assume("fixed-point bodies are syntactically monotone (sufficient for convergence); the fp hook limit 2^names+2 turns non-termination into a deterministic observation");

    // golden cases: README examples and the repository's *_is_true files must be valid under the reference
    let mut st = Stats::default();
    for (text, valid) in golden() {
        st.eval();
        st.class("golden");
        let info = check_text(&text, false)?;
        if info.oracle.is_true() != valid {
            return Err(Violation::new(
                format!("HARNESS: golden formula `{}` validity is {} under the reference", text, info.oracle.is_true()),
                json!({"text": text}),
            ));
        }
    }
    ctx.stage("golden-readme-and-repo-files", true, (st, None))?;

    // the repository's own formula files (<= 16 names; fixed points there are convergent although
    // not syntactically monotone - the reference Kleene iteration decides convergence)
    let mut files: Vec<(String, String)> = Vec::new();
    for dir in ["/repo/examples", "/repo/tests/data", "/repo"] {
        if let Ok(rd) = std::fs::read_dir(dir) {
            let mut paths: Vec<_> = rd.filter_map(|e| e.ok().map(|e| e.path())).collect();
            paths.sort();
            for p in paths {
                if p.extension().map(|e| e == "txt").unwrap_or(false) {
                    if let Ok(text) = std::fs::read_to_string(&p) {
                        files.push((p.to_string_lossy().into_owned(), text));
                    }
                }
            }
        }
    }
    let r = par_jobs(ctx, &files, |(path, text), st| {
        let parsed = match rparse::parse_text(text.as_bytes()) {
            Ok(p) => p,
            Err(_) => {
                st.discarded += 1;
                return Ok(());
            }
        };
        let names = rlex::identifiers(&parsed.tokens);
        if names.len() > 16 || parsed.ast.has_ref() {
            st.discarded += 1;
            st.class("repository-file-skipped(too many names)");
            return Ok(());
        }
        if rsem::table(&parsed.ast, &names).is_err() {
            st.discarded += 1;
            return Ok(());
        }
        st.eval();
        st.class("repository-file");
        let info = check_text(text, false)?;
        st.nontrivial(fnv_str(text));
        st.nt_sample(|| json!({"file": path, "names": names.len(), "valid": info.oracle.is_true()}));
        Ok(())
    });
    ctx.stage("repository-formula-files", true, r)?;

    let cases = ctx.tier.cases(150_000, 3_000_000);
    let (nn, dd) = (ctx.tier.pick(6, 8), ctx.tier.pick(5, 7));
    let cli_every = ctx.tier.pick(400u64, 1500u64);
    let r = par_random(ctx, "random-formulas", cases, 300, |tape, st| {
        let mut t = Tape::new(tape);
        let nnames = 2 + t.choose(nn - 1);
        let depth = 1 + t.choose(dd);
        let mut cfg = Cfg::standard(nnames, depth);
        cfg.max_list = 4;
        if t.chance(60) {
            cfg.allow_fix = false;
        }
        let ast = gen::formula(&mut t, &cfg);
        let text = rprint::decorated(&ast, &mut t);
        self_check(&ast, &text)?;
        st.eval();
        let via_cli = fnv_str(&text) % cli_every == 0;
        if via_cli {
            st.class("also-through-rsbdd-binary");
        }
        let info = check_text(&text, via_cli)?;
        classify(&ast, &text, &info, st);
        Ok(())
    });
    ctx.stage("random-formulas", false, r)?;

    // wide, shallow formulas: 9..14 names, longer counting lists, no fixed points
    let cases = ctx.tier.cases(6_000, 150_000);
    let r = par_random(ctx, "random-wide-formulas", cases, 400, |tape, st| {
        let mut t = Tape::new(tape);
        let nnames = 9 + t.choose(6);
        let mut cfg = Cfg::standard(4, 1 + t.choose(3));
        cfg.names = (0..nnames).map(|i| format!("w{}", i)).collect();
        cfg.allow_fix = false;
        cfg.max_list = 7;
        let ast = gen::formula(&mut t, &cfg);
        let text = rprint::plain(&ast);
        self_check(&ast, &text)?;
        st.eval();
        // bound names come on top of the 9..14 free ones; beyond 16 the table oracle stops
        let idents = rlex::lex(&text).map(|t| rlex::identifiers(&t).len()).unwrap_or(0);
        if idents > 16 {
            st.discarded += 1;
            st.class("wide-formula-skipped(more than 16 names)");
            return Ok(());
        }
        st.class("wide-formula(9..14 names)");
        let info = check_text(&text, false)?;
        classify(&ast, &text, &info, st);
        Ok(())
    });
    ctx.stage("random-wide-formulas", false, r)?;

    // a stage focused on fixed points
    let cases = ctx.tier.cases(40_000, 600_000);
    let r = par_random(ctx, "random-fixpoint-formulas", cases, 300, |tape, st| {
        let mut t = Tape::new(tape);
        let mut cfg = Cfg::standard(2 + t.choose(3), 2 + t.choose(3));
        cfg.max_list = 3;
        cfg.max_fix_nest = 3;
        cfg.fix_var_bias = 130;
        let ast = match t.choose(8) {
            0 => gen::chain_fix(&mut t, &cfg),
            // a chain as long as the lattice allows: 2^k applications over k variables
            1 => gen::path_chain_fix(&mut t, &cfg),
            _ => gen::fix_formula(&mut t, &cfg),
        };
        let ast = if t.flag() {
            RAst::bin(crate::rast::BINOPS[t.choose(8)], gen::formula(&mut t, &cfg), ast)
        } else {
            ast
        };
        let text = rprint::decorated(&ast, &mut t);
        self_check(&ast, &text)?;
        st.eval();
        let info = check_text(&text, false)?;
        classify(&ast, &text, &info, st);
        Ok(())
    });
    ctx.stage("random-fixpoint-formulas", false, r)?;
    let wc = ctx.tier.cases(1_200, 60_000);
    crate::widetext::stage_padded(ctx, "padded-formulas-beyond-64-128-256-names", wc, false)?;
    crate::widetext::stage_counters(ctx, "counter-reachability-fixed-points")?;
    let wc = ctx.tier.cases(40, 400);
    crate::widetext::stage_long_lists(ctx, "counting-over-long-lists", wc)?;
    if ctx.tier == Tier::Thorough {
        let r = fuzz_stage(ctx, "sem", 400_000, 300, &[vec![0u8; 8], vec![200u8; 64], (0..=255u8).collect()], replay);
        ctx.stage("libfuzzer-sem", false, r)?;
    }
    Ok(())
}

/// harness self-test: the rendered text must parse back (reference parser) to the tree
pub fn self_check(ast: &RAst, text: &str) -> Check {
    match rparse::parse_text(text.as_bytes()) {
        Ok(p) if &p.ast == ast => Ok(()),
        Ok(p) => Err(Violation::new(
            format!("HARNESS: rendering does not round-trip: {:?} became {:?}", ast, p.ast),
            json!({"text": text}),
        )),
        Err(e) => Err(Violation::new(
            format!("HARNESS: rendering is rejected by the reference parser: {}", e),
            json!({"text": text}),
        )),
    }
}

fn golden() -> Vec<(String, bool)> {
    let mut v: Vec<(String, bool)> = vec![
        ("gfp X # X".into(), true),
        ("lfp X # X".into(), false),
        ("(gfp X # a) <=> a".into(), true),
        ("(lfp X # a) <=> a".into(), true),
        ("forall a # true".into(), true),
        ("forall a, b # exists c # (c | a) & (c | b)".into(), true),
        ("(if a then b else c) <=> ((a => b) & ((!a) => c))".into(), true),
        ("([a1,a2,a3,a4] >= [b1,b2,b3,b4] & [b1,b2,b3,b4] >= [c1,c2,c3,c4]) => [a1,a2,a3,a4] >= [c1,c2,c3,c4]".into(), true),
        ("a | (a & b)".into(), false),
        ("on ^ off".into(), false),
    ];
    for f in ["axioms_is_true.txt", "not_false_is_true.txt", "true_is_true.txt"] {
        if let Ok(s) = std::fs::read_to_string(format!("/repo/tests/data/{}", f)) {
            // only use files the reference can take (<= 12 names)
            if let Ok(p) = rparse::parse_text(s.as_bytes()) {
                if rlex::identifiers(&p.tokens).len() <= 12 {
                    v.push((s, true));
                }
            }
        }
    }
    v
}

pub fn replay(case: &Value) -> Check {
    if let Some(r) = crate::widetext::replay(case) {
        return r;
    }
    match case["text"].as_str() {
        Some(t) => check_text(t, case["cli"].as_bool().unwrap_or(false)).map(|_| ()),
        None => Err(Violation::new("unreadable replay case", case.clone())),
    }
}
