//! C17 — sudoku_gen emits a formula whose models are exactly the puzzle's solutions.

use crate::cli;
use crate::engine::*;
use crate::front;
use crate::rast::{BinOp, CntOp, RAst};
use crate::rlex;
use crate::rparse;
use crate::rsem;
use crate::util::{fnv_str, Tape};
use serde_json::{json, Value};
use std::collections::{BTreeSet, HashMap};
use std::time::Duration;

#[derive(Clone, Debug)]
pub struct Case {
    pub root: usize,
    pub puzzle: String,
}

impl Case {
    pub fn to_json(&self) -> Value {
        json!({"kind": "sudoku", "root": self.root, "puzzle": self.puzzle})
    }
}

/// givens per cell (row-major) as the property describes: whitespace ignored, digits
/// 1..r^2 are givens, everything else is blank; None = the text is outside the domain
/// (a digit 0 or above r^2 among the first r^4 symbols)
pub fn givens(root: usize, puzzle: &str) -> Option<Vec<Option<usize>>> {
    let sq = root * root;
    let cells = sq * sq;
    let mut out = vec![None; cells];
    for (i, ch) in puzzle.chars().filter(|c| !c.is_whitespace()).enumerate() {
        if i >= cells {
            break;
        }
        if let Some(d) = ch.to_digit(10) {
            if ch.is_ascii_digit() {
                let d = d as usize;
                if d == 0 || d > sq {
                    return None;
                }
                out[i] = Some(d);
            }
        }
    }
    Some(out)
}

/// independent back-tracking enumerator: all completed grids (values 1..sq) keeping the givens
pub fn solve(root: usize, giv: &[Option<usize>], limit: usize) -> Vec<Vec<usize>> {
    let sq = root * root;
    let mut grid: Vec<usize> = vec![0; sq * sq];
    // contradictory givens -> no solution: place givens with checks
    fn ok(grid: &[usize], root: usize, pos: usize, val: usize) -> bool {
        let sq = root * root;
        let (r, c) = (pos / sq, pos % sq);
        for i in 0..sq {
            if grid[r * sq + i] == val && r * sq + i != pos {
                return false;
            }
            if grid[i * sq + c] == val && i * sq + c != pos {
                return false;
            }
        }
        let (br, bc) = (r / root * root, c / root * root);
        for dr in 0..root {
            for dc in 0..root {
                let p = (br + dr) * sq + bc + dc;
                if p != pos && grid[p] == val {
                    return false;
                }
            }
        }
        true
    }
    for (i, g) in giv.iter().enumerate() {
        if let Some(v) = g {
            if !ok(&grid, root, i, *v) {
                return vec![];
            }
            grid[i] = *v;
        }
    }
    fn go(grid: &mut Vec<usize>, root: usize, out: &mut Vec<Vec<usize>>, limit: usize) {
        if out.len() >= limit {
            return;
        }
        let sq = root * root;
        let pos = match grid.iter().position(|v| *v == 0) {
            Some(p) => p,
            None => {
                out.push(grid.clone());
                return;
            }
        };
        for v in 1..=sq {
            if ok(grid, root, pos, v) {
                grid[pos] = v;
                go(grid, root, out, limit);
                grid[pos] = 0;
            }
        }
    }
    let mut out = Vec::new();
    go(&mut grid, root, &mut out, limit);
    out
}

/// the classical pattern grid g[r][c] = (root*(r % root) + r/root + c) % sq with its digits
/// relabelled so that it keeps the givens, if such a relabelling exists
pub fn pattern_solution(root: usize, giv: &[Option<usize>]) -> Option<Vec<usize>> {
    let sq = root * root;
    let pat = |cell: usize| -> usize { (root * ((cell / sq) % root) + (cell / sq) / root + cell % sq) % sq };
    let mut map: Vec<Option<usize>> = vec![None; sq];
    let mut used = vec![false; sq + 1];
    for (cell, g) in giv.iter().enumerate() {
        if let Some(d) = g {
            match map[pat(cell)] {
                Some(m) if m != *d => return None,
                Some(_) => {}
                None => {
                    if used[*d] {
                        return None;
                    }
                    used[*d] = true;
                    map[pat(cell)] = Some(*d);
                }
            }
        }
    }
    let mut free: Vec<usize> = (1..=sq).filter(|d| !used[*d]).collect();
    for m in map.iter_mut() {
        if m.is_none() {
            *m = free.pop();
        }
    }
    Some((0..sq * sq).map(|cell| map[pat(cell)].unwrap_or(1)).collect())
}

/// reference classifier on an assignment of the _c_is_d variables
pub fn is_completed_grid(root: usize, giv: &[Option<usize>], truth: &dyn Fn(usize, usize) -> bool) -> bool {
    let sq = root * root;
    let mut grid = vec![0usize; sq * sq];
    for c in 0..sq * sq {
        let vals: Vec<usize> = (1..=sq).filter(|d| truth(c, *d)).collect();
        if vals.len() != 1 {
            return false;
        }
        grid[c] = vals[0];
        if let Some(g) = giv[c] {
            if g != vals[0] {
                return false;
            }
        }
    }
    for i in 0..sq {
        let row: BTreeSet<usize> = (0..sq).map(|j| grid[i * sq + j]).collect();
        let col: BTreeSet<usize> = (0..sq).map(|j| grid[j * sq + i]).collect();
        if row.len() != sq || col.len() != sq {
            return false;
        }
    }
    for br in 0..root {
        for bc in 0..root {
            let b: BTreeSet<usize> = (0..sq).map(|l| grid[(br * root + l / root) * sq + bc * root + l % root]).collect();
            if b.len() != sq {
                return false;
            }
        }
    }
    true
}

fn var_of(name: &str, root: usize) -> Option<(usize, usize)> {
    let rest = name.strip_prefix('_')?;
    let (c, d) = rest.split_once("_is_")?;
    let (c, d): (usize, usize) = (c.parse().ok()?, d.parse().ok()?);
    let sq = root * root;
    if c < sq * sq && d >= 1 && d <= sq && name == format!("_{}_is_{}", c, d) {
        Some((c, d))
    } else {
        None
    }
}

fn flatten_and<'a>(a: &'a RAst, out: &mut Vec<&'a RAst>) {
    match a {
        RAst::Bin(BinOp::And, l, r) => {
            flatten_and(l, out);
            flatten_and(r, out);
        }
        _ => out.push(a),
    }
}

/// literals + exactly-one style cardinality constraints, when the text has that shape
struct Shape {
    nvars: usize,
    units: Vec<usize>,
    cards: Vec<(Vec<usize>, CntOp, u64)>,
}

fn shape(ast: &RAst, index: &HashMap<String, usize>) -> Option<Shape> {
    let mut terms = Vec::new();
    flatten_and(ast, &mut terms);
    let mut s = Shape {
        nvars: index.len(),
        units: vec![],
        cards: vec![],
    };
    for t in terms {
        match t {
            RAst::True => {}
            RAst::Var(n) => s.units.push(*index.get(n)?),
            // a negative literal: "at most 0 of [v]"
            RAst::Not(b) => match b.as_ref() {
                RAst::Var(n) => s.cards.push((vec![*index.get(n)?], CntOp::AtMost, 0)),
                _ => return None,
            },
            RAst::CountConst(op, l, k) => {
                let mut vs = Vec::new();
                for f in l {
                    match f {
                        RAst::Var(n) => {
                            let i = *index.get(n)?;
                            if vs.contains(&i) {
                                return None;
                            }
                            vs.push(i);
                        }
                        _ => return None,
                    }
                }
                s.cards.push((vs, *op, *k));
            }
            _ => return None,
        }
    }
    Some(s)
}

/// enumerate all models of a Shape (back-tracking with bound checks), up to `limit`
fn models(s: &Shape, limit: usize, max_steps: u64) -> Option<Vec<Vec<bool>>> {
    let n = s.nvars;
    let mut asg: Vec<Option<bool>> = vec![None; n];
    for u in &s.units {
        asg[*u] = Some(true);
    }
    // order variables: by first occurrence in the constraints
    let mut order: Vec<usize> = Vec::new();
    let mut in_order = vec![false; n];
    for (vs, _, _) in &s.cards {
        for v in vs {
            if !in_order[*v] {
                in_order[*v] = true;
                order.push(*v);
            }
        }
    }
    for v in 0..n {
        if !in_order[v] {
            order.push(v);
        }
    }
    let mut by_var: Vec<Vec<usize>> = vec![vec![]; n];
    for (ci, (vs, _, _)) in s.cards.iter().enumerate() {
        for v in vs {
            by_var[*v].push(ci);
        }
    }
    fn feasible(s: &Shape, ci: usize, asg: &[Option<bool>]) -> bool {
        let (vs, op, k) = &s.cards[ci];
        let t = vs.iter().filter(|v| asg[**v] == Some(true)).count() as i128;
        let free = vs.iter().filter(|v| asg[**v].is_none()).count() as i128;
        let k = *k as i128;
        // can some completion satisfy op?
        match op {
            CntOp::Exactly => t <= k && k <= t + free,
            CntOp::AtMost => t <= k,
            CntOp::LessThan => t < k,
            CntOp::AtLeast => t + free >= k,
            CntOp::MoreThan => t + free > k,
        }
    }
    for ci in 0..s.cards.len() {
        if !feasible(s, ci, &asg) {
            return Some(vec![]);
        }
    }
    let mut out: Vec<Vec<bool>> = Vec::new();
    let mut steps = 0u64;
    fn go(
        s: &Shape,
        order: &[usize],
        by_var: &[Vec<usize>],
        depth: usize,
        asg: &mut Vec<Option<bool>>,
        out: &mut Vec<Vec<bool>>,
        limit: usize,
        steps: &mut u64,
        max_steps: u64,
        truncated: &mut bool,
    ) -> bool {
        *steps += 1;
        if *steps > max_steps {
            return false;
        }
        if out.len() > limit {
            // enough models collected: stop, but this is not a failed search
            *truncated = true;
            return false;
        }
        let mut d = depth;
        while d < order.len() && asg[order[d]].is_some() {
            d += 1;
        }
        if d == order.len() {
            out.push(asg.iter().map(|x| x.unwrap_or(false)).collect());
            return true;
        }
        let v = order[d];
        for val in [true, false] {
            asg[v] = Some(val);
            if by_var[v].iter().all(|ci| feasible(s, *ci, asg)) && !go(s, order, by_var, d + 1, asg, out, limit, steps, max_steps, truncated) {
                asg[v] = None;
                return false;
            }
        }
        asg[v] = None;
        true
    }
    let mut truncated = false;
    if go(s, &order, &by_var, 0, &mut asg, &mut out, limit, &mut steps, max_steps, &mut truncated) || truncated {
        // (when truncated, `out` holds limit + 1 models)
        Some(out)
    } else {
        None
    }
}

/// A small DPLL for cardinality constraints (count of true variables `op` k) with unit
/// propagation and smallest-constraint-first branching: finds ONE model or proves there is none
/// within `max_nodes` decisions (None = gave up).
fn find_model(s: &Shape, max_nodes: u64) -> Option<Option<Vec<bool>>> {
    let n = s.nvars;
    let mut asg: Vec<Option<bool>> = vec![None; n];
    for u in &s.units {
        asg[*u] = Some(true);
    }
    fn bounds(op: CntOp, k: u64) -> (i64, i64) {
        // allowed count range [lo, hi]
        let k = k as i64;
        match op {
            CntOp::Exactly => (k, k),
            CntOp::AtMost => (0, k),
            CntOp::LessThan => (0, k - 1),
            CntOp::AtLeast => (k, i64::MAX),
            CntOp::MoreThan => (k + 1, i64::MAX),
        }
    }
    /// propagate to a fixed point; false = conflict
    fn propagate(s: &Shape, asg: &mut Vec<Option<bool>>) -> bool {
        loop {
            let mut changed = false;
            for (vs, op, k) in &s.cards {
                let (lo, hi) = bounds(*op, *k);
                let t = vs.iter().filter(|v| asg[**v] == Some(true)).count() as i64;
                let free: Vec<usize> = vs.iter().copied().filter(|v| asg[*v].is_none()).collect();
                let f = free.len() as i64;
                if t > hi || t + f < lo {
                    return false;
                }
                if f > 0 && t == hi {
                    for v in &free {
                        asg[*v] = Some(false);
                    }
                    changed = true;
                } else if f > 0 && t + f == lo {
                    for v in &free {
                        asg[*v] = Some(true);
                    }
                    changed = true;
                }
            }
            if !changed {
                return true;
            }
        }
    }
    fn go(s: &Shape, asg: &mut Vec<Option<bool>>, nodes: &mut u64, max_nodes: u64) -> Option<bool> {
        if !propagate(s, asg) {
            return Some(false);
        }
        // branch on a free variable of the constraint with the fewest free variables
        let mut best: Option<(usize, usize)> = None;
        for (vs, _, _) in &s.cards {
            let free: Vec<usize> = vs.iter().copied().filter(|v| asg[*v].is_none()).collect();
            if !free.is_empty() && best.map(|b| free.len() < b.0).unwrap_or(true) {
                best = Some((free.len(), free[0]));
            }
        }
        let var = match best {
            Some((_, v)) => v,
            None => match asg.iter().position(|a| a.is_none()) {
                Some(v) => v,
                None => return Some(true),
            },
        };
        *nodes += 1;
        if *nodes > max_nodes {
            return None;
        }
        for val in [true, false] {
            let saved = asg.clone();
            asg[var] = Some(val);
            match go(s, asg, nodes, max_nodes) {
                Some(true) => return Some(true),
                Some(false) => *asg = saved,
                None => return None,
            }
        }
        Some(false)
    }
    let mut nodes = 0u64;
    match go(s, &mut asg, &mut nodes, max_nodes) {
        Some(true) => Some(Some(asg.iter().map(|a| a.unwrap_or(false)).collect())),
        Some(false) => Some(None),
        None => None,
    }
}

pub fn run_generator(c: &Case, via_stdin: bool) -> Result<String, String> {
    let scratch = cli::Scratch::new();
    let mut args: Vec<String> = Vec::new();
    let mut stdin: Option<&[u8]> = None;
    if via_stdin {
        stdin = Some(c.puzzle.as_bytes());
    } else {
        let p = scratch.file("puzzle.txt", c.puzzle.as_bytes());
        args.push(p.to_string_lossy().into_owned());
    }
    args.push("-r".into());
    args.push(c.root.to_string());
    let out = cli::run(&cli::bin("sudoku_gen"), &args, stdin, Duration::from_secs(60));
    if !out.ok() {
        return Err(format!("sudoku_gen failed: {}", out.describe()));
    }
    Ok(out.out())
}

pub struct Report {
    pub exact: bool,
    pub solutions: usize,
    pub compared: u64,
}

pub fn check_case(c: &Case) -> Result<Report, Violation> {
    let cj = c.to_json();
    let v = |m: String| Violation::new(m, cj.clone());
    let giv = givens(c.root, &c.puzzle).ok_or_else(|| v("HARNESS: puzzle outside the domain (digit 0 or > r^2)".into()))?;
    let text = run_generator(c, false).map_err(|e| v(e))?;
    let text2 = run_generator(c, true).map_err(|e| v(e))?;
    if text != text2 {
        return Err(v("the output differs between file input and stdin".into()));
    }
    {
        // INPUT OUTPUT form, onto a path where a longer file already exists
        let scratch = cli::Scratch::new();
        let inp = scratch.file(&cli::Scratch::awkward("puzzle.txt"), c.puzzle.as_bytes());
        let outp = scratch.stale(&cli::Scratch::awkward("formula.txt"));
        let out = cli::run(
            &cli::bin("sudoku_gen"),
            &[inp.to_string_lossy().into_owned(), outp.to_string_lossy().into_owned(), "--root".into(), c.root.to_string()],
            None,
            Duration::from_secs(60),
        );
        if !out.ok() {
            return Err(v(format!("sudoku_gen INPUT OUTPUT failed: {}", out.describe())));
        }
        let text3 = std::fs::read_to_string(&outp).map_err(|e| v(format!("output file: {}", e)))?;
        if text3 != text {
            return Err(v("the output FILE differs from what is written to stdout".into()));
        }
    }
    let sig = if c.puzzle.contains('"') { "quote-in-puzzle" } else { "" };
    let parsed = rparse::parse_text(text.as_bytes())
        .map_err(|e| v(format!("the output is not a well-formed formula: {}", e)).sig(sig))?;
    front::parse(text.as_bytes(), None).map_err(|e| v(format!("rsbdd's parser rejects the output: {}", e)).sig(sig))?;
    let sq = c.root * c.root;
    let names = rlex::identifiers(&parsed.tokens);
    let want_names: BTreeSet<String> = (0..sq * sq).flat_map(|cell| (1..=sq).map(move |d| format!("_{}_is_{}", cell, d))).collect();
    let got_names: BTreeSet<String> = names.iter().cloned().collect();
    if got_names != want_names {
        return Err(v(format!(
            "the formula's variables differ from _c_is_d for c < {} and 1 <= d <= {}: {:?}",
            sq * sq,
            sq,
            got_names.symmetric_difference(&want_names).take(5).collect::<Vec<_>>()
        ))
        .sig(sig));
    }
    let index: HashMap<String, usize> = names.iter().enumerate().map(|(i, n)| (n.clone(), i)).collect();
    let mut compared = 0u64;
    let eval = |truth: &dyn Fn(usize, usize) -> bool| -> Result<bool, String> {
        rsem::eval_at(&parsed.ast, &|name: &str| match var_of(name, c.root) {
            Some((cell, d)) => truth(cell, d),
            None => false,
        })
    };
    let sols = if c.root <= 3 {
        solve(c.root, &giv, if c.root <= 2 { 100_000 } else { 40 })
    } else {
        // large grids: no search; a solution is constructed when the givens fit a relabelled pattern grid
        pattern_solution(c.root, &giv).into_iter().collect()
    };
    // soundness: every reference solution satisfies the formula
    for g in &sols {
        compared += 1;
        let ok = eval(&|cell, d| g[cell] == d).map_err(|e| v(e))?;
        if !ok {
            return Err(v(format!("the completed grid {:?} keeps every given but falsifies the formula", g)).sig(sig));
        }
    }
    // near-misses and perturbed assignments are classified exactly as the reference does
    let mut rng = crate::util::Rng::new(fnv_str(&c.puzzle) ^ c.root as u64);
    let mut bases: Vec<Vec<usize>> = sols.iter().take(20).cloned().collect();
    if bases.is_empty() {
        // contradictory puzzle: use solutions of the empty puzzle as bases
        bases = if c.root <= 3 {
            solve(c.root, &vec![None; sq * sq], 5)
        } else {
            pattern_solution(c.root, &vec![None; sq * sq]).into_iter().collect()
        };
    }
    for g in &bases {
        for _ in 0..tier_count(c.root) {
            let mut h = g.clone();
            let mut extra: Option<(usize, usize)> = None;
            let mut hole: Option<usize> = None;
            match rng.below(5) {
                0 => {
                    let (a, b) = (rng.below(sq * sq), rng.below(sq * sq));
                    h.swap(a, b);
                }
                1 => {
                    let a = rng.below(sq * sq);
                    h[a] = 1 + rng.below(sq);
                }
                2 => extra = Some((rng.below(sq * sq), 1 + rng.below(sq))),
                3 => hole = Some(rng.below(sq * sq)),
                _ => {
                    // break a given, if any
                    let gs: Vec<usize> = (0..sq * sq).filter(|i| giv[*i].is_some()).collect();
                    if !gs.is_empty() {
                        let a = gs[rng.below(gs.len())];
                        h[a] = 1 + (h[a] % sq);
                    }
                }
            }
            let truth = |cell: usize, d: usize| -> bool {
                if hole == Some(cell) {
                    return false;
                }
                h[cell] == d || extra == Some((cell, d))
            };
            compared += 1;
            let got = eval(&truth).map_err(|e| v(e))?;
            let want = is_completed_grid(c.root, &giv, &truth);
            if got != want {
                return Err(v(format!(
                    "assignment grid {:?} (extra true variable {:?}, emptied cell {:?}) : the formula is {} but it {} a completed grid keeping the givens",
                    h,
                    extra,
                    hole,
                    got,
                    if want { "is" } else { "is not" }
                ))
                .sig(sig));
            }
        }
    }
    // structural comparison of the emitted constraint system with the reference system (cells, rows,
    // columns, boxes: exactly one; givens: literals). A reference constraint that is not literally
    // present must still be implied: a bounded search looks for a model of the emitted system that
    // violates it (such a model is a non-solution the formula accepts).
    let mut same_system = false;
    if let Some(sh) = shape(&parsed.ast, &index) {
        let norm = |vs: &Vec<usize>| -> Vec<usize> {
            let mut v = vs.clone();
            v.sort();
            v
        };
        let emitted: BTreeSet<(Vec<usize>, u8, u64)> = sh
            .cards
            .iter()
            .map(|(vs, op, k)| (norm(vs), *op as u8, *k))
            .collect();
        let var = |cell: usize, d: usize| -> usize { index[&format!("_{}_is_{}", cell, d)] };
        let mut reference: Vec<Vec<usize>> = Vec::new();
        for cell in 0..sq * sq {
            reference.push((1..=sq).map(|d| var(cell, d)).collect());
        }
        for d in 1..=sq {
            for i in 0..sq {
                reference.push((0..sq).map(|j| var(i * sq + j, d)).collect());
                reference.push((0..sq).map(|j| var(j * sq + i, d)).collect());
            }
            for br in 0..c.root {
                for bc in 0..c.root {
                    reference.push(
                        (0..sq)
                            .map(|l| var((br * c.root + l / c.root) * sq + bc * c.root + l % c.root, d))
                            .collect(),
                    );
                }
            }
        }
        let missing: Vec<Vec<usize>> = reference
            .iter()
            .filter(|vs| !emitted.contains(&(norm(vs), CntOp::Exactly as u8, 1)))
            .cloned()
            .collect();
        let given_units: BTreeSet<usize> = giv
            .iter()
            .enumerate()
            .filter_map(|(cell, g)| g.map(|d| var(cell, d)))
            .collect();
        let emitted_units: BTreeSet<usize> = sh.units.iter().copied().collect();
        same_system = missing.is_empty() && given_units == emitted_units && emitted.len() == reference.len();
        let describe = |m: &Vec<bool>| -> Vec<(usize, usize)> {
            let mut s_: Vec<(usize, usize)> = names
                .iter()
                .enumerate()
                .filter(|(i, _)| m[*i])
                .filter_map(|(_, n)| var_of(n, c.root))
                .collect();
            s_.sort();
            s_
        };
        for (mi, vs) in missing.iter().enumerate() {
            if mi >= 24 {
                break;
            }
            for neg in [(CntOp::AtLeast, 2u64), (CntOp::AtMost, 0u64)] {
                let mut probe = Shape {
                    nvars: sh.nvars,
                    units: sh.units.clone(),
                    cards: sh.cards.clone(),
                };
                // the violated constraint first: its variables are decided first
                probe.cards.insert(0, (vs.clone(), neg.0, neg.1));
                if let Some(found) = find_model(&probe, 3_000) {
                    if let Some(m) = found.as_ref() {
                        compared += 1;
                        return Err(v(format!(
                            "the formula accepts an assignment in which a row/column/box/cell constraint of the puzzle is violated (variables {:?} hold {} times): true variables (cell, digit) = {:?}",
                            vs.iter().map(|i| names[*i].clone()).collect::<Vec<_>>(),
                            vs.iter().filter(|i| m[**i]).count(),
                            describe(m)
                        ))
                        .sig(sig));
                    }
                }
            }
        }
        for g in given_units.difference(&emitted_units) {
            let mut probe = Shape {
                nvars: sh.nvars,
                units: sh.units.clone(),
                cards: sh.cards.clone(),
            };
            probe.cards.insert(0, (vec![*g], CntOp::AtMost, 0));
            if let Some(found) = find_model(&probe, 3_000) {
                if let Some(m) = found.as_ref() {
                    return Err(v(format!("the formula accepts a grid that drops the given {}: {:?}", names[*g], describe(m))).sig(sig));
                }
            }
        }
    }
    // exactness: enumerate ALL models of the emitted constraints (always for r <= 2; for r = 3 when the
    // emitted system is literally the reference system and the puzzle has few solutions)
    let mut exact = false;
    let ref_complete = if c.root <= 2 { true } else { sols.len() < 40 && same_system };
    if ref_complete {
        if let Some(sh) = shape(&parsed.ast, &index) {
            let mlimit = if c.root <= 2 { 200_000 } else { 2_000 };
            if let Some(ms) = models(&sh, mlimit, if c.root <= 2 { 20_000_000 } else { 3_000_000 }).filter(|m| m.len() <= mlimit) {
                exact = true;
                let got: BTreeSet<Vec<(usize, usize)>> = ms
                    .iter()
                    .map(|m| {
                        let mut s: Vec<(usize, usize)> = names
                            .iter()
                            .enumerate()
                            .filter(|(i, _)| m[*i])
                            .filter_map(|(_, n)| var_of(n, c.root))
                            .collect();
                        s.sort();
                        s
                    })
                    .collect();
                if got.len() != ms.len() {
                    return Err(v("HARNESS: duplicate models".into()));
                }
                let want: BTreeSet<Vec<(usize, usize)>> = sols
                    .iter()
                    .map(|g| {
                        let mut s: Vec<(usize, usize)> = g.iter().enumerate().map(|(cell, d)| (cell, *d)).collect();
                        s.sort();
                        s
                    })
                    .collect();
                compared += got.len() as u64;
                if got != want {
                    return Err(v(format!(
                        "the formula has {} models, the puzzle has {} solutions; a model that is no solution: {:?}; a solution that is no model: {:?}",
                        got.len(),
                        want.len(),
                        got.difference(&want).next(),
                        want.difference(&got).next()
                    ))
                    .sig(sig));
                }
            }
        }
    }
    Ok(Report {
        exact,
        solutions: sols.len(),
        compared,
    })
}

fn tier_count(root: usize) -> usize {
    if root <= 2 {
        12
    } else {
        30
    }
}

const BLANKS: &str = ".-_*?xX#@!$%&()[]{}<>=+~^|\\/;:,'`\"abcZ\u{e9}\u{20ac}\u{3000}";

fn render_puzzle(t: &mut Tape, root: usize, giv: &[Option<usize>]) -> String {
    let sq = root * root;
    let blanks: Vec<char> = BLANKS.chars().filter(|c| !c.is_whitespace()).collect();
    let single_blank = blanks[t.choose(blanks.len())];
    let mixed = t.chance(60);
    let mut s = String::new();
    let n = match t.choose(6) {
        0 => t.choose(giv.len() + 1), // short input
        1 => giv.len() + t.choose(6), // over-long input
        _ => giv.len(),
    };
    for i in 0..n {
        let g = if i < giv.len() { giv[i] } else { None };
        match g {
            Some(d) => s.push_str(&d.to_string()),
            None => {
                if i >= giv.len() && t.flag() {
                    s.push_str(&(1 + t.choose(sq)).to_string()); // digits beyond the grid are ignored
                } else {
                    s.push(if mixed { blanks[t.choose(blanks.len())] } else { single_blank });
                }
            }
        }
        // layout
        if (i + 1) % sq == 0 && t.chance(200) {
            s.push('\n');
        } else if t.chance(40) {
            // whitespace of every kind is ignored (also non-ASCII white space)
            s.push_str([" ", "\t", "  ", "\r\n", "\u{a0}", "\u{2003}", "\u{3000}", "\u{b}"][t.choose(8)]);
        }
    }
    s
}

fn gen_case(t: &mut Tape, allow3: bool) -> Case {
    let root = if allow3 && t.chance(6) {
        4
    } else if allow3 && t.chance(25) {
        3
    } else if t.chance(30) {
        1
    } else {
        2
    };
    let sq = root * root;
    let cells = sq * sq;
    // start from a solved grid, reveal some cells, then maybe corrupt
    let base = {
        // pattern solution + relabelling of digits
        let mut perm: Vec<usize> = (1..=sq).collect();
        for i in (1..sq).rev() {
            let j = t.choose(i + 1);
            perm.swap(i, j);
        }
        let mut g = vec![0usize; cells];
        for r in 0..sq {
            for c in 0..sq {
                g[r * sq + c] = perm[(root * (r % root) + r / root + c) % sq];
            }
        }
        g
    };
    let mut giv: Vec<Option<usize>> = vec![None; cells];
    let style = t.choose(6);
    match style {
        0 => {} // empty
        1 => {
            for i in 0..cells {
                giv[i] = Some(base[i]); // full valid grid
            }
        }
        5 => {
            // random givens (often contradictory or unsolvable)
            let k = t.choose(cells + 1);
            for _ in 0..k {
                giv[t.choose(cells)] = Some(1 + t.choose(sq));
            }
        }
        _ => {
            for i in 0..cells {
                if t.chance(if root == 3 { 120 } else { 90 }) {
                    giv[i] = Some(base[i]);
                }
            }
            if style == 4 && cells > 1 {
                // contradiction: copy a given to another cell of the same row
                let r = t.choose(sq);
                let (a, b) = (t.choose(sq), t.choose(sq));
                if a != b {
                    let val = base[r * sq + a];
                    giv[r * sq + a] = Some(val);
                    giv[r * sq + b] = Some(val);
                }
            }
        }
    }
    if sq > 9 {
        // a given is a single character: only 1..9 can be written
        for g in giv.iter_mut() {
            if g.map(|d| d > 9).unwrap_or(false) {
                *g = None;
            }
        }
    }
    let puzzle = render_puzzle(t, root, &giv);
    Case { root, puzzle }
}

fn record(c: &Case, rep: &Report, st: &mut Stats) {
    st.evals(rep.compared.max(1));
    st.class(&format!("root:{}", c.root));
    if rep.exact {
        st.class("exact-model-set-equality");
    }
    st.class(match rep.solutions {
        0 => "puzzle:no-solution",
        1 => "puzzle:unique-solution",
        _ => "puzzle:several-solutions",
    });
    if c.puzzle.contains('"') {
        st.class("blank-symbol:double-quote");
    }
    if !c.puzzle.is_ascii() {
        st.class("blank-symbol:non-ascii");
    }
    if c.puzzle.contains('\n') {
        st.class("layout:line-breaks");
    }
    let j = c.to_json();
    if c.root >= 2 {
        if st.nontrivial(fnv_str(&j.to_string())) {
            st.nt_sample(|| json!({"case": j, "solutions": rep.solutions, "exact": rep.exact}));
        }
    } else if st.want_sample() {
        st.sample(j);
    }
}

pub fn run(ctx: &mut Ctx) -> Result<(), Violation> {
    ctx.rule = "cases = (root r, puzzle text): hint patterns empty / full valid grid / partial valid / contradictory (equal givens in a row) / random givens, layouts with line breaks, spaces, tabs, CRLF, short and over-long inputs, blank symbols drawn from printable non-digit ASCII INCLUDING the double quote and a few non-ASCII characters; givens are digits 1..r^2. The sudoku_gen binary built from the working tree is run with file and stdin input (must agree). \
                Oracle: independent back-tracking sudoku enumerator. r <= 2 (and r = 3 whenever the puzzle has fewer than 40 solutions and the enumeration finishes within its step bound): ALL models of the emitted text (reduced by the reference parser to literals and cardinality constraints, enumerated by a cardinality back-tracker) must equal, one-to-one, the reference grids. Every r: the emitted literals and cardinality constraints are compared with the reference system (cells, rows, columns, boxes, givens); for each reference constraint not literally present a bounded back-tracking search looks for a model of the emitted system that violates it. Every r (incl. 3): every reference solution satisfies the formula (pointwise reference evaluation) and near-misses (swap two cells, change a cell, extra value, emptied cell, broken given) are classified exactly as the reference classifier 'completed grid keeping the givens' does. \
                Non-trivial = case with r >= 2; distinct by (root, puzzle text). evaluations counts assignments / models compared."
        .to_string();
    ctx.assume("givens are digits between 1 and r^2; `0` and digits above r^2 are not generated (outside the property's domain)");

    let mut fixed = vec![
        Case { root: 1, puzzle: "".into() },
        Case { root: 1, puzzle: "1".into() },
        Case { root: 2, puzzle: "".into() },
        Case { root: 2, puzzle: "1234341221434321".into() },
        Case { root: 2, puzzle: "1...\n..1.\n....\n....".into() },
        Case { root: 2, puzzle: "11..............".into() },
        Case { root: 2, puzzle: "\"2\"\"\n3\"\"\"".into() },
        Case { root: 2, puzzle: "1\" 2\" .. ..".into() },
        Case { root: 3, puzzle: "53..7....6..195....98....6.8...6...34..8.3..17...2...6.6....28....419..5....8..79".into() },
        Case { root: 4, puzzle: "".into() },
        Case { root: 4, puzzle: "1.2.3.4.5.6.7.8.\n9...............".into() },
    ];
    // roots 5 (and, thorough, 6): cell indices beyond 255 / 1023, givens in late cells
    for root in ctx.tier.pick(vec![5usize], vec![5usize, 6]) {
        let sq = root * root;
        let cell = |r: usize, c: usize| (root * (r % root) + r / root + c) % sq + 1;
        let mut full = String::new();
        let mut late = String::new();
        let mut sparse = String::new();
        for r in 0..sq {
            for c in 0..sq {
                let d = cell(r, c);
                let ch = if d <= 9 { char::from_digit(d as u32, 10).unwrap() } else { '.' };
                full.push(ch);
                late.push(if r * sq + c >= 256 { ch } else { '_' });
                sparse.push(if (r * 7 + c * 3) % 11 == 0 { ch } else { '-' });
            }
            full.push('\n');
        }
        fixed.push(Case { root, puzzle: String::new() });
        fixed.push(Case { root, puzzle: full });
        fixed.push(Case { root, puzzle: late });
        fixed.push(Case { root, puzzle: sparse });
    }
    if let Ok(s) = std::fs::read_to_string("/repo/examples/in_progress/sudoku_puzzle.txt") {
        fixed.push(Case { root: 3, puzzle: s });
    }
    fixed.retain(|c| givens(c.root, &c.puzzle).is_some());
    let r = par_jobs(ctx, &fixed, |c, st| {
        let rep = check_case(c)?;
        record(c, &rep, st);
        Ok(())
    });
    ctx.stage("hand-written-puzzles", true, r)?;

    // r = 2: every puzzle with at most one given (quick) / at most two givens (thorough): exact equality
    let mut small: Vec<Case> = Vec::new();
    let blank = |giv: &Vec<Option<usize>>| -> String { giv.iter().map(|g| g.map(|d| d.to_string()).unwrap_or_else(|| ".".into())).collect() };
    for c1 in 0..16usize {
        for d1 in 1..=4usize {
            let mut g = vec![None; 16];
            g[c1] = Some(d1);
            small.push(Case { root: 2, puzzle: blank(&g) });
            if ctx.tier == Tier::Thorough {
                for c2 in (c1 + 1)..16 {
                    for d2 in 1..=4usize {
                        let mut h = g.clone();
                        h[c2] = Some(d2);
                        small.push(Case { root: 2, puzzle: blank(&h) });
                    }
                }
            }
        }
    }
    let r = par_jobs(ctx, &small, |c, st| {
        let rep = check_case(c)?;
        record(c, &rep, st);
        st.class("r2-all-puzzles-with-few-givens");
        Ok(())
    });
    ctx.stage("r2-all-puzzles-with-few-givens", true, r)?;

    let cases = ctx.tier.cases(1_000, 40_000);
    let r = par_random(ctx, "random-puzzles", cases, 200, |tape, st| {
        let mut t = Tape::new(tape);
        let c = gen_case(&mut t, true);
        if givens(c.root, &c.puzzle).is_none() {
            st.discarded += 1;
            return Ok(());
        }
        let rep = check_case(&c)?;
        record(&c, &rep, st);
        Ok(())
    });
    ctx.stage("random-puzzles", false, r)?;
    Ok(())
}

pub fn replay(case: &Value) -> Check {
    match (case["root"].as_u64(), case["puzzle"].as_str()) {
        (Some(r), Some(p)) if (1..=5).contains(&r) => check_case(&Case {
            root: r as usize,
            puzzle: p.to_string(),
        })
        .map(|_| ()),
        _ => Err(Violation::new("unreadable replay case", case.clone())),
    }
}
