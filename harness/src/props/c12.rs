//! C12 — no input makes the parser or the command-line tool panic.

use crate::cli;
use crate::engine::*;
use crate::front;
use crate::gen::{self, Cfg};
use crate::props::c08::{case_bytes, SPELLINGS};
use crate::props::c09::{ordering_from, ordering_json, to_symbols, Ordering};
use crate::rlex;
use crate::rparse;
use crate::rprint;
use crate::util::{self, fnv, Tape};
use rsbdd::bdd_io::BDDGraph;
use rsbdd::parser::SymbolicBDD;
use rsbdd::parser_io::SymbolicParseTree;
use rsbdd::TruthTableEntry;
use serde_json::{json, Value};
use std::io::BufReader;
use std::time::Duration;

pub const MAX_BYTES: usize = 64 * 1024;
pub const MAX_DEPTH: usize = 200;

fn bytes_json(kind: &str, b: &[u8]) -> Value {
    match std::str::from_utf8(b) {
        Ok(s) => json!({"kind": kind, "text": s}),
        Err(_) => json!({"kind": kind, "bytes": b}),
    }
}

#[derive(Debug, Default, Clone)]
pub struct Seen {
    pub utf8: bool,
    pub tokens: usize,
    pub parse_ok: bool,
    pub evaluated: bool,
    pub eval_skipped_cost: bool,
    pub eval_skipped_nonmonotone: bool,
    pub fp_limit_hit: bool,
    pub too_deep: bool,
}

/// Is evaluation of this (accepted) text inside the property's domain and within the
/// harness's cost bound?  (depth <= 200, every fixed point converges - guaranteed here by
/// syntactic monotonicity, or observed under the iteration limit for small cases.)
fn eval_plan(p: &rparse::Parsed) -> (bool, Option<usize>, bool, bool) {
    // returns (evaluate?, fp limit, skipped for cost, skipped for non-monotone)
    let names = rlex::identifiers(&p.tokens).len();
    if names > 12 || p.ast.max_list() > 12 || p.ast.size() > 4000 {
        return (false, None, true, false);
    }
    // worst-case work estimate (pure harness cost bound): counting is 2^len, a fixed point
    // multiplies its body by the lattice height
    let iters = (1u64 << names.min(20)) + 2;
    if work(&p.ast, iters) > 3_000_000 {
        return (false, None, true, false);
    }
    if !p.ast.has_fix() {
        return (true, None, false, false);
    }
    if gen::syntactically_monotone(&p.ast) {
        // converges within the lattice height
        return (true, Some((1usize << names) + 2), false, false);
    }
    // not syntactically monotone: may or may not converge; observe under the limit for small cases
    if names <= 5 && p.ast.size() <= 60 {
        (true, Some((1usize << names) + 2), false, false)
    } else {
        (false, None, false, true)
    }
}

fn work(a: &crate::rast::RAst, iters: u64) -> u64 {
    use crate::rast::RAst;
    let kids: u64 = a.children().iter().map(|c| work(c, iters)).fold(0u64, |x, y| x.saturating_add(y));
    match a {
        RAst::CountConst(_, l, _) => kids.saturating_add(1u64 << l.len().min(40)),
        RAst::CountList(_, l, r) => kids.saturating_add(1u64 << (l.len() + r.len()).min(40)),
        RAst::Fix(..) => kids.saturating_add(1).saturating_mul(iters),
        _ => kids.saturating_add(1),
    }
}

pub fn check_inprocess(bytes: &[u8], ordering: &Option<Ordering>) -> Result<Seen, Violation> {
    let mut cj = bytes_json("in-process", bytes);
    cj["ordering"] = ordering_json(ordering);
    let v = |what: &str, p: String| {
        let site = p.split(" @ ").nth(1).unwrap_or("").to_string();
        Violation::new(format!("{} panicked: {}", what, p), cj.clone()).sig(format!("panic@{}", site))
    };
    let mut seen = Seen::default();
    if bytes.len() > MAX_BYTES {
        return Err(Violation::new("HARNESS: input above 64 KiB", cj.clone()));
    }
    let as_str = std::str::from_utf8(bytes).ok();
    seen.utf8 = as_str.is_some();
    let ref_tokens = as_str.and_then(|s| rlex::lex(s).ok());
    if let Some(t) = &ref_tokens {
        seen.tokens = t.len() - 1;
        if rparse::token_nesting(t) > MAX_DEPTH {
            // decide by the real tree depth when the text is a sentence
            let deep = match rparse::parse_tokens(t) {
                Ok((ast, _)) => ast.depth() > MAX_DEPTH,
                Err(_) => true,
            };
            if deep {
                seen.too_deep = true;
                return Ok(seen);
            }
        }
    }
    // 1. tokenizer
    let ord = to_symbols(ordering);
    let o1 = ord.clone();
    if let Err(p) = util::catch(|| {
        let mut rd = BufReader::new(bytes);
        let _ = SymbolicBDD::tokenize(&mut rd, o1);
    }) {
        return Err(v("tokenize", p));
    }
    // 2. parser
    let o2 = ord.clone();
    let pf = match util::catch(|| front::parse(bytes, o2)) {
        Err(p) => return Err(v("ParsedFormula::new", p)),
        Ok(Err(_)) => return Ok(seen),
        Ok(Ok(pf)) => pf,
    };
    seen.parse_ok = true;
    // 3. parse-tree export
    if let Err(p) = util::catch(|| {
        let mut out = Vec::new();
        let _ = SymbolicParseTree::new(&pf.bdd).render_dot(&mut out);
    }) {
        return Err(v("parse-tree export", p));
    }
    // 4. evaluation, inside the domain only
    let reference = match (as_str, &ref_tokens) {
        (Some(_), Some(t)) => rparse::parse_tokens(t).ok().map(|(ast, d)| rparse::Parsed {
            ast,
            max_depth: d,
            tokens: t.clone(),
        }),
        _ => None,
    };
    let reference = match reference {
        Some(r) => r,
        None => return Ok(seen), // accepted by the implementation only: C08's business
    };
    let (do_eval, limit, cost, nonmono) = eval_plan(&reference);
    seen.eval_skipped_cost = cost;
    seen.eval_skipped_nonmonotone = nonmono;
    if !do_eval {
        return Ok(seen);
    }
    if reference.ast.has_fix() && !gen::syntactically_monotone(&reference.ast) {
        // "formulas whose fixed points converge": membership in the domain is decided by the
        // reference semantics (Kleene iteration on truth tables), never by how the implementation
        // happens to behave on a divergent iteration (hang, diagnostic, abort are all outside)
        let names = rlex::identifiers(&reference.tokens);
        if crate::rsem::table(&reference.ast, &names).is_err() {
            seen.fp_limit_hit = true;
            return Ok(seen);
        }
    }
    rsbdd::bdd::verif_hooks::set_fp_iteration_limit(limit);
    let r = util::catch(|| pf.eval());
    rsbdd::bdd::verif_hooks::set_fp_iteration_limit(None);
    let result = match r {
        Ok(b) => b,
        Err(p) => {
            if p.contains("rsbdd-verif: fp iteration limit") {
                if gen::syntactically_monotone(&reference.ast) {
                    return Err(Violation::new(
                        "evaluation of a monotone fixed point exceeded the lattice height: does not terminate",
                        cj.clone(),
                    ));
                }
                // not convergent: outside the property's domain
                seen.fp_limit_hit = true;
                return Ok(seen);
            }
            return Err(v("eval", p));
        }
    };
    seen.evaluated = true;
    // 5. diagram export and the table-column lookups the CLI performs
    if let Err(p) = util::catch(|| {
        for f in [TruthTableEntry::Any, TruthTableEntry::True, TruthTableEntry::False] {
            let mut out = Vec::new();
            let _ = BDDGraph::new(&result, f).render_dot(&mut out);
        }
        let m = pf.env.model(result.clone());
        let _ = pf.env.retain_choice_bottom_up(result.clone(), TruthTableEntry::True);
        let _ = pf.env.retain_choice_bottom_up(result.clone(), TruthTableEntry::False);
        for node in crate::plain::reachable(&result).iter().chain(crate::plain::reachable(&m).iter()) {
            if let rsbdd::bdd::BDD::Choice(_, s, _) = node.as_ref() {
                let _ = pf.to_free_index(s);
            }
        }
    }) {
        return Err(v("export / model / column lookup", p));
    }
    Ok(seen)
}

#[derive(Clone, Debug)]
pub struct CliCase {
    pub formula: Vec<u8>,
    /// "arg" | "file" | "stdin"
    pub channel: String,
    pub ordering: Option<Vec<u8>>,
    pub opts: Vec<String>,
}

impl CliCase {
    pub fn to_json(&self) -> Value {
        let mut j = bytes_json("cli", &self.formula);
        j["channel"] = json!(self.channel);
        j["opts"] = json!(self.opts);
        j["ordering_file"] = match &self.ordering {
            None => Value::Null,
            Some(b) => match std::str::from_utf8(b) {
                Ok(s) => json!({"text": s}),
                Err(_) => json!({"bytes": b}),
            },
        };
        j
    }
    pub fn from_json(v: &Value) -> Option<CliCase> {
        Some(CliCase {
            formula: case_bytes(v)?,
            channel: v["channel"].as_str()?.to_string(),
            ordering: if v["ordering_file"].is_null() {
                None
            } else {
                Some(case_bytes(&v["ordering_file"])?)
            },
            opts: v["opts"].as_array()?.iter().filter_map(|x| x.as_str().map(|s| s.to_string())).collect(),
        })
    }
}

/// Is it safe (terminating, bounded) to hand this text to the binary, which always evaluates?
fn cli_domain(bytes: &[u8]) -> bool {
    let s = match std::str::from_utf8(bytes) {
        Ok(s) => s,
        Err(_) => return true, // rejected before evaluation
    };
    let toks = match rlex::lex(s) {
        Ok(t) => t,
        Err(_) => return true,
    };
    match rparse::parse_tokens(&toks) {
        Err(_) => rparse::token_nesting(&toks) <= MAX_DEPTH,
        Ok((ast, d)) => {
            if ast.depth() > MAX_DEPTH {
                return false;
            }
            let p = rparse::Parsed {
                ast,
                max_depth: d,
                tokens: toks,
            };
            let (ev, _, _, _) = eval_plan(&p);
            ev && gen::syntactically_monotone(&p.ast) && rlex::identifiers(&p.tokens).len() <= 10
        }
    }
}

pub fn check_cli(c: &CliCase) -> Result<bool, Violation> {
    if !cli_domain(&c.formula) {
        return Ok(false);
    }
    run_cli(c)
}

/// Cheap formulas over many variables (conjunctions, disjunctions, alternating cubes, one counting
/// list, one quantifier): the domain rule of `cli_domain` (<= 10 names) is about cost, these are cheap.
pub fn wide_cli_formula(n: usize, shape: usize) -> String {
    let v: Vec<String> = (0..n).map(|i| format!("x{}", i)).collect();
    match shape % 6 {
        0 => v.join(" & "),
        1 => v.join(" | "),
        2 => v.iter().enumerate().map(|(i, x)| if i % 2 == 0 { x.clone() } else { format!("-{}", x) }).collect::<Vec<_>>().join(" & "),
        3 => format!("({}) & (y0 ^ y1)", v.join(" & ")),
        4 => format!("(exists x0, x{} # {}) | -z", n - 1, v.join(" & ")),
        _ => format!("([{}] >= 1) & ({})", v[..8.min(n)].join(", "), v.join(" & ")),
    }
}

pub fn run_cli(c: &CliCase) -> Result<bool, Violation> {
    let cj = c.to_json();
    let scratch = cli::Scratch::new();
    let mut args: Vec<String> = Vec::new();
    let mut stdin: Option<&[u8]> = None;
    match c.channel.as_str() {
        "arg" => match std::str::from_utf8(&c.formula) {
            Ok(s) if !s.contains('\0') => args.push(format!("--evaluate={}", s)),
            _ => {
                let p = scratch.file("formula.txt", &c.formula);
                args.push(p.to_string_lossy().into_owned());
            }
        },
        "file" => {
            let p = scratch.file("formula.txt", &c.formula);
            args.push(p.to_string_lossy().into_owned());
        }
        "missing-file" => args.push(scratch.path("no/such/formula.txt").to_string_lossy().into_owned()),
        "directory" => args.push(scratch.dir.to_string_lossy().into_owned()),
        _ => stdin = Some(&c.formula),
    }
    if let Some(o) = &c.ordering {
        let p = scratch.file("ordering.txt", o);
        args.push("-o".into());
        args.push(p.to_string_lossy().into_owned());
    }
    for o in &c.opts {
        // placeholders for paths inside the scratch directory
        let o = o
            .replace("{DIR}", &scratch.dir.to_string_lossy())
            .replace("{MISSING}", &scratch.path("no/such/dir/file").to_string_lossy());
        args.push(o);
    }
    let out = cli::run(&cli::bin("rsbdd"), &args, stdin, Duration::from_secs(30));
    if out.timed_out {
        return Ok(false);
    }
    if out.panicked() {
        let site = out
            .err()
            .lines()
            .find(|l| l.contains("panicked at"))
            .unwrap_or("")
            .to_string();
        return Err(Violation::new(
            format!("rsbdd panicked / aborted: {}", out.describe()),
            cj,
        )
        .sig(format!("cli-panic:{}", site)));
    }
    // a refusal must come with a message; a non-zero status next to regular output is not a refusal
    // (exit statuses are not prescribed)
    let wrote_file = ["out.dot", "tree.dot"]
        .iter()
        .any(|f| std::fs::metadata(scratch.path(f)).map(|m| m.len() > 0).unwrap_or(false));
    // "report an error as ... a non-zero exit with a message": judged where the reference knows the
    // request cannot be served (formula not a sentence / not UTF-8, missing file, directory). What
    // status a SERVED request ends with is not prescribed.
    let servable = matches!(c.channel.as_str(), "arg" | "file" | "stdin")
        && std::str::from_utf8(&c.formula).ok().and_then(|s| rparse::parse_text(s.as_bytes()).ok()).is_some();
    if !servable && out.code != Some(0) && out.err().trim().is_empty() && out.out().trim().is_empty() && !wrote_file {
        return Err(Violation::new(
            format!("rsbdd exited with {:?} without any message or output", out.code),
            cj,
        ));
    }
    Ok(true)
}

fn record(kind: &str, bytes: &[u8], s: &Seen, st: &mut Stats) {
    st.eval();
    st.class(kind);
    st.class(if s.utf8 { "utf8-valid" } else { "utf8-invalid" });
    if s.too_deep {
        st.class("skipped:deeper-than-200(out of domain)");
        st.discarded += 1;
    }
    if s.parse_ok {
        st.class("parse-ok");
    } else {
        st.class("parse-err");
    }
    if s.evaluated {
        st.class("evaluated");
    }
    if s.eval_skipped_cost {
        st.class("parse-only:cost-bound");
    }
    if s.eval_skipped_nonmonotone {
        st.class("parse-only:non-monotone-fixed-point");
    }
    if s.fp_limit_hit {
        st.class("non-convergent-fixed-point(out of domain)");
    }
    if s.tokens >= 3 {
        if st.nontrivial(fnv(bytes)) && bytes.len() < 200 {
            st.nt_sample(|| bytes_json(kind, bytes));
        }
    } else if st.want_sample() && bytes.len() < 200 {
        st.sample(bytes_json(kind, bytes));
    }
}

fn numbers() -> Vec<String> {
    vec![
        "0".into(),
        "00000000000000000000000000000000000001".into(),
        "4294967295".into(),
        "4294967296".into(),
        "9223372036854775807".into(),
        "9223372036854775808".into(),
        "18446744073709551615".into(),
        "18446744073709551616".into(),
        "99999999999999999999999999999999".into(),
        "\u{663}".into(),
        "1\u{663}".into(),
        "\u{ff11}\u{ff12}".into(),
        "\u{1d7d9}".into(),
        "1_000".into(),
        "1e3".into(),
        "0x10".into(),
        "-1".into(),
        "+1".into(),
        "1.5".into(),
        "".into(),
    ]
}

fn structured_inputs() -> Vec<Vec<u8>> {
    let mut v: Vec<Vec<u8>> = Vec::new();
    for n in numbers() {
        for op in ["=", "<=", ">=", "<", ">"] {
            v.push(format!("[a, b] {} {}", op, n).into_bytes());
            v.push(format!("[] {} {}", op, n).into_bytes());
            v.push(format!("{} {} [a]", n, op).into_bytes());
            v.push(format!("[a]{}{}&b", op, n).into_bytes());
        }
        v.push(n.clone().into_bytes());
        v.push(format!("exists {} # a", n).into_bytes());
        v.push(format!("lfp {} # a", n).into_bytes());
        v.push(format!("{{{}}}", n).into_bytes());
    }
    for s in [
        "", " ", "\"", "\"\"", "\"a", "a\"", "(", ")", "((", "(a", "a)", "[", "]", "[a", "a]", "[a,", "[,]", "[a] =", "[a] = [",
        "{", "}", "{}", "{a", "a}", "#", "exists", "exists #", "exists a", "exists a #", "lfp", "lfp X", "lfp X #", "if", "if a",
        "if a then", "if a then b", "if a then b else", "-", "--", "- -", "a &", "& a", "a & & b", "a b", "true false", "\0", "a\0b",
        "\u{feff}a", "a\u{301}", "\u{200d}", "'", "''", "a''", "_", "__", "\r\n", "\t", "a\r\n&\r\nb",
    ] {
        v.push(s.as_bytes().to_vec());
    }
    // long tokens of every class made of characters of mixed byte width: whatever echoes,
    // truncates, pads or aligns user text (error messages, table headers) must do so on
    // character boundaries. p ASCII characters shift the wide ones over every byte offset.
    for (ascii, wide) in [('1', ['\u{663}', '\u{969}', '\u{1d7d9}']), ('a', ['\u{e9}', '\u{3042}', '\u{1d41a}'])] {
        for w in wide {
            for p in 0..4usize {
                for n in [1usize, 2, 3, 5, 6, 7, 8, 9, 10, 11, 12, 13, 15, 16, 17, 20, 21, 23, 24, 25, 31, 32, 33, 40, 63, 64, 65, 100] {
                    let tok: String = std::iter::repeat(ascii).take(p).chain(std::iter::repeat(w).take(n)).collect();
                    if ascii == '1' {
                        v.push(format!("[a] >= {}", tok).into_bytes());
                        v.push(tok.clone().into_bytes());
                    } else {
                        v.push(format!("{} & -{}", tok, tok).into_bytes());
                        v.push(format!("{} {}", tok, tok).into_bytes());
                        v.push(format!("{{{}}}", tok).into_bytes());
                        v.push(format!("exists {} # ({} | b", tok, tok).into_bytes());
                        v.push(format!("\"{}\" a \"{}", tok, tok).into_bytes());
                    }
                }
            }
        }
    }
    // invalid UTF-8
    v.push(vec![0xff]);
    v.push(vec![b'a', 0x80, b'b']);
    v.push(vec![0xc3]);
    v.push(vec![b'[', b'a', b']', b'=', 0xf0, 0x9f]);
    // depth 200 chains
    v.push(format!("{}a{}", "(".repeat(199), ")".repeat(199)).into_bytes());
    v.push(format!("{}a", "-".repeat(199)).into_bytes());
    v.push(format!("{}a", "not ".repeat(199)).into_bytes());
    v.push(format!("{}a", "a & ".repeat(198)).into_bytes());
    v.push(format!("{}a", "exists x # ".repeat(199)).into_bytes());
    v.push(format!("{}a{}", "[".repeat(100), "] >= 1".repeat(100)).into_bytes());
    v.push(format!("{}a{}", "if a then b else ".repeat(66), "").into_bytes());
    v.push(format!("{}X", "lfp X # ".repeat(60)).into_bytes());
    // unbalanced deep
    v.push("(".repeat(200).into_bytes());
    v.push(")".repeat(200).into_bytes());
    v.push("[".repeat(200).into_bytes());
    // 64 KiB inputs (flat, shallow)
    let mut big = String::from("[");
    while big.len() < MAX_BYTES - 32 {
        big.push_str("a,b,c,");
    }
    big.push_str("] >= 3");
    v.push(big.into_bytes());
    let mut comment = String::from("\"");
    while comment.len() < MAX_BYTES - 8 {
        comment.push_str("xyz ");
    }
    comment.push_str("\" a");
    v.push(comment.into_bytes());
    v.push(vec![b'@'; MAX_BYTES]);
    v.push("9".repeat(MAX_BYTES).into_bytes());
    v.push("a".repeat(MAX_BYTES).into_bytes());
    let mut many = String::new();
    let mut i = 0;
    while many.len() < MAX_BYTES - 16 {
        many.push_str(&format!("v{} ", i));
        i += 1;
    }
    v.push(many.into_bytes());
    v
}

fn gen_bytes(t: &mut Tape, st: &mut Stats) -> (String, Vec<u8>) {
    match t.choose(9) {
        0 => {
            let n = t.choose(64);
            ("random-bytes".into(), (0..n).map(|_| t.byte()).collect())
        }
        8 => {
            // long tokens of mixed byte width (digits or word characters) in a small frame
            const D: [char; 5] = ['1', '9', '\u{663}', '\u{969}', '\u{1d7d9}'];
            const W: [char; 6] = ['a', '_', '\'', '\u{e9}', '\u{3042}', '\u{1d41a}'];
            let digits = t.chance(128);
            let n = 1 + t.choose(48);
            let tok: String = (0..n)
                .map(|_| if digits { D[t.choose(D.len())] } else { W[t.choose(W.len())] })
                .collect();
            let text = match t.choose(6) {
                0 => format!("[a, b] >= {}", tok),
                1 => format!("{} = [a]", tok),
                2 => format!("a & {}", tok),
                3 => format!("{{{}}} | a", tok),
                4 => format!("forall {} # {} ^ a )", tok, tok),
                _ => format!("a \"{}", tok),
            };
            ("long-mixed-width-token".into(), text.into_bytes())
        }
        1 => {
            // bytes drawn from the language's own characters
            const CH: &[u8] = b"ab X'_019(){}[],#<=>-!&|^*+\" \n@\\\xc3\xa9\xff\0";
            let n = t.choose(48);
            ("language-characters".into(), (0..n).map(|_| CH[t.choose(CH.len())]).collect())
        }
        2 | 3 => {
            let n = t.choose(40);
            let mut s = String::new();
            for _ in 0..n {
                s.push_str(SPELLINGS[t.choose(SPELLINGS.len())]);
                s.push_str(["", " ", " ", "\n"][t.choose(4)]);
            }
            ("token-soup".into(), s.into_bytes())
        }
        4 | 5 => {
            let mut cfg = Cfg::standard(2 + t.choose(5), 1 + t.choose(5));
            cfg.allow_ref = true;
            let ast = gen::formula(t, &cfg);
            let mut words: Vec<String> = rprint::plain(&ast).split(' ').map(|s| s.to_string()).collect();
            let n = t.choose(3);
            for _ in 0..n {
                if words.is_empty() {
                    break;
                }
                let i = t.choose(words.len());
                match t.choose(4) {
                    0 => {
                        words.remove(i);
                    }
                    1 => words.insert(i, SPELLINGS[t.choose(SPELLINGS.len())].to_string()),
                    2 => words[i] = numbers()[t.choose(20)].clone(),
                    _ => words[i] = SPELLINGS[t.choose(SPELLINGS.len())].to_string(),
                }
            }
            let _ = st;
            ("mutated-valid-formula".into(), words.join(" ").into_bytes())
        }
        _ => {
            // non-monotone / arbitrary fixed points and references in valid formulas
            let mut cfg = Cfg::standard(2 + t.choose(3), 1 + t.choose(4));
            cfg.allow_ref = true;
            cfg.fix_var_bias = 60;
            let ast = gen::formula(t, &cfg);
            let text = rprint::decorated(&ast, t);
            // swap some polarity: replace one "&" by "^" to create non-monotone bodies sometimes
            let text = if t.chance(90) { text.replacen('&', "^", 1) } else { text };
            ("valid-formula-maybe-nonmonotone".into(), text.into_bytes())
        }
    }
}

fn gen_ordering(t: &mut Tape) -> Option<Ordering> {
    if t.chance(170) {
        return None;
    }
    let pool = ["a", "b", "c", "x", "y", "X", "a'", "_1", "u0", "zz", "true", "and", "1", "", "{r}"];
    let n = t.choose(7);
    let mut out: Ordering = Vec::new();
    for _ in 0..n {
        let name = pool[t.choose(pool.len())].to_string();
        let id = t.choose(24);
        if out.iter().any(|(m, i)| *m == name || *i == id) {
            continue;
        }
        out.push((name, id));
    }
    Some(out)
}

const OPTS: [&[&str]; 29] = [
    &["-b", "2"],
    &["-b", "4"],
    &["-b", "5"],
    &["--benchmark=6"],
    &["-o", "{MISSING}"],
    &["-o", "{DIR}"],
    &["--ordering={MISSING}"],
    &["-t"],
    &["-v"],
    &["-m"],
    &["-r"],
    &["-t", "-v"],
    &["-m", "-t"],
    &["-d", "{DIR}/out.dot"],
    &["-p", "{DIR}/tree.dot"],
    &["-d", "{MISSING}"],
    &["-p", "{MISSING}"],
    &["-d", "{DIR}"],
    &["-f", "t"],
    &["-f", "False"],
    &["-f", "maybe"],
    &["-c", "t"],
    &["-c", "f"],
    &["-c", "x"],
    &["-b", "1"],
    &["-b", "3"],
    &["-b", "0"],
    &["-b", "-1"],
    &["--nonsense"],
];

pub fn run(ctx: &mut Ctx) -> Result<(), Violation> {
    ctx.rule = "cases = byte strings given as formula (and as ordering): random bytes incl. invalid UTF-8 and NUL, strings over the language's characters, token soups over every spelling/alias/decoy, generated valid formulas under token mutations and number substitutions (extreme, 30-digit, non-ASCII, signed, fractional digits next to every counting operator), \
                unbalanced brackets/quotes, empty input, depth-200 chains of parentheses / negations / operators / binders / lists, 64 KiB inputs; in-process orderings = arbitrary NamedSymbol vectors (distinct names and ids < 24, incl. keyword-like and empty names). \
                In-process (catch_unwind, 512 MiB stacks): tokenize, ParsedFormula::new, parse-tree DOT, and - only inside the property's domain (depth <= 200, fixed points syntactically monotone or observed convergent under the fp iteration-limit hook; <= 12 names and lists <= 12 as a pure cost bound) - eval, BDD DOT for the three filters, model, retain, and every id->column lookup the CLI would make. \
                CLI: the rsbdd binary built from the working tree with the bytes via --evaluate / file / stdin and as -o file, under random option sets (-t -v -m -r -d -p -f -c -b -o, missing and directory paths for the formula, the ordering and the output files, invalid values); violation <=> exit status 101, death by signal, or `panicked at` on stderr. A time-out is never a violation. \
                Non-trivial = input that tokenises to >= 3 tokens; distinct by bytes."
        .to_string();
    ctx.assume("-g is excluded (it spawns gnuplot)");
    ctx.assume("a fixed point that is not syntactically monotone is evaluated only for small cases under the iteration limit; hitting the limit means 'not convergent', which is outside the property's domain");

    // structured corpus, in-process, with and without orderings
    let inputs = structured_inputs();
    let ords: Vec<Option<Ordering>> = vec![
        None,
        Some(vec![("zz".into(), 0), ("a".into(), 1), ("b".into(), 5)]),
        Some(vec![("b".into(), 3), ("u".into(), 7)]),
    ];
    let n = (inputs.len() * ords.len()) as u64;
    let r = par_exhaustive(ctx, n, |i, st| {
        let b = &inputs[i as usize % inputs.len()];
        let o = &ords[i as usize / inputs.len()];
        let s = check_inprocess(b, o)?;
        record("structured-corpus", b, &s, st);
        Ok(())
    });
    ctx.stage("structured-corpus-in-process", true, r)?;

    // repository formula files
    let mut files: Vec<Vec<u8>> = Vec::new();
    for dir in ["/repo/tests/data", "/repo/examples", "/repo"] {
        if let Ok(rd) = std::fs::read_dir(dir) {
            let mut paths: Vec<_> = rd.filter_map(|e| e.ok().map(|e| e.path())).collect();
            paths.sort();
            for p in paths {
                if p.is_file() {
                    if let Ok(b) = std::fs::read(&p) {
                        if b.len() <= MAX_BYTES {
                            files.push(b);
                        }
                    }
                }
            }
        }
    }
    let r = par_jobs(ctx, &files, |b, st| {
        let s = check_inprocess(b, &None)?;
        record("repository-file", b, &s, st);
        Ok(())
    });
    ctx.stage("repository-files-in-process", true, r)?;

    let cases = ctx.tier.cases(500_000, 10_000_000);
    let r = par_random(ctx, "random-in-process", cases, 220, |tape, st| {
        let mut t = Tape::new(tape);
        let (kind, bytes) = gen_bytes(&mut t, st);
        let ord = gen_ordering(&mut t);
        if ord.is_some() {
            st.class("with-ordering");
        }
        let s = check_inprocess(&bytes, &ord)?;
        record(&kind, &bytes, &s, st);
        Ok(())
    });
    ctx.stage("random-in-process", false, r)?;

    // CLI
    let mut jobs: Vec<CliCase> = Vec::new();
    let mut rng = util::Rng::new(ctx.seed ^ 0xC12);
    let corpus: Vec<Vec<u8>> = inputs.iter().filter(|b| b.len() <= 4096).cloned().collect();
    let ncli = ctx.tier.pick(1500usize, 30_000usize);
    for i in 0..ncli {
        let formula: Vec<u8> = if i % 2 == 0 {
            corpus[rng.below(corpus.len())].clone()
        } else {
            let tape = rng.bytes(200);
            let mut t = Tape::new(&tape);
            gen_bytes(&mut t, &mut Stats::default()).1
        };
        let channel = ["arg", "file", "stdin", "arg", "file", "stdin", "missing-file", "directory"][rng.below(8)].to_string();
        let ordering = match rng.below(4) {
            0 => Some(corpus[rng.below(corpus.len())].clone()),
            1 => Some(b"zz a, b; x\ny y 'q' \"c\" [1] & u0".to_vec()),
            _ => None,
        };
        let mut opts: Vec<String> = Vec::new();
        let k = rng.below(4);
        for _ in 0..k {
            for o in OPTS[rng.below(OPTS.len())] {
                opts.push(o.to_string());
            }
        }
        jobs.push(CliCase {
            formula,
            channel,
            ordering,
            opts,
        });
    }
    let r = par_jobs(ctx, &jobs, |c, st| {
        st.eval();
        let ran = check_cli(c)?;
        if ran {
            st.class(&format!("cli:channel-{}", c.channel));
            if c.ordering.is_some() {
                st.class("cli:with-ordering-file");
            }
            for o in &c.opts {
                if o.starts_with('-') && o.len() <= 3 {
                    st.class(&format!("cli:opt{}", o));
                }
            }
            if st.nontrivial(fnv(c.to_json().to_string().as_bytes())) && c.formula.len() < 120 {
                st.nt_sample(|| c.to_json());
            }
        } else {
            st.class("cli:skipped-or-timeout(out of domain / inconclusive)");
            st.discarded += 1;
        }
        Ok(())
    });
    ctx.stage("cli-spawns", false, r)?;

    // formulas over more variables than a machine word has bits, every output option
    let mut wjobs: Vec<CliCase> = Vec::new();
    let wsizes: Vec<usize> = ctx.tier.pick(vec![33, 65, 70, 129, 257], vec![31, 33, 63, 64, 65, 66, 70, 127, 128, 129, 130, 255, 256, 257, 300, 520]);
    const WOPTS: [&[&str]; 12] = [
        &["-t"],
        &["-t", "-f", "t"],
        &["-t", "-f", "False"],
        &["-v"],
        &["-t", "-v"],
        &["-m", "-t"],
        &["-m", "-v"],
        &["-c", "t", "-t"],
        &["-c", "f", "-v"],
        &["-r", "-t", "-f", "t"],
        &["-d", "{DIR}/out.dot", "-p", "{DIR}/tree.dot"],
        &["-b", "2", "-v"],
    ];
    for (i, n) in wsizes.iter().enumerate() {
        for shape in 0..6 {
            for (j, o) in WOPTS.iter().enumerate() {
                if ctx.tier == Tier::Quick && (i + shape + j) % 3 != 0 {
                    continue;
                }
                wjobs.push(CliCase {
                    formula: wide_cli_formula(*n, shape).into_bytes(),
                    channel: ["arg", "file", "stdin"][(i + j) % 3].to_string(),
                    ordering: None,
                    opts: o.iter().map(|s| s.to_string()).collect(),
                });
            }
        }
    }
    let r = par_jobs(ctx, &wjobs, |c, st| {
        st.eval();
        let ran = run_cli(c)?;
        if ran {
            st.class("cli-wide:ran");
            if st.nontrivial(fnv(c.to_json().to_string().as_bytes())) && c.formula.len() < 400 {
                st.nt_sample(|| c.to_json());
            }
        } else {
            st.class("cli-wide:timeout(inconclusive)");
            st.discarded += 1;
        }
        Ok(())
    });
    ctx.stage("cli-wide-formulas-every-output-option", true, r)?;
    if ctx.tier == Tier::Thorough {
        let seeds: Vec<Vec<u8>> = files.iter().filter(|b| b.len() < 4000).cloned().collect();
        let r = fuzz_stage(ctx, "nopanic", 3_000_000, 400, &seeds, replay);
        ctx.stage("libfuzzer-nopanic", false, r)?;
    }
    Ok(())
}

pub fn replay(case: &Value) -> Check {
    match case["kind"].as_str() {
        Some("cli") => match CliCase::from_json(case) {
            Some(c) => run_cli(&c).map(|_| ()),
            None => Err(Violation::new("unreadable replay case", case.clone())),
        },
        _ => match (case_bytes(case), ordering_from(&case["ordering"])) {
            (Some(b), Some(o)) => check_inprocess(&b, &o).map(|_| ()),
            (Some(b), None) => check_inprocess(&b, &None).map(|_| ()),
            _ => Err(Violation::new("unreadable replay case", case.clone())),
        },
    }
}
