//! C06 — lfp / gfp denote the least / greatest fixed point of a monotone transformer;
//! lexical scoping of the bound name; the library iterator `fp`.

use crate::engine::*;
use crate::front::{self, Run};
use crate::gen::{self, Cfg};
use crate::plain;
use crate::props::c01;
use crate::rast::RAst;
use crate::rlex;
use crate::rparse;
use crate::rprint;
use crate::rsem::{self, SemError};
use crate::tt::TT;
use crate::util::{fnv_str, Tape};
use rsbdd::bdd::{BDDEnv, BDD};
use serde_json::{json, Value};
use std::cell::Cell;
use std::collections::BTreeSet;
use std::rc::Rc;

fn fix_binders(a: &RAst, out: &mut BTreeSet<String>) {
    if let RAst::Fix(n, _, _) = a {
        out.insert(n.clone());
    }
    for c in a.children() {
        fix_binders(c, out);
    }
}

/// names a fixed-point value may depend on: all identifiers except pure fixed-point
/// binders (a binder name that also occurs free in the whole formula stays)
pub fn candidate_names(ast: &RAst) -> Vec<String> {
    let mut all = Vec::new();
    ast.names_in_order(&mut all);
    let mut b = BTreeSet::new();
    fix_binders(ast, &mut b);
    let fv = ast.free_vars();
    all.into_iter().filter(|n| !b.contains(n) || fv.contains(n)).collect()
}

/// Evaluate through the implementation under the iteration limit; table by name.
fn impl_table(text: &str, names: &[String], cj: &Value) -> Result<TT, Violation> {
    let v = |m: String| Violation::new(m, cj.clone());
    let limit = (1usize << names.len()) + 2;
    match front::run_text(text.as_bytes(), None, Some(limit)) {
        Run::ParseErr(e) => Err(front::rejection(text, "well-formed fixed-point formula", &e, cj)),
        Run::ParsePanic(p) => Err(v(format!("parser panicked: {}", p))),
        Run::EvalPanic(p, _) => {
            if p.contains("rsbdd-verif: fp iteration limit") {
                Err(v(format!(
                    "evaluation of a monotone fixed point did not stabilise within the lattice height ({} iterations): does not terminate",
                    limit
                )))
            } else {
                Err(v(format!("evaluation panicked: {}", p)))
            }
        }
        Run::Ok(r, _) => front::table_by_name(&r, names).map_err(|e| v(e)),
    }
}

pub struct FixInfo {
    pub fixed_points: usize,
    pub pre_or_post: usize,
    pub iterations: usize,
    pub candidates: usize,
}

/// `text` must be a single fixed-point formula `lfp|gfp X # T` with T monotone in X.
pub fn check_fix_text(text: &str) -> Result<FixInfo, Violation> {
    let cj = json!({"kind": "fix", "text": text});
    let v = |m: String| Violation::new(m, cj.clone());
    let parsed = rparse::parse_text(text.as_bytes()).map_err(|e| v(format!("HARNESS: reference parser: {}", e)))?;
    let (x, greatest, body) = match &parsed.ast {
        RAst::Fix(n, g, b) => (n.clone(), *g, b.as_ref().clone()),
        _ => return Err(v("HARNESS: not a fixed-point formula at the root".into())),
    };
    if !gen::syntactically_monotone(&parsed.ast) {
        return Err(v("HARNESS: body is not syntactically monotone".into()));
    }
    let names = rlex::identifiers(&parsed.tokens);
    let k = names.len();
    // positions the candidates may depend on: every name that is not purely a fixed-point binder
    let cn = candidate_names(&parsed.ast);
    let cand_pos: Vec<usize> = (0..k).filter(|p| cn.contains(&names[*p])).collect();
    if cand_pos.len() > 4 {
        return Err(v("HARNESS: too many variables for Knaster-Tarski enumeration".into()));
    }
    let answer = impl_table(text, &names, &cj)?;

    // the answer must be a fixed point of T
    let apply = |r: &TT| -> Result<TT, Violation> {
        match rsem::table_with(&body, &names, &[(x.clone(), r.clone())]) {
            Ok(o) => Ok(o.table),
            Err(SemError::NonConvergent) => Err(v("HARNESS: inner fixed point of the reference does not converge".into())),
            Err(e) => Err(v(format!("HARNESS: reference semantics: {:?}", e))),
        }
    };
    let t_ans = apply(&answer)?;
    if t_ans != answer {
        return Err(v(format!(
            "the answer R = {} is not a fixed point: T[{}:=R] = {}",
            answer.to_hex(),
            x,
            t_ans.to_hex()
        )));
    }
    // Knaster-Tarski: enumerate every candidate function over the non-fixed-point names
    let kc = cand_pos.len();
    let ncand: u64 = 1u64 << (1u64 << kc);
    let mut fixed_points = 0usize;
    let mut prepost = 0usize;
    for bits in 0..ncand {
        let small = TT::from_bits(kc, bits);
        let r = small.remap(k, &cand_pos);
        let tr = apply(&r)?;
        if tr == r {
            fixed_points += 1;
        }
        if !greatest {
            // every pre-fixed point T(r) <= r lies above the least fixed point
            if tr.leq(&r) {
                prepost += 1;
                if !answer.leq(&r) {
                    return Err(v(format!(
                        "lfp answer {} is not below the pre-fixed point r = {} (T(r) = {} <= r): not the least fixed point",
                        answer.to_hex(),
                        r.to_hex(),
                        tr.to_hex()
                    )));
                }
            }
        } else if r.leq(&tr) {
            prepost += 1;
            if !r.leq(&answer) {
                return Err(v(format!(
                    "gfp answer {} is not above the post-fixed point r = {} (r <= T(r) = {}): not the greatest fixed point",
                    answer.to_hex(),
                    r.to_hex(),
                    tr.to_hex()
                )));
            }
        }
    }
    // harness consistency: the reference Kleene evaluator must agree with the KT-validated answer
    let kleene = rsem::table_with(&parsed.ast, &names, &[]).map_err(|e| v(format!("HARNESS: reference Kleene: {:?}", e)))?;
    if kleene.table != answer {
        return Err(v(format!(
            "HARNESS: reference Kleene iteration gives {} but the Knaster-Tarski-validated answer is {}",
            kleene.table.to_hex(),
            answer.to_hex()
        )));
    }
    Ok(FixInfo {
        fixed_points,
        pre_or_post: prepost,
        iterations: kleene.max_fix_iterations,
        candidates: ncand as usize,
    })
}

/// Rename binders that shadow an enclosing binder of the same name.
///
/// Renaming is meaning-preserving for a fixed-point binder always (fixed-point names are
/// substituted, they are not diagram variables), and for a quantifier binder only when no
/// enclosing FIXED-POINT name occurs free in the quantifier's body: the statement says that
/// "variables quantified inside T also range over the current value of X", i.e. a quantifier
/// on `b` deliberately captures the dependence of X's value on `b`, so `forall b # X` and
/// `forall b' # X` differ.  Such quantifiers are left alone.
/// scope entries: (original name, new name, is_fixed_point_binder)
/// Names bound by a quantifier whose body mentions (free) a name whose innermost enclosing binder
/// is a fixed point: such a quantifier captures the dependence of that fixed point's current value
/// on its variable. All binders on the same NAME denote the same variable of the diagram, so once a
/// name is pinned no quantifier on it may be renamed anywhere in the formula (renaming an outer
/// `forall a` while an inner `exists a # X` stays would cut the capture:
/// `lfp a # forall a, X # lfp X # (a & a) => exists a # X`).
fn pinned_names(a: &RAst, scope: &mut Vec<(String, bool)>, out: &mut std::collections::BTreeSet<String>) {
    match a {
        RAst::Quant(_, ns, b) => {
            let mut body_fv = b.free_vars();
            for n in ns {
                body_fv.remove(n);
            }
            if body_fv.iter().any(|v| scope.iter().rev().find(|(o, _)| o == v).map(|e| e.1).unwrap_or(false)) {
                for n in ns {
                    out.insert(n.clone());
                }
            }
            let mark = scope.len();
            for n in ns {
                scope.push((n.clone(), false));
            }
            pinned_names(b, scope, out);
            scope.truncate(mark);
        }
        RAst::Fix(n, _, b) => {
            scope.push((n.clone(), true));
            pinned_names(b, scope, out);
            scope.pop();
        }
        other => {
            for c in other.children() {
                pinned_names(c, scope, out);
            }
        }
    }
}

thread_local! {
    static PINNED: std::cell::RefCell<std::collections::BTreeSet<String>> = const { std::cell::RefCell::new(std::collections::BTreeSet::new()) };
}

/// alpha-rename a whole formula (computes the pinned names first)
pub fn alpha_rename_formula(a: &RAst, counter: &mut usize) -> RAst {
    let mut pinned = std::collections::BTreeSet::new();
    pinned_names(a, &mut Vec::new(), &mut pinned);
    PINNED.with(|p| *p.borrow_mut() = pinned);
    let r = alpha_rename(a, &mut Vec::new(), counter);
    PINNED.with(|p| p.borrow_mut().clear());
    r
}

fn alpha_rename(a: &RAst, scope: &mut Vec<(String, String, bool)>, counter: &mut usize) -> RAst {
    let lookup = |n: &String, scope: &Vec<(String, String, bool)>| -> String {
        scope.iter().rev().find(|(o, _, _)| o == n).map(|(_, r, _)| r.clone()).unwrap_or_else(|| n.clone())
    };
    match a {
        RAst::Var(n) => RAst::Var(lookup(n, scope)),
        RAst::Quant(ex, ns, b) => {
            let mark = scope.len();
            // does the body mention (free) a name whose innermost enclosing binder is a fixed point?
            let mut body_fv = b.free_vars();
            for n in ns {
                body_fv.remove(n);
            }
            let captures_fix_value = body_fv
                .iter()
                .any(|v| scope.iter().rev().find(|(o, _, _)| o == v).map(|e| e.2).unwrap_or(false));
            let mut new_names = Vec::new();
            for n in ns {
                if let Some((_, r, _)) = scope[mark..].iter().find(|(o, _, _)| o == n) {
                    // repeated in the same list: same binder
                    new_names.push(r.clone());
                    continue;
                }
                let shadows = scope[..mark].iter().any(|(o, _, _)| o == n);
                let pinned = PINNED.with(|p| p.borrow().contains(n));
                let r = if shadows && !captures_fix_value && !pinned {
                    *counter += 1;
                    format!("{}_r{}", n.replace('\'', "p"), counter)
                } else {
                    n.clone()
                };
                scope.push((n.clone(), r.clone(), false));
                new_names.push(r);
            }
            let body = alpha_rename(b, scope, counter);
            scope.truncate(mark);
            RAst::Quant(*ex, new_names, Box::new(body))
        }
        RAst::Fix(n, g, b) => {
            let shadows = scope.iter().any(|(o, _, _)| o == n);
            let r = if shadows {
                *counter += 1;
                format!("{}_r{}", n.replace('\'', "p"), counter)
            } else {
                n.clone()
            };
            scope.push((n.clone(), r.clone(), true));
            let body = alpha_rename(b, scope, counter);
            scope.pop();
            RAst::Fix(r, *g, Box::new(body))
        }
        RAst::Not(b) => RAst::not(alpha_rename(b, scope, counter)),
        RAst::Bin(op, l, r) => RAst::bin(*op, alpha_rename(l, scope, counter), alpha_rename(r, scope, counter)),
        RAst::Ite(c, t, e) => RAst::Ite(
            Box::new(alpha_rename(c, scope, counter)),
            Box::new(alpha_rename(t, scope, counter)),
            Box::new(alpha_rename(e, scope, counter)),
        ),
        RAst::CountConst(op, l, n) => {
            RAst::CountConst(*op, l.iter().map(|f| alpha_rename(f, scope, counter)).collect(), *n)
        }
        RAst::CountList(op, l, r) => RAst::CountList(
            *op,
            l.iter().map(|f| alpha_rename(f, scope, counter)).collect(),
            r.iter().map(|f| alpha_rename(f, scope, counter)).collect(),
        ),
        _ => a.clone(),
    }
}


// ---------------------------------------------------------------- bodies that reach X through a definition

fn subst_ref(a: &RAst, name: &str, repl: &RAst) -> RAst {
    match a {
        RAst::Ref(n) if n == name => repl.clone(),
        RAst::Not(b) => RAst::not(subst_ref(b, name, repl)),
        RAst::Bin(op, l, r) => RAst::bin(*op, subst_ref(l, name, repl), subst_ref(r, name, repl)),
        RAst::Ite(c, t, e) => RAst::Ite(
            Box::new(subst_ref(c, name, repl)),
            Box::new(subst_ref(t, name, repl)),
            Box::new(subst_ref(e, name, repl)),
        ),
        RAst::Quant(ex, ns, b) => RAst::Quant(*ex, ns.clone(), Box::new(subst_ref(b, name, repl))),
        RAst::Fix(n, g, b) => RAst::Fix(n.clone(), *g, Box::new(subst_ref(b, name, repl))),
        RAst::CountConst(op, l, c) => RAst::CountConst(*op, l.iter().map(|f| subst_ref(f, name, repl)).collect(), *c),
        RAst::CountList(op, l, r) => RAst::CountList(
            *op,
            l.iter().map(|f| subst_ref(f, name, repl)).collect(),
            r.iter().map(|f| subst_ref(f, name, repl)).collect(),
        ),
        other => other.clone(),
    }
}

/// `main` mentions `{d}`; `d` is defined through the library API (`ParsedFormula::define`, syntax
/// contents) as the formula `def`, which may mention the fixed-point name of `main`. A definition is
/// expanded where it is used, so the answer must be the one of `main` with `def` written in place
/// of `{d}` (reference semantics of the inlined text).
pub fn check_definition(main: &str, def: &str) -> Check {
    let cj = json!({"kind": "fix-through-definition", "main": main, "def": def});
    let v = |m: String| Violation::new(m, cj.clone());
    let pm = rparse::parse_text(main.as_bytes()).map_err(|e| v(format!("HARNESS: reference parser (main): {}", e)))?;
    let pd = rparse::parse_text(def.as_bytes()).map_err(|e| v(format!("HARNESS: reference parser (def): {}", e)))?;
    let inlined = subst_ref(&pm.ast, "d", &pd.ast);
    let mut names = rlex::identifiers(&pm.tokens);
    for n in rlex::identifiers(&pd.tokens) {
        if !names.contains(&n) {
            names.push(n);
        }
    }
    let oracle = match crate::rsem::table(&inlined, &names) {
        Ok(t) => t,
        Err(e) => return Err(v(format!("HARNESS: reference semantics of the inlined text: {:?}", e))),
    };
    let ordering: Vec<rsbdd::NamedSymbol> = names.iter().enumerate().map(|(i, n)| front::sym(n, i)).collect();
    guarded(&cj.clone(), || {
        let pf = front::parse(main.as_bytes(), Some(ordering.clone())).map_err(|e| v(format!("main formula rejected: {}", e)))?;
        let dpf = front::parse(def.as_bytes(), Some(ordering.clone())).map_err(|e| v(format!("definition rejected: {}", e)))?;
        pf.define("d", rsbdd::parser::ReferenceContents::Syntax(dpf.bdd.clone()));
        rsbdd::bdd::verif_hooks::set_fp_iteration_limit(Some((1usize << names.len()) + 2));
        let r = crate::util::catch(|| pf.eval());
        rsbdd::bdd::verif_hooks::set_fp_iteration_limit(None);
        let r = r.map_err(|p| v(format!("evaluation panicked: {}", p)))?;
        let got = front::table_by_name(&r, &names).map_err(|e| v(e))?;
        if got != oracle {
            return Err(v(format!(
                "`{}` with d := `{}` evaluates to {} but the text with the definition written out, `{}`, denotes {} (over {:?})",
                main,
                def,
                got.to_hex(),
                rprint::plain(&inlined),
                oracle.to_hex(),
                names
            )));
        }
        Ok(())
    })
}

const DEF_MAINS: [&str; 10] = [
    "lfp X # (a | {d})",
    "gfp X # (a & {d})",
    "lfp X # ((a & b) | ({d} & c))",
    "gfp X # ((a | b) & ({d} | c))",
    "mu X # (a | (b & {d}))",
    "nu X # (a & (b | {d}))",
    "lfp X # (a | gfp Y # ({d} & Y))",
    "lfp X # (a | exists X # {d})",
    "lfp X # (a | forall b # ({d} | -b))",
    "b & lfp X # (if a then true else {d})",
];

const DEF_BODIES: [&str; 10] = [
    "X & b",
    "b | X",
    "X",
    "c",
    "exists b # (X & b)",
    "if b then X else a",
    "[X, a, b] >= 2",
    "X & Y",
    "-(-X | c)",
    "lfp Y # (X | (Y & b))",
];

/// a formula with shadowing must mean the same as its alpha-renamed version (through rsbdd)
pub fn check_scoping(text: &str) -> Check {
    let cj = json!({"kind": "scoping", "text": text});
    let v = |m: String| Violation::new(m, cj.clone());
    let parsed = rparse::parse_text(text.as_bytes()).map_err(|e| v(format!("HARNESS: reference parser: {}", e)))?;
    // free names that collide with a binder are renamed too? no: only shadowing binders are.
    let mut counter = 0usize;
    let renamed = alpha_rename_formula(&parsed.ast, &mut counter);
    if counter == 0 {
        // nothing could be renamed soundly
        return Ok(());
    }
    let text2 = rprint::plain(&renamed);
    let names1 = rlex::identifiers(&parsed.tokens);
    let p2 = rparse::parse_text(text2.as_bytes()).map_err(|e| v(format!("HARNESS: renamed text: {}", e)))?;
    let names2 = rlex::identifiers(&p2.tokens);
    if names1.len() > 12 || names2.len() > 12 {
        return Ok(());
    }
    let fv: Vec<String> = parsed.ast.free_vars().into_iter().collect();
    let t1 = impl_table(text, &names1, &cj)?;
    let t2 = impl_table(&text2, &names2, &cj)?;
    // both must depend on free variables only; compare the projections
    for (t, names, which) in [(&t1, &names1, "original"), (&t2, &names2, "renamed")] {
        for (p, n) in names.iter().enumerate() {
            if !fv.contains(n) && t.depends_on(p) {
                return Err(v(format!("the {} formula's answer depends on bound name `{}`", which, n)));
            }
        }
    }
    let a = c01::project(&t1, &names1, &fv);
    let b = c01::project(&t2, &names2, &fv);
    if a != b {
        return Err(v(format!(
            "`{}` and its alpha-renamed form `{}` evaluate differently ({} vs {} over {:?}): the bound name is not lexically scoped",
            text,
            text2,
            a.to_hex(),
            b.to_hex(),
            fv
        )));
    }
    Ok(())
}

// ------------------------------------------------------------------ BDDEnv::fp

/// t is a total map on the 16 functions of two variables; orbit of `start` must reach a
/// fixed element. Model: iterate indices; check the returned element and the number of
/// closure calls (= index of the first fixed element + 1).
pub fn check_fp_api(map: &[u8; 16], start: u8) -> Check {
    let cj = json!({"kind": "fp-api", "map": map.to_vec(), "start": start});
    let v = |m: String| Violation::new(m, cj.clone());
    // model
    let mut cur = start as usize;
    let mut calls = 0usize;
    loop {
        calls += 1;
        if calls > 40 {
            return Err(v("HARNESS: orbit has no fixed element".into()));
        }
        let n = map[cur] as usize;
        if n == cur {
            break;
        }
        cur = n;
    }
    let want = cur;
    guarded(&cj.clone(), || {
        let env: BDDEnv<usize> = BDDEnv::new();
        let ids = [3usize, 8];
        let funs: Vec<Rc<BDD<usize>>> = (0..16u64).map(|b| plain::intern(&env, &TT::from_bits(2, b), &ids)).collect();
        let counter = Cell::new(0usize);
        rsbdd::bdd::verif_hooks::set_fp_iteration_limit(Some(64));
        let r = env.fp(Rc::clone(&funs[start as usize]), |x| {
            counter.set(counter.get() + 1);
            let t = plain::table_usize(&x, &ids).expect("two-variable function");
            Rc::clone(&funs[map[t.bits() as usize] as usize])
        });
        rsbdd::bdd::verif_hooks::set_fp_iteration_limit(None);
        let got = plain::table_usize(&r, &ids).map_err(|e| v(e))?.bits() as usize;
        if got != want {
            return Err(v(format!(
                "fp returned element {} but the first element of the orbit that t maps to itself is {}",
                got, want
            )));
        }
        if counter.get() != calls {
            return Err(v(format!("fp applied t {} times, the model needs {}", counter.get(), calls)));
        }
        Ok(())
    })
}

fn classify(text: &str, info: &FixInfo, ast: &RAst, st: &mut Stats) {
    st.class(if matches!(ast, RAst::Fix(_, true, _)) { "gfp" } else { "lfp" });
    st.class(&format!("fixed-points-of-body:{}", std::cmp::min(info.fixed_points, 5)));
    st.class(&format!("kleene-applications:{}", std::cmp::min(info.iterations, 6)));
    st.class(&format!("candidates:{}", info.candidates));
    let nested = ast.children().iter().any(|c| c.has_fix());
    if nested {
        st.class("nested-fixed-point");
    }
    let shadow = c01::has_shadowing(ast, &mut Vec::new());
    if shadow {
        st.class("shadowing");
    }
    let mut kinds = BTreeSet::new();
    ast.kinds(&mut kinds);
    for k in ["exists", "forall", "count-const", "count-list", "ite", "not", "implies", "implied-by", "nor", "nand"] {
        if kinds.contains(k) {
            st.class(&format!("body-with:{}", k));
        }
    }
    if text.contains("mu") || text.contains("nu") {
        st.class("alias-mu-nu");
    }
    let nt = info.fixed_points >= 2 || info.iterations >= 3 || nested || shadow;
    if nt {
        if st.nontrivial(fnv_str(&rprint::plain(ast))) {
            st.nt_sample(|| json!({"text": text, "fixed_points_of_body": info.fixed_points, "kleene_applications": info.iterations}));
        }
    } else if st.want_sample() {
        st.sample(json!({"text": text}));
    }
}

pub fn run(ctx: &mut Ctx) -> Result<(), Violation> {
    ctx.rule = "cases = `lfp|gfp X # T` texts with T syntactically monotone in X (X under and/or, ite branches, quantifiers, at-least / left-of->= / right-of-<= counting, even negation, right of =>; nested and mixed lfp/gfp; inner binders on the same name), \
                from the generic tape decoder and from a constructed family whose Kleene chain needs several steps (and its gfp dual). \
                Oracle (independent of Kleene iteration): ALL 2^(2^k) candidate functions r over the k <= 3 (thorough: 4) non-fixed-point names are enumerated, T[X:=r] is computed by the reference semantics; the answer R must satisfy T[X:=R] = R and lie below every pre-fixed point (lfp) / above every post-fixed point (gfp); termination is observed through the fp iteration-limit hook (limit = 2^names + 2). \
                Scoping: formulas with shadowing are compared, through rsbdd, with their alpha-renamed form. BDDEnv::fp: random total maps on the 16 two-variable functions whose orbit reaches a fixed element; returned element and number of closure calls against the index model. \
                Non-trivial = the body has >= 2 fixed points, or >= 2 real Kleene steps are needed, or nesting / shadowing is present; distinct by canonical rendering."
        .to_string();
    ctx.rule.push_str(" Wide texts: ");
    ctx.rule.push_str(crate::widetext::RULE);
    ctx.assume("syntactic monotonicity is sufficient (not necessary) for monotonicity; semantically monotone but syntactically non-monotone bodies are not generated");
    ctx.assume("inner fixed points inside T are evaluated by the reference Kleene iteration when computing T[X:=r]");

    // README identities and aliases
    let mut st = Stats::default();
    for (text, want) in [
        ("gfp X # X", Some(true)),
        ("lfp X # X", Some(false)),
        ("nu X # X", Some(true)),
        ("mu X # X", Some(false)),
        ("gfp X # true", Some(true)),
        ("lfp X # false", Some(false)),
        ("gfp X # a", None),
        ("lfp X # a", None),
        ("mu X # X | (a & X)", None),
        ("nu X # a | (b & X)", None),
        ("lfp X # a | (b & X)", None),
        ("gfp X # X & a", None),
        ("lfp X # X | a | ((all a # a => X) & b) | ((all b # b => X) & c)", None),
    ] {
        st.eval();
        st.class("readme-identity");
        let info = check_fix_text(text)?;
        if let Some(w) = want {
            let p = rparse::parse_text(text.as_bytes()).unwrap();
            let names = rlex::identifiers(&p.tokens);
            let t = impl_table(text, &names, &json!({"kind": "fix", "text": text}))?;
            if (w && !t.is_true()) || (!w && !t.is_false()) {
                return Err(Violation::new(
                    format!("README identity `{}` <=> {} does not hold", text, w),
                    json!({"kind": "fix", "text": text}),
                ));
            }
        }
        let _ = info;
    }
    ctx.stage("readme-identities", true, (st, None))?;

    let kmax = ctx.tier.pick(3usize, 4usize);
    let cases = ctx.tier.cases(40_000, 1_500_000);
    let r = par_random(ctx, "random-monotone-bodies", cases, 260, |tape, st| {
        let mut t = Tape::new(tape);
        // k = other variables; thorough uses k = 4 for a fraction (65536 candidates each)
        let k = if kmax == 4 && t.chance(12) { 4 } else { 1 + t.choose(3) };
        let mut cfg = Cfg::standard(k, 1 + t.choose(4));
        cfg.names = ["a", "b", "c", "d'"].iter().take(k).map(|s| s.to_string()).collect();
        cfg.fix_names = vec!["X".into(), "Y".into(), "a".into()];
        cfg.max_list = 3;
        cfg.max_fix_nest = 3;
        cfg.fix_var_bias = 120;
        cfg.big_consts = false;
        let ast = match t.choose(8) {
            0..=2 => gen::chain_fix(&mut t, &cfg),
            // chains as long as the lattice allows (2^k applications over k variables)
            3 => gen::path_chain_fix(&mut t, &cfg),
            _ => gen::fix_formula(&mut t, &cfg),
        };
        // keep the candidate space within bounds: count non-binder names
        let mut all = Vec::new();
        ast.names_in_order(&mut all);
        let free_like = candidate_names(&ast).len();
        if free_like > kmax || all.len() > 9 {
            st.discarded += 1;
            return Ok(());
        }
        let text = rprint::decorated(&ast, &mut t);
        c01::self_check(&ast, &text)?;
        st.eval();
        let info = check_fix_text(&text)?;
        classify(&text, &info, &ast, st);
        if c01::has_shadowing(&ast, &mut Vec::new()) {
            check_scoping(&text)?;
            st.class("scoping-compared-with-alpha-renamed");
        }
        Ok(())
    });
    ctx.stage("random-monotone-bodies-knaster-tarski", false, r)?;

    // scoping on general formulas (fixed point anywhere, shadowing made likely by a small name pool;
    // formulas without shadowing are counted as discarded)
    let cases = ctx.tier.cases(200_000, 6_000_000);
    let r = par_random(ctx, "scoping", cases, 260, |tape, st| {
        let mut t = Tape::new(tape);
        let mut cfg = Cfg::standard(3, 2 + t.choose(4));
        cfg.names = vec!["a".into(), "b".into(), "X".into()];
        cfg.fix_names = vec!["X".into(), "a".into()];
        cfg.max_fix_nest = 3;
        cfg.max_list = 2;
        cfg.big_consts = false;
        let ast = gen::formula(&mut t, &cfg);
        if !c01::has_shadowing(&ast, &mut Vec::new()) {
            st.discarded += 1;
            return Ok(());
        }
        let text = rprint::plain(&ast);
        st.eval();
        st.class(if ast.has_fix() { "shadowing-with-fixed-point" } else { "shadowing-quantifiers-only" });
        if st.nontrivial(fnv_str(&text)) {
            st.nt_sample(|| json!({"scoping": text}));
        }
        check_scoping(&text)
    });
    ctx.stage("scoping-alpha-renaming", false, r)?;

    // bodies that reach the bound name through a definition made with `ParsedFormula::define`
    let n = (DEF_MAINS.len() * DEF_BODIES.len()) as u64;
    let r = par_exhaustive(ctx, n, |i, st| {
        let main = DEF_MAINS[i as usize % DEF_MAINS.len()];
        let def = DEF_BODIES[i as usize / DEF_MAINS.len()];
        st.eval();
        st.class("fixed-point-through-a-definition");
        if def.contains('X') && st.nontrivial(fnv_str(&format!("{}|{}", main, def))) {
            st.nt_sample(|| json!({"kind": "fix-through-definition", "main": main, "def": def}));
        }
        check_definition(main, def)
    });
    ctx.stage("fixed-points-through-definitions", true, r)?;

    // BDDEnv::fp against the index model
    let cases = ctx.tier.cases(20_000, 3_000_000);
    let r = par_random(ctx, "fp-api", cases, 20, |tape, st| {
        let mut t = Tape::new(tape);
        let mut map = [0u8; 16];
        for m in map.iter_mut() {
            *m = t.choose(16) as u8;
        }
        let start = t.choose(16) as u8;
        // adjust: make the orbit of start end in a fixed element
        let mut seen = [false; 16];
        let mut cur = start as usize;
        loop {
            seen[cur] = true;
            let n = map[cur] as usize;
            if n == cur {
                break;
            }
            if seen[n] {
                map[cur] = cur as u8;
                break;
            }
            cur = n;
        }
        st.eval();
        let mut len = 0;
        let mut c = start as usize;
        while map[c] as usize != c {
            c = map[c] as usize;
            len += 1;
        }
        st.class(&format!("fp-api-orbit-length:{}", std::cmp::min(len, 6)));
        if len >= 2 && st.nontrivial(fnv_str(&format!("{:?}{}", map, start))) {
            st.nt_sample(|| json!({"kind": "fp-api", "map": map.to_vec(), "start": start}));
        }
        check_fp_api(&map, start)
    });
    ctx.stage("fp-api-random-total-maps", false, r)?;
    crate::widetext::stage_counters(ctx, "counter-reachability-chains-beyond-256-applications")?;
    let wc = ctx.tier.cases(600, 30_000);
    crate::widetext::stage_padded(ctx, "padded-formulas-beyond-64-128-256-names", wc, false)?;
    Ok(())
}

pub fn replay(case: &Value) -> Check {
    if let Some(r) = crate::widetext::replay(case) {
        return r;
    }
    match case["kind"].as_str() {
        Some("fix") => check_fix_text(case["text"].as_str().unwrap_or("")).map(|_| ()),
        Some("fix-through-definition") => match (case["main"].as_str(), case["def"].as_str()) {
            (Some(m), Some(d)) => check_definition(m, d),
            _ => Err(Violation::new("unreadable replay case", case.clone())),
        },
        Some("scoping") => check_scoping(case["text"].as_str().unwrap_or("")),
        Some("formula") => c01::replay(case),
        Some("fp-api") => {
            let m: Option<Vec<u8>> = case["map"].as_array().map(|a| a.iter().filter_map(|x| x.as_u64().map(|u| u as u8)).collect());
            match (m, case["start"].as_u64()) {
                (Some(m), Some(s)) if m.len() == 16 && m.iter().all(|x| *x < 16) && s < 16 => {
                    let mut a = [0u8; 16];
                    a.copy_from_slice(&m);
                    check_fp_api(&a, s as u8)
                }
                _ => Err(Violation::new("unreadable replay case", case.clone())),
            }
        }
        _ => Err(Violation::new("unreadable replay case", case.clone())),
    }
}
