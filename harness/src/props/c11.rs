//! C11 — variable ordering changes the shape of the answer, never its meaning.

use crate::cli;
use crate::engine::*;
use crate::front::{self, Run};
use crate::plain;
use crate::props::c09::{self, ordering_json, to_symbols, Ordering};
use crate::props::c10::{self, Invocation};
use crate::rlex;
use crate::rparse;
use crate::rsem;
use crate::util::{fnv_str, Tape};
use rsbdd::bdd::BDD;
use serde_json::{json, Value};

/// API: text + NamedSymbol ordering (distinct names, distinct ids, gaps allowed)
pub fn check_api(text: &str, ordering: &Ordering) -> Check {
    let some = Some(ordering.clone());
    let cj = json!({"kind": "api", "text": text, "ordering": ordering_json(&some)});
    let v = |m: String| Violation::new(m, cj.clone());
    let parsed = rparse::parse_text(text.as_bytes()).map_err(|e| v(format!("HARNESS: reference parser: {}", e)))?;
    let idents = rlex::identifiers(&parsed.tokens);
    let oracle = rsem::table(&parsed.ast, &idents).map_err(|e| v(format!("HARNESS: reference semantics: {:?}", e)))?;
    let limit = (1usize << idents.len()) + 2;
    guarded(&cj.clone(), || {
        let run = |o: Option<Vec<rsbdd::NamedSymbol>>| match front::run_text(text.as_bytes(), o, Some(limit)) {
            Run::Ok(r, pf) => Ok((r, pf)),
            Run::ParseErr(e) => Err(front::rejection(text, "well-formed formula", &e, &cj)),
            Run::ParsePanic(p) => Err(v(format!("parser panicked: {}", p))),
            Run::EvalPanic(p, _) => Err(v(format!("evaluation panicked: {}", p))),
        };
        let (r_def, _) = run(None)?;
        let (r_ord, pf) = run(to_symbols(&some))?;
        // (1) same function of the same named variables
        let t_def = front::table_by_name(&r_def, &idents).map_err(|e| v(e))?;
        let t_ord = front::table_by_name(&r_ord, &idents).map_err(|e| v(e))?;
        if t_ord != t_def {
            return Err(v(format!(
                "under the ordering the answer denotes {} but under the default order {} (by name over {:?})",
                t_ord.to_hex(),
                t_def.to_hex(),
                idents
            )));
        }
        if t_ord != oracle {
            return Err(v(format!("the answer {} differs from the reference {}", t_ord.to_hex(), oracle.to_hex())));
        }
        // (2) listed names carry the ordering's ids; unlisted names get fresh, distinct ids
        let got: Vec<(String, usize)> = pf.vars.iter().map(|s| (s.name.as_ref().clone(), s.id)).collect();
        let mut gn: Vec<&String> = got.iter().map(|x| &x.0).collect();
        gn.sort();
        let mut wn: Vec<&String> = idents.iter().collect();
        wn.sort();
        if gn != wn || got.windows(2).any(|w| w[0].1 >= w[1].1) {
            return Err(v(format!("variables {:?} are not the identifiers {:?} once each in increasing id order", got, idents)));
        }
        for (n, id) in ordering {
            if let Some((_, g)) = got.iter().find(|(m, _)| m == n) {
                if g != id {
                    return Err(v(format!("`{}` is listed with id {} but carries id {}", n, id, g)));
                }
            }
        }
        let want = got.clone();
        // along every path variables appear in that order
        let sh = plain::invariants(&r_ord);
        if !sh.ordered {
            return Err(v(format!("the answer is not ordered: {}", sh.problem.unwrap_or_default())));
        }
        for n in plain::reachable(&r_ord) {
            if let BDD::Choice(_, s, _) = n.as_ref() {
                let w = want.iter().find(|(m, _)| m == s.name.as_ref()).map(|x| x.1);
                if w != Some(s.id) {
                    return Err(v(format!("node `{}` has id {} instead of {:?}", s.name, s.id, w)));
                }
            }
        }
        // relative order of listed names in the answer follows the ordering
        let order_pos = |name: &str| want.iter().position(|(m, _)| m == name);
        for n in plain::reachable(&r_ord) {
            if let BDD::Choice(t, s, f) = n.as_ref() {
                for c in [t, f] {
                    if let BDD::Choice(_, cs, _) = c.as_ref() {
                        if order_pos(&s.name) >= order_pos(&cs.name) {
                            return Err(v(format!("`{}` is tested above `{}` against the variable order", s.name, cs.name)));
                        }
                    }
                }
            }
        }
        Ok(())
    })
}

/// CLI: -o file -t denotes the same function with the header in file order; exporting the
/// order with -r and feeding it back reproduces the identical table.
pub fn check_cli(text: &str, ordering_file: &str) -> Check {
    let cj = json!({"kind": "cli", "text": text, "ordering_file": ordering_file});
    let v = |m: String| Violation::new(m, cj.clone());
    let inv = Invocation {
        text: text.to_string(),
        channel: "arg".into(),
        ordering_file: Some(ordering_file.to_string()),
        flags: vec!["-r".into(), "-t".into()],
    };
    // header order, table meaning and -r list are checked by the C10 oracle
    let out = c10::check_invocation(&inv).map_err(|e| v(e.message))?;
    let p = cli::parse_stdout(&out).map_err(|e| v(e))?;
    // listed names appear in the header in file order
    let listed = c10::ordering_names(ordering_file).ok_or_else(|| v("HARNESS: ordering file".into()))?;
    let header = p.header.clone().unwrap_or_default();
    let pos: Vec<usize> = header.iter().filter_map(|h| listed.iter().position(|l| l == h)).collect();
    if pos.windows(2).any(|w| w[0] >= w[1]) {
        return Err(v(format!("header {:?} does not follow the file order {:?}", header, listed)));
    }
    // round trip
    let exported = p.ordering.join("\n");
    let inv2 = Invocation {
        ordering_file: Some(exported.clone()),
        flags: vec!["-t".into()],
        ..inv.clone()
    };
    let out2 = c10::spawn(&inv2).map_err(|e| v(e))?;
    let table1: String = out.lines().filter(|l| l.starts_with('|')).collect::<Vec<_>>().join("\n");
    let table2: String = out2.lines().filter(|l| l.starts_with('|')).collect::<Vec<_>>().join("\n");
    if table1 != table2 {
        return Err(v(format!(
            "feeding the exported order back does not reproduce the table:\n{}\n--- vs ---\n{}",
            table1, table2
        )));
    }
    // and the same function as without any ordering
    let inv3 = Invocation {
        ordering_file: None,
        flags: vec!["-t".into()],
        ..inv.clone()
    };
    c10::check_invocation(&inv3).map_err(|e| v(e.message))?;
    Ok(())
}

fn gen_api_ordering(t: &mut Tape, idents: &[String]) -> (Ordering, &'static str) {
    let (names, kind) = c10::gen_ordering_names(idents, t);
    let gaps = t.flag();
    let mut id = if gaps { t.choose(5) } else { 0 };
    let mut out = Vec::new();
    for n in names {
        out.push((n, id));
        id += 1 + if gaps { t.choose(5) } else { 0 };
    }
    // ids need not be increasing along the vector
    if t.chance(60) && out.len() >= 2 {
        let i = t.choose(out.len());
        let j = t.choose(out.len());
        let (a, b) = (out[i].1, out[j].1);
        out[i].1 = b;
        out[j].1 = a;
    }
    (out, kind)
}

pub fn run(ctx: &mut Ctx) -> Result<(), Violation> {
    ctx.rule = "cases = (formula text, ordering). API: ordering = Vec<NamedSymbol> with distinct names and distinct ids (permutation, strict subset, superset with unused names, reversed; contiguous ids or gaps; ids not monotone along the vector); \
                CLI: ordering FILE text (names separated by whitespace/commas/newlines/stray punctuation/comments, duplicates, unused names before/between/after, keywords and numbers sprinkled in). \
                Oracle: (1) by-name truth table under the ordering == under the default order == reference semantics; (2) listed names carry exactly the ordering's ids, unlisted names get distinct fresh ids (their position is not prescribed), and along every path variables appear in id order; (3) `-o file -r -t`: header in file order, table denotes the same function; (4) feeding the -r export back with -o prints the byte-identical table. \
                Non-trivial = the ordering changes the relative order of >= 2 variables of the formula or is a strict superset/subset; distinct by (text, ordering)."
        .to_string();
    ctx.assume("API orderings have distinct names and distinct ids (the property's domain)");

    let cases = ctx.tier.cases(60_000, 5_000_000);
    let r = par_random(ctx, "api", cases, 300, |tape, st| {
        let mut t = Tape::new(tape);
        let (text, idents) = match c10::gen_formula_text(&mut t, 9) {
            Some(x) => x,
            None => {
                st.discarded += 1;
                return Ok(());
            }
        };
        let (ord, kind) = gen_api_ordering(&mut t, &idents);
        st.eval();
        st.class(&format!("api-ordering:{}", kind));
        let def: Vec<&String> = idents.iter().collect();
        let mut by_ord: Vec<&String> = idents.iter().collect();
        let want = crate::props::c09::expected_ids(&idents, &Some(ord.clone()));
        by_ord.sort_by_key(|n| want.iter().find(|(m, _)| m == *n).map(|x| x.1));
        let changes = def != by_ord && idents.len() >= 2;
        let sub_super = ord.len() != idents.len() || ord.iter().any(|(n, _)| !idents.contains(n));
        if changes {
            st.class("relative-order-changed");
        }
        if changes || sub_super {
            let key = format!("{}|{:?}", text, ord);
            if st.nontrivial(fnv_str(&key)) {
                st.nt_sample(|| json!({"text": text, "ordering": ordering_json(&Some(ord.clone()))}));
            }
        } else if st.want_sample() {
            st.sample(json!({"text": text, "ordering": ordering_json(&Some(ord.clone()))}));
        }
        check_api(&text, &ord)
    });
    ctx.stage("api-orderings", false, r)?;

    let cases = ctx.tier.cases(600, 30_000);
    let r = par_random(ctx, "cli", cases, 300, |tape, st| {
        let mut t = Tape::new(tape);
        let (text, idents) = match c10::gen_formula_text(&mut t, 5) {
            Some(x) => x,
            None => {
                st.discarded += 1;
                return Ok(());
            }
        };
        let (names, kind) = c10::gen_ordering_names(&idents, &mut t);
        let file = c10::render_ordering(&names, &mut t);
        st.evals(3);
        st.class(&format!("cli-ordering:{}", kind));
        let key = format!("{}|{}", text, file);
        if st.nontrivial(fnv_str(&key)) {
            st.nt_sample(|| json!({"text": text, "ordering_file": file}));
        }
        check_cli(&text, &file)
    });
    ctx.stage("cli-ordering-files-and-roundtrip", false, r)?;

    // large ordering files (a few hundred to several thousand names, 4 KiB .. 64 KiB): the formula uses a
    // handful of names from the beginning, the end and from around the 4 / 8 / 16 / 32 KiB offsets
    let sizes: Vec<usize> = ctx.tier.pick(vec![120, 600, 1030, 1200, 2300, 8100], vec![120, 600, 1020, 1030, 1200, 2050, 2300, 4100, 4700, 8100, 8190]);
    let mut jobs: Vec<(usize, usize)> = Vec::new();
    for (i, n) in sizes.iter().enumerate() {
        for variant in 0..ctx.tier.pick(2usize, 6usize) {
            jobs.push((*n, i * 7 + variant));
        }
    }
    let r = par_jobs(ctx, &jobs, |(n, variant), st| {
        let (text, file) = large_ordering_case(*n, *variant);
        st.evals(3);
        st.class(match file.len() {
            0..=4095 => "ordering-file<4KiB",
            4096..=8192 => "ordering-file 4..8KiB",
            8193..=16384 => "ordering-file 8..16KiB",
            _ => "ordering-file>16KiB",
        });
        if file.len() > 4096 && st.nontrivial(fnv_str(&format!("{}|{}", text, file.len()))) {
            st.nt_sample(|| json!({"text": text, "ordering_file_bytes": file.len(), "names": n}));
        }
        check_cli(&text, &file)
    });
    ctx.stage("cli-large-ordering-files", true, r)?;
    Ok(())
}

/// An ordering file of `n` names (8 bytes per line) and a formula over six of them.
pub fn large_ordering_case(n: usize, variant: usize) -> (String, String) {
    let name = |i: usize| format!("v{:06}", i);
    let sep = ["\n", " ", ",\n", "\n\n"][variant % 4];
    let file: String = (0..n).map(name).collect::<Vec<_>>().join(sep);
    // names at the ends and just before / after the 4, 8, 16, 32 KiB offsets (8..10 bytes per entry)
    let per = 7 + sep.len();
    let mut picks: Vec<usize> = vec![0, n - 1, n / 2];
    for off in [4096usize, 8192, 16384, 32768] {
        let k = off / per;
        if k + 2 < n {
            picks.push(k - 1 + variant % 3);
            picks.push(k + 1 + variant % 2);
        }
    }
    picks.sort();
    picks.dedup();
    // at most six names, spread
    while picks.len() > 6 {
        let k = 1 + (variant + picks.len()) % (picks.len() - 2);
        picks.remove(k);
    }
    let nm: Vec<String> = picks.iter().map(|i| name(*i)).collect();
    let g = |i: usize| nm[i % nm.len()].clone();
    let text = match variant % 3 {
        0 => format!("{} & -({} | {}) ^ ({} => {}) | {}", g(0), g(1), g(2), g(3), g(4), g(5)),
        1 => format!("[{}, {}, {}, {}] >= 2 & ({} | -{})", g(5), g(3), g(1), g(0), g(2), g(4)),
        _ => format!("(exists {} # {} ^ {}) & ({} <=> {}) | ({} & {})", g(2), g(2), g(4), g(0), g(5), g(1), g(3)),
    };
    (text, file)
}

pub fn replay(case: &Value) -> Check {
    match case["kind"].as_str() {
        Some("api") => match (case["text"].as_str(), c09::ordering_from(&case["ordering"])) {
            (Some(t), Some(Some(o))) => check_api(t, &o),
            _ => Err(Violation::new("unreadable replay case", case.clone())),
        },
        Some("cli") => match (case["text"].as_str(), case["ordering_file"].as_str()) {
            (Some(t), Some(o)) => check_cli(t, o),
            _ => Err(Violation::new("unreadable replay case", case.clone())),
        },
        Some("invocation") => c10::replay(case),
        _ => Err(Violation::new("unreadable replay case", case.clone())),
    }
}
