//! C15 — n_queens_gen emits a formula whose models are exactly the n-queens solutions.

use crate::cli;
use crate::engine::*;
use crate::front;
use crate::rast::{BinOp, CntOp, RAst};
use crate::rlex;
use crate::rparse;
use crate::rsem;
use crate::util::{mix, Rng};
use serde_json::{json, Value};
use std::collections::BTreeSet;
use std::time::Duration;

/// all placements of n mutually non-attacking queens, as bit masks over squares row*n+col
pub fn reference_solutions(n: usize) -> Vec<u128> {
    fn go(n: usize, row: usize, cols: &mut Vec<usize>, out: &mut Vec<u128>) {
        if row == n {
            let mut m = 0u128;
            for (r, c) in cols.iter().enumerate() {
                m |= 1u128 << (r * n + c);
            }
            out.push(m);
            return;
        }
        for c in 0..n {
            let ok = cols.iter().enumerate().all(|(r, &cc)| cc != c && (row - r) != c.abs_diff(cc));
            if ok {
                cols.push(c);
                go(n, row + 1, cols, out);
                cols.pop();
            }
        }
    }
    let mut out = Vec::new();
    go(n, 0, &mut Vec::new(), &mut out);
    out
}

/// reference classifier: exactly n queens, no two attacking each other
pub fn is_solution(n: usize, m: u128) -> bool {
    if m.count_ones() as usize != n {
        return false;
    }
    let sq: Vec<(usize, usize)> = (0..n * n).filter(|s| (m >> s) & 1 == 1).map(|s| (s / n, s % n)).collect();
    for i in 0..sq.len() {
        for j in (i + 1)..sq.len() {
            let (a, b) = (sq[i], sq[j]);
            if a.0 == b.0 || a.1 == b.1 || a.0.abs_diff(b.0) == a.1.abs_diff(b.1) {
                return false;
            }
        }
    }
    true
}

/// The emitted text reduced to cardinality constraints over square masks, when it has
/// that shape: a right-nested conjunction of `[v_i, ..] op k` terms and `true`.
pub struct Compiled {
    pub cons: Vec<(u128, CntOp, u64)>,
}

fn flatten_and<'a>(a: &'a RAst, out: &mut Vec<&'a RAst>) {
    match a {
        RAst::Bin(BinOp::And, l, r) => {
            flatten_and(l, out);
            flatten_and(r, out);
        }
        _ => out.push(a),
    }
}

fn square_of(name: &str, n: usize) -> Option<usize> {
    let k: usize = name.strip_prefix("v_")?.parse().ok()?;
    if k < n * n && name == format!("v_{}", k) {
        Some(k)
    } else {
        None
    }
}

pub fn compile(ast: &RAst, n: usize) -> Option<Compiled> {
    let mut terms = Vec::new();
    flatten_and(ast, &mut terms);
    let mut cons = Vec::new();
    for t in terms {
        match t {
            RAst::True => {}
            RAst::CountConst(op, l, k) => {
                let mut mask = 0u128;
                for f in l {
                    match f {
                        RAst::Var(name) => {
                            let s = square_of(name, n)?;
                            if (mask >> s) & 1 == 1 {
                                return None; // repeated operand: not a plain mask constraint
                            }
                            mask |= 1u128 << s;
                        }
                        _ => return None,
                    }
                }
                cons.push((mask, *op, *k));
            }
            _ => return None,
        }
    }
    Some(Compiled { cons })
}

impl Compiled {
    pub fn eval(&self, m: u128) -> bool {
        self.cons.iter().all(|(mask, op, k)| op.holds((m & mask).count_ones() as i128, *k as i128))
    }
}

fn describe(n: usize, m: u128) -> String {
    let q: Vec<String> = (0..n * n).filter(|s| (m >> s) & 1 == 1).map(|s| format!("({},{})", s / n, s % n)).collect();
    format!("queens at {}", q.join(" "))
}

pub fn run_generator(n: usize, to_file: bool) -> Result<String, String> {
    let scratch = cli::Scratch::new();
    let mut args = vec!["-n".to_string(), n.to_string()];
    let path = if to_file { scratch.stale(&cli::Scratch::awkward("queens.txt")) } else { scratch.path("queens.txt") };
    if to_file {
        args.insert(0, path.to_string_lossy().into_owned());
    }
    let out = cli::run(&cli::bin("n_queens_gen"), &args, None, Duration::from_secs(60));
    if !out.ok() {
        return Err(format!("n_queens_gen -n {} failed: {}", n, out.describe()));
    }
    if to_file {
        std::fs::read_to_string(&path).map_err(|e| format!("output file: {}", e))
    } else {
        Ok(out.out())
    }
}

pub struct Report {
    pub assignments_compared: u64,
    pub exact: bool,
    pub solutions: usize,
}

/// semantic part: the text's models versus the reference, for board size n
pub fn check_text(n: usize, text: &str, tier: Tier, seed: u64) -> Result<Report, String> {
    let parsed = rparse::parse_text(text.as_bytes()).map_err(|e| format!("the output is not a well-formed formula: {}", e))?;
    front::parse(text.as_bytes(), None).map_err(|e| format!("rsbdd's parser rejects the output: {}", e))?;
    let idents: BTreeSet<String> = rlex::identifiers(&parsed.tokens).into_iter().collect();
    let want: BTreeSet<String> = (0..n * n).map(|k| format!("v_{}", k)).collect();
    if idents != want {
        return Err(format!(
            "the formula mentions {:?} instead of exactly v_0..v_{}",
            idents.symmetric_difference(&want).take(6).collect::<Vec<_>>(),
            n * n - 1
        ));
    }
    if !parsed.ast.free_vars().iter().eq(want.iter()) {
        return Err("not every v_k is a free variable".into());
    }
    let compiled = compile(&parsed.ast, n);
    let eval = |m: u128| -> Result<bool, String> {
        match &compiled {
            Some(c) => Ok(c.eval(m)),
            None => rsem::eval_at(&parsed.ast, &|name: &str| match square_of(name, n) {
                Some(s) => (m >> s) & 1 == 1,
                None => false,
            }),
        }
    };
    let sols = reference_solutions(n);
    let mut compared = 0u64;
    let mut cmp = |m: u128| -> Result<(), String> {
        compared += 1;
        let got = eval(m)?;
        let want = is_solution(n, m);
        if got != want {
            return Err(format!(
                "n={}: the formula is {} on the assignment with {}, which {} a placement of {} non-attacking queens",
                n,
                got,
                describe(n, m),
                if want { "is" } else { "is not" },
                n
            ));
        }
        Ok(())
    };
    // exact model-set equality where the space can be exhausted
    let exact_limit = match (tier, compiled.is_some()) {
        (Tier::Quick, true) => 4,
        (Tier::Thorough, true) => 5,
        (_, false) => 3,
    };
    let exact = n <= exact_limit;
    if exact {
        for m in 0..(1u128 << (n * n)) {
            cmp(m)?;
        }
    }
    // every reference solution
    for s in &sols {
        cmp(*s)?;
    }
    // every attacking pair: alone, and inside a full one-per-row placement
    let mut rng = Rng::new(mix(seed, n as u64));
    for a in 0..n * n {
        for b in (a + 1)..n * n {
            let (ra, ca, rb, cb) = (a / n, a % n, b / n, b % n);
            let attack = ra == rb || ca == cb || ra.abs_diff(rb) == ca.abs_diff(cb);
            if !attack {
                continue;
            }
            let pair = (1u128 << a) | (1u128 << b);
            cmp(pair)?;
            let mut full = pair;
            for r in 0..n {
                if r != ra && r != rb {
                    full |= 1u128 << (r * n + rng.below(n));
                }
            }
            cmp(full)?;
        }
    }
    // one queen per row: all n^n placements for small n, a sample beyond
    let all_limit = tier.pick(6, 7);
    if n <= all_limit {
        let total = (n as u64).pow(n as u32);
        for code in 0..total {
            let mut c = code;
            let mut m = 0u128;
            for r in 0..n {
                m |= 1u128 << (r * n + (c % n as u64) as usize);
                c /= n as u64;
            }
            cmp(m)?;
        }
    } else {
        for _ in 0..tier.pick(200_000, 3_000_000) {
            let mut m = 0u128;
            for r in 0..n {
                m |= 1u128 << (r * n + rng.below(n));
            }
            cmp(m)?;
        }
    }
    // near-misses of solutions: remove, add, move a queen; and random assignments
    for s in sols.iter().take(2000) {
        for _ in 0..6 {
            let sq = rng.below(n * n);
            cmp(s ^ (1u128 << sq))?;
            let sq2 = rng.below(n * n);
            cmp(s ^ (1u128 << sq) ^ (1u128 << sq2))?;
        }
    }
    for _ in 0..20_000 {
        let mut m = 0u128;
        for s in 0..n * n {
            if rng.below(n) == 0 {
                m |= 1u128 << s;
            }
        }
        cmp(m)?;
    }
    Ok(Report {
        assignments_compared: compared,
        exact,
        solutions: sols.len(),
    })
}

/// end to end: `rsbdd -t -ft <file>` lists exactly the reference solutions
pub fn check_solver(n: usize, text: &str) -> Result<usize, String> {
    let scratch = cli::Scratch::new();
    let p = scratch.file("queens.txt", text.as_bytes());
    let out = cli::run(
        &cli::bin("rsbdd"),
        &[p.to_string_lossy().into_owned(), "-t".into(), "-ft".into()],
        None,
        Duration::from_secs(900),
    );
    if out.timed_out {
        return Err("HARNESS: rsbdd timed out".into());
    }
    if !out.ok() {
        return Err(format!("rsbdd failed on the generated formula: {}", out.describe()));
    }
    let printed = cli::parse_stdout(&out.out())?;
    let header = printed.header.ok_or("no table")?;
    let pos: Vec<usize> = header
        .iter()
        .map(|h| square_of(h, n).ok_or_else(|| format!("unexpected column {}", h)))
        .collect::<Result<_, _>>()?;
    let mut got: BTreeSet<u128> = BTreeSet::new();
    for (row, res) in &printed.rows {
        if !res {
            return Err("-ft printed a False row".into());
        }
        let mut base = 0u128;
        let mut any: Vec<usize> = Vec::new();
        for (c, cell) in row.iter().enumerate() {
            match cell {
                cli::Cell::True => base |= 1u128 << pos[c],
                cli::Cell::False => {}
                cli::Cell::Any => any.push(pos[c]),
            }
        }
        if any.len() > 12 {
            return Err("a solution row leaves more than 12 squares open".into());
        }
        for sub in 0..(1usize << any.len()) {
            let mut m = base;
            for (i, s) in any.iter().enumerate() {
                if (sub >> i) & 1 == 1 {
                    m |= 1u128 << s;
                }
            }
            if !got.insert(m) {
                return Err("two rows cover the same placement".into());
            }
        }
    }
    // squares not in the header are unconstrained: must not happen for n >= 1
    if header.len() != n * n {
        return Err(format!("the table has {} columns for {} squares", header.len(), n * n));
    }
    let want: BTreeSet<u128> = reference_solutions(n).into_iter().collect();
    if got != want {
        let extra: Vec<String> = got.difference(&want).take(2).map(|m| describe(n, *m)).collect();
        let missing: Vec<String> = want.difference(&got).take(2).map(|m| describe(n, *m)).collect();
        return Err(format!(
            "n={}: rsbdd lists {} placements, the reference has {}; not solutions: {:?}; missing: {:?}",
            n,
            got.len(),
            want.len(),
            extra,
            missing
        ));
    }
    Ok(got.len())
}

// ------------------------------------------------------------------ large boards

/// an explicit n-queens solution (the classical even/odd construction), verified by the caller
fn explicit_solution(n: usize) -> Vec<usize> {
    let mut evens: Vec<usize> = (1..=n).filter(|x| x % 2 == 0).collect();
    let mut odds: Vec<usize> = (1..=n).filter(|x| x % 2 == 1).collect();
    match n % 6 {
        2 => {
            // swap 1 and 3, move 5 to the end
            if odds.len() >= 2 {
                odds.swap(0, 1);
            }
            if let Some(p) = odds.iter().position(|x| *x == 5) {
                let v = odds.remove(p);
                odds.push(v);
            }
        }
        3 => {
            if let Some(p) = evens.iter().position(|x| *x == 2) {
                let v = evens.remove(p);
                evens.push(v);
            }
            for w in [1usize, 3] {
                if let Some(p) = odds.iter().position(|x| *x == w) {
                    let v = odds.remove(p);
                    odds.push(v);
                }
            }
        }
        _ => {}
    }
    evens.extend(odds);
    evens.iter().map(|c| c - 1).collect()
}

fn is_solution_cols(n: usize, queens: &[(usize, usize)]) -> bool {
    if queens.len() != n {
        return false;
    }
    for i in 0..queens.len() {
        for j in (i + 1)..queens.len() {
            let (a, b) = (queens[i], queens[j]);
            if a == b || a.0 == b.0 || a.1 == b.1 || a.0.abs_diff(b.0) == a.1.abs_diff(b.1) {
                return false;
            }
        }
    }
    true
}

/// boards too large for bit masks / enumeration: well-formedness, exact variable set, and
/// classification agreement on constructed and sampled assignments
pub fn check_large(n: usize, seed: u64, evals: usize) -> Result<u64, Violation> {
    let cj = json!({"kind": "queens-large", "n": n});
    let v = |m: String| Violation::new(m, cj.clone());
    let text = run_generator(n, false).map_err(|e| v(e))?;
    let parsed = rparse::parse_text(text.as_bytes()).map_err(|e| v(format!("n={}: the output is not a well-formed formula: {}", n, e)))?;
    if n <= 64 {
        // (ParsedFormula::new is quadratic in the formula size: its acceptance is checked up to n = 64 only)
        front::parse(text.as_bytes(), None).map_err(|e| v(format!("n={}: rsbdd's parser rejects the output: {}", n, e)))?;
    }
    let idents: BTreeSet<String> = rlex::identifiers(&parsed.tokens).into_iter().collect();
    let want: BTreeSet<String> = (0..n * n).map(|k| format!("v_{}", k)).collect();
    if idents != want {
        return Err(v(format!(
            "n={}: the formula mentions {} names instead of exactly v_0..v_{} (e.g. {:?})",
            n,
            idents.len(),
            n * n - 1,
            idents.symmetric_difference(&want).take(4).collect::<Vec<_>>()
        )));
    }
    // constraints as lists of squares
    let mut terms = Vec::new();
    flatten_and(&parsed.ast, &mut terms);
    // (another, equivalent encoding - disjunctions, pairwise exclusions - is evaluated point-wise
    // through the reference semantics instead of the constraint index)
    let mut cons: Vec<(Vec<usize>, CntOp, u64)> = Vec::new();
    let mut plain_shape = true;
    'terms: for t in terms {
        match t {
            RAst::True => {}
            RAst::CountConst(op, l, k) => {
                let mut sq = Vec::new();
                for f in l {
                    match f {
                        RAst::Var(name) => sq.push(name[2..].parse::<usize>().map_err(|_| v("HARNESS: variable name".into()))?),
                        _ => {
                            plain_shape = false;
                            break 'terms;
                        }
                    }
                }
                cons.push((sq, *op, *k));
            }
            _ => {
                plain_shape = false;
                break 'terms;
            }
        }
    }
    if !plain_shape {
        cons.clear();
    }
    // inverse index: square -> constraints mentioning it (boards are sparse: ~n queens)
    let mut sq2cons: Vec<Vec<u32>> = vec![Vec::new(); n * n];
    for (ci, (sq, _, _)) in cons.iter().enumerate() {
        for s_ in sq {
            if *s_ >= n * n {
                return Err(v(format!("n={}: variable v_{} is outside the board", n, s_)));
            }
            sq2cons[*s_].push(ci as u32);
        }
    }
    let mut compared = 0u64;
    let mut counts: Vec<u32> = vec![0; cons.len()];
    let mut cmp = |queens: &[(usize, usize)]| -> Result<(), Violation> {
        compared += 1;
        // the assignment is the SET of occupied squares
        let distinct: Vec<(usize, usize)> = queens.iter().copied().collect::<BTreeSet<_>>().into_iter().collect();
        let want = is_solution_cols(n, &distinct);
        for c in counts.iter_mut() {
            *c = 0;
        }
        for (r, c) in &distinct {
            for ci in &sq2cons[r * n + c] {
                counts[*ci as usize] += 1;
            }
        }
        let got = if plain_shape {
            cons.iter().zip(counts.iter()).all(|((_, op, k), c)| op.holds(*c as i128, *k as i128))
        } else {
            let occupied: std::collections::HashSet<usize> = distinct.iter().map(|(r, c)| r * n + c).collect();
            match rsem::eval_at(&parsed.ast, &|name: &str| name[2..].parse::<usize>().map(|k| occupied.contains(&k)).unwrap_or(false)) {
                Ok(b) => b,
                Err(e) => return Err(v(format!("SKIP: n={}: the emitted formula cannot be evaluated point-wise ({})", n, e))),
            }
        };
        if got != want {
            let shown: Vec<&(usize, usize)> = queens.iter().take(12).collect();
            return Err(v(format!(
                "n={}: the formula is {} on a placement (first queens {:?}) that {} a solution",
                n,
                got,
                shown,
                if want { "is" } else { "is not" }
            )));
        }
        Ok(())
    };
    let mut rng = Rng::new(mix(seed, n as u64 * 977));
    // a constructed solution and its symmetric images
    if n >= 4 {
        let cols = explicit_solution(n);
        let base: Vec<(usize, usize)> = cols.iter().enumerate().map(|(r, c)| (r, *c)).collect();
        if is_solution_cols(n, &base) {
            let images: Vec<Vec<(usize, usize)>> = vec![
                base.clone(),
                base.iter().map(|(r, c)| (*c, *r)).collect(),
                base.iter().map(|(r, c)| (n - 1 - r, *c)).collect(),
                base.iter().map(|(r, c)| (*r, n - 1 - c)).collect(),
                base.iter().map(|(r, c)| (n - 1 - c, n - 1 - r)).collect(),
            ];
            for img in &images {
                cmp(img)?;
                // near-misses: move / remove / add one queen
                for _ in 0..(evals / 10).max(5) {
                    let mut q = img.clone();
                    let i = rng.below(n);
                    match rng.below(3) {
                        0 => q[i] = (q[i].0, rng.below(n)),
                        1 => {
                            q.remove(i);
                        }
                        _ => q.push((rng.below(n), rng.below(n))),
                    }
                    cmp(&q)?;
                }
            }
        }
    }
    // attacking pairs in every direction, at the extremes of every line and at random
    for _ in 0..evals {
        let (r, c) = (rng.below(n), rng.below(n));
        let d = 1 + rng.below(n);
        for (dr, dc) in [(0i64, 1i64), (1, 0), (1, 1), (1, -1)] {
            let (r2, c2) = (r as i64 + dr * d as i64, c as i64 + dc * d as i64);
            if r2 >= 0 && c2 >= 0 && (r2 as usize) < n && (c2 as usize) < n {
                cmp(&[(r, c), (r2 as usize, c2 as usize)])?;
            }
        }
    }
    for k in 0..n {
        // the two ends of every diagonal and anti-diagonal
        for (a, b) in [
            ((0usize, k), (n - 1 - k, n - 1)),
            ((k, 0usize), (n - 1, n - 1 - k)),
            ((0usize, k), (k, 0usize)),
            ((k, n - 1), (n - 1, k)),
        ] {
            if a != b {
                cmp(&[a, b])?;
            }
        }
    }
    // random one-queen-per-row placements
    for _ in 0..evals {
        let q: Vec<(usize, usize)> = (0..n).map(|r| (r, rng.below(n))).collect();
        cmp(&q)?;
    }
    Ok(compared)
}

pub fn check_n(n: usize, tier: Tier, seed: u64, solver: bool) -> Result<Report, Violation> {
    let cj = json!({"kind": "queens", "n": n, "solver": solver});
    let v = |m: String| Violation::new(m, cj.clone());
    let a = run_generator(n, false).map_err(|e| v(e))?;
    let b = run_generator(n, true).map_err(|e| v(e))?;
    if a != b {
        return Err(v(format!("n={}: stdout and the output file differ", n)));
    }
    let rep = check_text(n, &a, tier, seed).map_err(|e| v(e))?;
    if solver {
        check_solver(n, &a).map_err(|e| v(e))?;
    }
    Ok(rep)
}

pub fn run(ctx: &mut Ctx) -> Result<(), Violation> {
    ctx.rule = "cases = board sizes n (configuration enumeration) x generated assignments. For each n the n_queens_gen binary (built from the working tree) is run with stdout and with an output file (must agree); the text must be accepted by the reference parser and by rsbdd's parser and mention exactly v_0..v_(n*n-1), all free. \
                Oracle: brute-force queens enumerator and the classifier 'exactly n queens, no two sharing a row, column or diagonal'. n <= 4 (quick) / 5 (thorough): exact model-set equality over all 2^(n*n) assignments (formula compiled to mask/popcount constraints from the reference tree). Every n: every reference solution, every attacking pair of squares (alone and inside a full placement), all n^n one-queen-per-row placements (n <= 6 / 7, sampled beyond), near-misses of solutions and random assignments are classified exactly as the reference classifies them. \
                End to end: `rsbdd -t -ft` on the generated file lists exactly the reference solutions for n <= 6 (quick) / 7 (thorough). Non-trivial = an assignment with >= 2 queens compared; the evidence counts assignments; distinct_nontrivial counts distinct (n, stage) configurations with n >= 4."
        .to_string();
    ctx.assume("exhaustive / enumerated checks for n <= 8 (quick) / 10 (thorough); boards up to 33 (quick) / 200 (thorough) are sampled: constructed solution and its symmetric images, near-misses, attacking pairs at random and at the ends of every line, random row placements");

    let nmax = ctx.tier.pick(8usize, 10usize);
    let solver_max = ctx.tier.pick(6usize, 7usize);
    let jobs: Vec<usize> = (1..=nmax).collect();
    let tier = ctx.tier;
    let seed = ctx.seed;
    let r = par_jobs(ctx, &jobs, |n, st| {
        let rep = check_n(*n, tier, seed, *n <= solver_max)?;
        st.evals(rep.assignments_compared);
        st.class_n(&format!("assignments-compared-n{}", n), rep.assignments_compared);
        st.class_n(&format!("reference-solutions-n{}", n), rep.solutions as u64);
        if rep.exact {
            st.class(&format!("exact-model-set-equality-n{}", n));
        }
        if *n <= solver_max {
            st.class(&format!("solver-end-to-end-n{}", n));
        }
        if *n >= 4 {
            st.nontrivial(mix(*n as u64, 1));
            if rep.exact {
                st.nontrivial(mix(*n as u64, 2));
            }
            if *n <= solver_max {
                st.nontrivial(mix(*n as u64, 3));
            }
        }
        st.nt_sample(|| json!({"n": n, "assignments_compared": rep.assignments_compared, "exact": rep.exact, "reference_solutions": rep.solutions}));
        Ok(())
    });
    ctx.stage("board-sizes", true, r)?;

    // larger boards: no enumeration, but well-formedness, the exact variable set and
    // classification agreement on constructed solutions, near-misses, attacking pairs and samples
    let large: Vec<usize> = match ctx.tier {
        Tier::Quick => vec![9, 11, 12, 13, 16, 17, 20, 33, 256],
        Tier::Thorough => vec![9, 11, 12, 13, 14, 15, 16, 17, 18, 20, 24, 32, 33, 50, 64, 100, 128, 200, 255, 256, 257, 300],
    };
    let r = par_jobs(ctx, &large, |n, st| {
        let evals = if *n <= 40 { 3000 } else { 300 };
        let compared = check_large(*n, seed, evals)?;
        st.evals(compared);
        st.class_n(&format!("large-board-assignments-n{}", n), compared);
        st.nontrivial(mix(*n as u64, 7));
        st.nt_sample(|| json!({"kind": "queens-large", "n": n, "assignments_compared": compared}));
        Ok(())
    });
    ctx.stage("large-boards-sampled", false, r)?;
    Ok(())
}

pub fn replay(case: &Value) -> Check {
    match case["n"].as_u64() {
        Some(n) if case["kind"].as_str() == Some("queens-large") && (1..=400).contains(&n) => {
            check_large(n as usize, 0, 300).map(|_| ())
        }
        Some(n) if (1..=10).contains(&n) => {
            check_n(n as usize, Tier::Quick, 0, case["solver"].as_bool().unwrap_or(false) && n <= 7).map(|_| ())
        }
        _ => Err(Violation::new("unreadable replay case", case.clone())),
    }
}
