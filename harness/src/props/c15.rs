//! C15 — n_queens_gen emits a formula whose models are exactly the n-queens solutions.

use crate::cli;
use crate::engine::*;
use crate::front;
use crate::rast::{BinOp, CntOp, RAst};
use crate::rlex;
use crate::rparse;
use crate::rsem;
use crate::util::{mix, Rng};
use serde_json::{json, Value};
use std::collections::BTreeSet;
use std::time::Duration;

/// all placements of n mutually non-attacking queens, as bit masks over squares row*n+col
pub fn reference_solutions(n: usize) -> Vec<u128> {
    fn go(n: usize, row: usize, cols: &mut Vec<usize>, out: &mut Vec<u128>) {
        if row == n {
            let mut m = 0u128;
            for (r, c) in cols.iter().enumerate() {
                m |= 1u128 << (r * n + c);
            }
            out.push(m);
            return;
        }
        for c in 0..n {
            let ok = cols.iter().enumerate().all(|(r, &cc)| cc != c && (row - r) != c.abs_diff(cc));
            if ok {
                cols.push(c);
                go(n, row + 1, cols, out);
                cols.pop();
            }
        }
    }
    let mut out = Vec::new();
    go(n, 0, &mut Vec::new(), &mut out);
    out
}

/// reference classifier: exactly n queens, no two attacking each other
pub fn is_solution(n: usize, m: u128) -> bool {
    if m.count_ones() as usize != n {
        return false;
    }
    let sq: Vec<(usize, usize)> = (0..n * n).filter(|s| (m >> s) & 1 == 1).map(|s| (s / n, s % n)).collect();
    for i in 0..sq.len() {
        for j in (i + 1)..sq.len() {
            let (a, b) = (sq[i], sq[j]);
            if a.0 == b.0 || a.1 == b.1 || a.0.abs_diff(b.0) == a.1.abs_diff(b.1) {
                return false;
            }
        }
    }
    true
}

/// The emitted text reduced to cardinality constraints over square masks, when it has
/// that shape: a right-nested conjunction of `[v_i, ..] op k` terms and `true`.
pub struct Compiled {
    pub cons: Vec<(u128, CntOp, u64)>,
}

fn flatten_and<'a>(a: &'a RAst, out: &mut Vec<&'a RAst>) {
    match a {
        RAst::Bin(BinOp::And, l, r) => {
            flatten_and(l, out);
            flatten_and(r, out);
        }
        _ => out.push(a),
    }
}

fn square_of(name: &str, n: usize) -> Option<usize> {
    let k: usize = name.strip_prefix("v_")?.parse().ok()?;
    if k < n * n && name == format!("v_{}", k) {
        Some(k)
    } else {
        None
    }
}

pub fn compile(ast: &RAst, n: usize) -> Option<Compiled> {
    let mut terms = Vec::new();
    flatten_and(ast, &mut terms);
    let mut cons = Vec::new();
    for t in terms {
        match t {
            RAst::True => {}
            RAst::CountConst(op, l, k) => {
                let mut mask = 0u128;
                for f in l {
                    match f {
                        RAst::Var(name) => {
                            let s = square_of(name, n)?;
                            if (mask >> s) & 1 == 1 {
                                return None; // repeated operand: not a plain mask constraint
                            }
                            mask |= 1u128 << s;
                        }
                        _ => return None,
                    }
                }
                cons.push((mask, *op, *k));
            }
            _ => return None,
        }
    }
    Some(Compiled { cons })
}

impl Compiled {
    pub fn eval(&self, m: u128) -> bool {
        self.cons.iter().all(|(mask, op, k)| op.holds((m & mask).count_ones() as i128, *k as i128))
    }
}

fn describe(n: usize, m: u128) -> String {
    let q: Vec<String> = (0..n * n).filter(|s| (m >> s) & 1 == 1).map(|s| format!("({},{})", s / n, s % n)).collect();
    format!("queens at {}", q.join(" "))
}

pub fn run_generator(n: usize, to_file: bool) -> Result<String, String> {
    let scratch = cli::Scratch::new();
    let mut args = vec!["-n".to_string(), n.to_string()];
    let path = scratch.path("queens.txt");
    if to_file {
        args.insert(0, path.to_string_lossy().into_owned());
    }
    let out = cli::run(&cli::bin("n_queens_gen"), &args, None, Duration::from_secs(60));
    if !out.ok() {
        return Err(format!("n_queens_gen -n {} failed: {}", n, out.describe()));
    }
    if to_file {
        std::fs::read_to_string(&path).map_err(|e| format!("output file: {}", e))
    } else {
        Ok(out.out())
    }
}

pub struct Report {
    pub assignments_compared: u64,
    pub exact: bool,
    pub solutions: usize,
}

/// semantic part: the text's models versus the reference, for board size n
pub fn check_text(n: usize, text: &str, tier: Tier, seed: u64) -> Result<Report, String> {
    let parsed = rparse::parse_text(text.as_bytes()).map_err(|e| format!("the output is not a well-formed formula: {}", e))?;
    front::parse(text.as_bytes(), None).map_err(|e| format!("rsbdd's parser rejects the output: {}", e))?;
    let idents: BTreeSet<String> = rlex::identifiers(&parsed.tokens).into_iter().collect();
    let want: BTreeSet<String> = (0..n * n).map(|k| format!("v_{}", k)).collect();
    if idents != want {
        return Err(format!(
            "the formula mentions {:?} instead of exactly v_0..v_{}",
            idents.symmetric_difference(&want).take(6).collect::<Vec<_>>(),
            n * n - 1
        ));
    }
    if !parsed.ast.free_vars().iter().eq(want.iter()) {
        return Err("not every v_k is a free variable".into());
    }
    let compiled = compile(&parsed.ast, n);
    let eval = |m: u128| -> Result<bool, String> {
        match &compiled {
            Some(c) => Ok(c.eval(m)),
            None => rsem::eval_at(&parsed.ast, &|name: &str| match square_of(name, n) {
                Some(s) => (m >> s) & 1 == 1,
                None => false,
            }),
        }
    };
    let sols = reference_solutions(n);
    let mut compared = 0u64;
    let mut cmp = |m: u128| -> Result<(), String> {
        compared += 1;
        let got = eval(m)?;
        let want = is_solution(n, m);
        if got != want {
            return Err(format!(
                "n={}: the formula is {} on the assignment with {}, which {} a placement of {} non-attacking queens",
                n,
                got,
                describe(n, m),
                if want { "is" } else { "is not" },
                n
            ));
        }
        Ok(())
    };
    // exact model-set equality where the space can be exhausted
    let exact_limit = match (tier, compiled.is_some()) {
        (Tier::Quick, true) => 4,
        (Tier::Thorough, true) => 5,
        (_, false) => 3,
    };
    let exact = n <= exact_limit;
    if exact {
        for m in 0..(1u128 << (n * n)) {
            cmp(m)?;
        }
    }
    // every reference solution
    for s in &sols {
        cmp(*s)?;
    }
    // every attacking pair: alone, and inside a full one-per-row placement
    let mut rng = Rng::new(mix(seed, n as u64));
    for a in 0..n * n {
        for b in (a + 1)..n * n {
            let (ra, ca, rb, cb) = (a / n, a % n, b / n, b % n);
            let attack = ra == rb || ca == cb || ra.abs_diff(rb) == ca.abs_diff(cb);
            if !attack {
                continue;
            }
            let pair = (1u128 << a) | (1u128 << b);
            cmp(pair)?;
            let mut full = pair;
            for r in 0..n {
                if r != ra && r != rb {
                    full |= 1u128 << (r * n + rng.below(n));
                }
            }
            cmp(full)?;
        }
    }
    // one queen per row: all n^n placements for small n, a sample beyond
    let all_limit = tier.pick(6, 7);
    if n <= all_limit {
        let total = (n as u64).pow(n as u32);
        for code in 0..total {
            let mut c = code;
            let mut m = 0u128;
            for r in 0..n {
                m |= 1u128 << (r * n + (c % n as u64) as usize);
                c /= n as u64;
            }
            cmp(m)?;
        }
    } else {
        for _ in 0..tier.pick(200_000, 3_000_000) {
            let mut m = 0u128;
            for r in 0..n {
                m |= 1u128 << (r * n + rng.below(n));
            }
            cmp(m)?;
        }
    }
    // near-misses of solutions: remove, add, move a queen; and random assignments
    for s in sols.iter().take(2000) {
        for _ in 0..6 {
            let sq = rng.below(n * n);
            cmp(s ^ (1u128 << sq))?;
            let sq2 = rng.below(n * n);
            cmp(s ^ (1u128 << sq) ^ (1u128 << sq2))?;
        }
    }
    for _ in 0..20_000 {
        let mut m = 0u128;
        for s in 0..n * n {
            if rng.below(n) == 0 {
                m |= 1u128 << s;
            }
        }
        cmp(m)?;
    }
    Ok(Report {
        assignments_compared: compared,
        exact,
        solutions: sols.len(),
    })
}

/// end to end: `rsbdd -t -ft <file>` lists exactly the reference solutions
pub fn check_solver(n: usize, text: &str) -> Result<usize, String> {
    let scratch = cli::Scratch::new();
    let p = scratch.file("queens.txt", text.as_bytes());
    let out = cli::run(
        &cli::bin("rsbdd"),
        &[p.to_string_lossy().into_owned(), "-t".into(), "-ft".into()],
        None,
        Duration::from_secs(900),
    );
    if out.timed_out {
        return Err("HARNESS: rsbdd timed out".into());
    }
    if !out.ok() {
        return Err(format!("rsbdd failed on the generated formula: {}", out.describe()));
    }
    let printed = cli::parse_stdout(&out.out())?;
    let header = printed.header.ok_or("no table")?;
    let pos: Vec<usize> = header
        .iter()
        .map(|h| square_of(h, n).ok_or_else(|| format!("unexpected column {}", h)))
        .collect::<Result<_, _>>()?;
    let mut got: BTreeSet<u128> = BTreeSet::new();
    for (row, res) in &printed.rows {
        if !res {
            return Err("-ft printed a False row".into());
        }
        let mut base = 0u128;
        let mut any: Vec<usize> = Vec::new();
        for (c, cell) in row.iter().enumerate() {
            match cell {
                cli::Cell::True => base |= 1u128 << pos[c],
                cli::Cell::False => {}
                cli::Cell::Any => any.push(pos[c]),
            }
        }
        if any.len() > 12 {
            return Err("a solution row leaves more than 12 squares open".into());
        }
        for sub in 0..(1usize << any.len()) {
            let mut m = base;
            for (i, s) in any.iter().enumerate() {
                if (sub >> i) & 1 == 1 {
                    m |= 1u128 << s;
                }
            }
            if !got.insert(m) {
                return Err("two rows cover the same placement".into());
            }
        }
    }
    // squares not in the header are unconstrained: must not happen for n >= 1
    if header.len() != n * n {
        return Err(format!("the table has {} columns for {} squares", header.len(), n * n));
    }
    let want: BTreeSet<u128> = reference_solutions(n).into_iter().collect();
    if got != want {
        let extra: Vec<String> = got.difference(&want).take(2).map(|m| describe(n, *m)).collect();
        let missing: Vec<String> = want.difference(&got).take(2).map(|m| describe(n, *m)).collect();
        return Err(format!(
            "n={}: rsbdd lists {} placements, the reference has {}; not solutions: {:?}; missing: {:?}",
            n,
            got.len(),
            want.len(),
            extra,
            missing
        ));
    }
    Ok(got.len())
}

pub fn check_n(n: usize, tier: Tier, seed: u64, solver: bool) -> Result<Report, Violation> {
    let cj = json!({"kind": "queens", "n": n, "solver": solver});
    let v = |m: String| Violation::new(m, cj.clone());
    let a = run_generator(n, false).map_err(|e| v(e))?;
    let b = run_generator(n, true).map_err(|e| v(e))?;
    if a != b {
        return Err(v(format!("n={}: stdout and the output file differ", n)));
    }
    let rep = check_text(n, &a, tier, seed).map_err(|e| v(e))?;
    if solver {
        check_solver(n, &a).map_err(|e| v(e))?;
    }
    Ok(rep)
}

pub fn run(ctx: &mut Ctx) -> Result<(), Violation> {
    ctx.rule = "cases = board sizes n (configuration enumeration) x generated assignments. For each n the n_queens_gen binary (built from the working tree) is run with stdout and with an output file (must agree); the text must be accepted by the reference parser and by rsbdd's parser and mention exactly v_0..v_(n*n-1), all free. \
                Oracle: brute-force queens enumerator and the classifier 'exactly n queens, no two sharing a row, column or diagonal'. n <= 4 (quick) / 5 (thorough): exact model-set equality over all 2^(n*n) assignments (formula compiled to mask/popcount constraints from the reference tree). Every n: every reference solution, every attacking pair of squares (alone and inside a full placement), all n^n one-queen-per-row placements (n <= 6 / 7, sampled beyond), near-misses of solutions and random assignments are classified exactly as the reference classifies them. \
                End to end: `rsbdd -t -ft` on the generated file lists exactly the reference solutions for n <= 6 (quick) / 7 (thorough). Non-trivial = an assignment with >= 2 queens compared; the evidence counts assignments; distinct_nontrivial counts distinct (n, stage) configurations with n >= 4."
        .to_string();
    ctx.assume("n ranges over 1..8 (quick) / 1..10 (thorough); larger boards are not explored");

    let nmax = ctx.tier.pick(8usize, 10usize);
    let solver_max = ctx.tier.pick(6usize, 7usize);
    let jobs: Vec<usize> = (1..=nmax).collect();
    let tier = ctx.tier;
    let seed = ctx.seed;
    let r = par_jobs(ctx, &jobs, |n, st| {
        let rep = check_n(*n, tier, seed, *n <= solver_max)?;
        st.evals(rep.assignments_compared);
        st.class_n(&format!("assignments-compared-n{}", n), rep.assignments_compared);
        st.class_n(&format!("reference-solutions-n{}", n), rep.solutions as u64);
        if rep.exact {
            st.class(&format!("exact-model-set-equality-n{}", n));
        }
        if *n <= solver_max {
            st.class(&format!("solver-end-to-end-n{}", n));
        }
        if *n >= 4 {
            st.nontrivial(mix(*n as u64, 1));
            if rep.exact {
                st.nontrivial(mix(*n as u64, 2));
            }
            if *n <= solver_max {
                st.nontrivial(mix(*n as u64, 3));
            }
        }
        st.nt_sample(|| json!({"n": n, "assignments_compared": rep.assignments_compared, "exact": rep.exact, "reference_solutions": rep.solutions}));
        Ok(())
    });
    ctx.stage("board-sizes", true, r)?;
    Ok(())
}

pub fn replay(case: &Value) -> Check {
    match case["n"].as_u64() {
        Some(n) if (1..=10).contains(&n) => {
            check_n(n as usize, Tier::Quick, 0, case["solver"].as_bool().unwrap_or(false) && n <= 7).map(|_| ())
        }
        _ => Err(Violation::new("unreadable replay case", case.clone())),
    }
}
