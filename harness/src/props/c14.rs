//! C14 — Graphviz exports denote the same diagram / syntax tree they were made from.

use crate::cli;
use crate::dot::{self, Graph};
use crate::engine::*;
use crate::front::{self, Run};
use crate::fun::{gen_fun, Fun};
use crate::gen::{self, Cfg};
use crate::plain;
use crate::rast::{BinOp, CntOp, RAst};
use crate::rlex;
use crate::rparse;
use crate::rprint;
use crate::rsem;
use crate::tt::TT;
use crate::util::{fnv_str, Tape};
use rsbdd::bdd::{BDDEnv, BDD};
use rsbdd::bdd_io::BDDGraph;
use rsbdd::parser_io::SymbolicParseTree;
use rsbdd::{BDDSymbol, TruthTableEntry};
use serde_json::{json, Value};
use std::collections::{BTreeSet, HashMap, HashSet};
use std::rc::Rc;
use std::time::Duration;

fn filt(c: char) -> TruthTableEntry {
    match c {
        't' => TruthTableEntry::True,
        'f' => TruthTableEntry::False,
        _ => TruthTableEntry::Any,
    }
}

fn render<S: BDDSymbol>(b: &Rc<BDD<S>>, f: char) -> Result<String, String> {
    let mut buf = Vec::new();
    BDDGraph::new(b, filt(f)).render_dot(&mut buf).map_err(|e| format!("render_dot failed: {}", e))?;
    String::from_utf8(buf).map_err(|_| "DOT output is not UTF-8".to_string())
}

/// Evaluate a read-back decision graph. `missing` = leaf value assumed for a missing edge
/// (filtered exports omit the opposite leaf and the edges into it).
fn eval_graph(
    g: &Graph,
    labels: &HashMap<String, String>,
    root: &str,
    names: &[String],
    idx: usize,
    missing: Option<bool>,
) -> Result<bool, String> {
    let mut cur = root.to_string();
    for _ in 0..10_000 {
        if cur == "n_true" {
            return Ok(true);
        }
        if cur == "n_false" {
            return Ok(false);
        }
        let label = labels.get(&cur).ok_or_else(|| format!("undeclared node {}", cur))?;
        let p = names
            .iter()
            .position(|n| n == label)
            .ok_or_else(|| format!("node labelled `{}` is not a variable of the diagram", label))?;
        let want = if (idx >> p) & 1 == 1 { "T" } else { "F" };
        let outs: Vec<&str> = g.out_edges(&cur).into_iter().filter(|(l, _)| *l == want).map(|(_, b)| b).collect();
        match outs.len() {
            1 => cur = outs[0].to_string(),
            0 => return missing.ok_or_else(|| format!("test node {} has no {} edge", cur, want)),
            _ => return Err(format!("test node {} has {} edges labelled {}", cur, outs.len(), want)),
        }
    }
    Err("cycle in the exported graph".into())
}

/// Check the three exports of one diagram whose table over `names` (by label) is `tt`.
pub fn check_bdd_exports<S: BDDSymbol>(b: &Rc<BDD<S>>, names: &[String], tt: &TT) -> Result<(), String> {
    let any_text = render(b, 'a')?;
    let any = dot::parse(&any_text)?;
    if any.name != "bdd_graph" {
        return Err(format!("graph is named {:?}", any.name));
    }
    let labels = any.well_formed()?;
    let tests: Vec<&String> = labels.keys().filter(|id| *id != "n_true" && *id != "n_false").collect();
    let sh = plain::invariants(b);
    if tests.len() != sh.distinct_tests {
        return Err(format!(
            "export declares {} test nodes, the diagram has {} distinct sub-diagrams",
            tests.len(),
            sh.distinct_tests
        ));
    }
    if labels.get("n_true").map(|l| l != "true").unwrap_or(false) || labels.get("n_false").map(|l| l != "false").unwrap_or(false) {
        return Err("leaf labels are not true/false".into());
    }
    for t in &tests {
        let outs = any.out_edges(t);
        let nt = outs.iter().filter(|(l, _)| *l == "T").count();
        let nf = outs.iter().filter(|(l, _)| *l == "F").count();
        if nt != 1 || nf != 1 || outs.len() != 2 {
            return Err(format!("test node {} has {} T and {} F edges", t, nt, nf));
        }
    }
    for (a, _, _) in &any.edges {
        if a == "n_true" || a == "n_false" {
            return Err("a leaf has an outgoing edge".into());
        }
    }
    let mut dedup: HashSet<&(String, String, String)> = HashSet::new();
    for e in &any.edges {
        if !dedup.insert(e) {
            return Err(format!("edge {:?} is written twice", e));
        }
    }
    let roots = any.roots();
    let root: String = match b.as_ref() {
        BDD::True => "n_true".into(),
        BDD::False => "n_false".into(),
        _ => {
            let r: Vec<&&str> = roots.iter().filter(|r| **r != "n_true" && **r != "n_false").collect();
            if r.len() != 1 {
                return Err(format!("expected one root, found {:?}", roots));
            }
            r[0].to_string()
        }
    };
    if b.is_const() {
        let want: BTreeSet<&str> = [if b.is_true() { "n_true" } else { "n_false" }].into_iter().collect();
        let got: BTreeSet<&str> = labels.keys().map(|s| s.as_str()).collect();
        if got != want {
            return Err(format!("a leaf diagram exports nodes {:?}", got));
        }
    }
    for idx in 0..tt.len() {
        let got = eval_graph(&any, &labels, &root, names, idx, None)?;
        if got != tt.get(idx) {
            return Err(format!(
                "the exported graph evaluates to {} under assignment {:#b}, the diagram to {}",
                got,
                idx,
                tt.get(idx)
            ));
        }
    }
    // filtered exports: the Any graph minus the opposite leaf and exactly the edges into it
    for (f, omitted) in [('t', "n_false"), ('f', "n_true")] {
        let text = render(b, f)?;
        let g = dot::parse(&text)?;
        g.well_formed().map_err(|e| format!("filter {}: {}", f, e))?;
        let want_nodes: BTreeSet<(String, String)> =
            any.nodes.iter().filter(|(id, _)| id != omitted).cloned().collect();
        let got_nodes: BTreeSet<(String, String)> = g.nodes.iter().cloned().collect();
        if g.nodes.len() != got_nodes.len() {
            return Err(format!("filter {}: a node is declared twice", f));
        }
        if got_nodes != want_nodes {
            return Err(format!(
                "filter {}: nodes differ from the unfiltered export minus {}: extra {:?}, missing {:?}",
                f,
                omitted,
                got_nodes.difference(&want_nodes).collect::<Vec<_>>(),
                want_nodes.difference(&got_nodes).collect::<Vec<_>>()
            ));
        }
        let want_edges: BTreeSet<(String, String, String)> =
            any.edges.iter().filter(|(_, _, b)| b != omitted).cloned().collect();
        let got_edges: BTreeSet<(String, String, String)> = g.edges.iter().cloned().collect();
        if g.edges.len() != got_edges.len() {
            return Err(format!("filter {}: an edge is written twice", f));
        }
        if got_edges != want_edges {
            return Err(format!(
                "filter {}: edges differ from the unfiltered export minus the edges into {}: extra {:?}, missing {:?}",
                f,
                omitted,
                got_edges.difference(&want_edges).collect::<Vec<_>>(),
                want_edges.difference(&got_edges).collect::<Vec<_>>()
            ));
        }
    }
    Ok(())
}

pub fn check_fun(f: &Fun) -> Check {
    let cj = json!({"kind": "bdd", "f": f.to_json()});
    guarded(&cj.clone(), || {
        let env: BDDEnv<usize> = BDDEnv::new();
        let h = f.intern(&env);
        let uni = f.ids_sorted();
        let names: Vec<String> = uni.iter().map(|i| i.to_string()).collect();
        check_bdd_exports(&h, &names, &f.over(&uni)).map_err(|e| Violation::new(e, cj.clone()))
    })
}

/// symbols whose printed names need escaping in DOT labels (library API: any `Display` symbol)
pub const ODD_NAMES: [&str; 14] = [
    "p\\q", "back\\", "say \"hi\"", "tab\there", "line\nbreak", "a b", "{x}", "<y>", "a|b", "semi;colon", "\u{e9}\u{20ac}", "]\"];", "[label=\"z", "'",
];

pub fn check_named(tt: &TT, names: &[String]) -> Check {
    let cj = json!({"kind": "named", "tt": tt.to_hex(), "names": names});
    guarded(&cj.clone(), || {
        let env: BDDEnv<String> = BDDEnv::new();
        let mut sorted: Vec<String> = names.to_vec();
        sorted.sort();
        sorted.dedup();
        if sorted.len() != names.len() {
            return Err(Violation::new("HARNESS: duplicate names", cj.clone()));
        }
        let h = plain::intern(&env, tt, names);
        check_bdd_exports(&h, names, tt).map_err(|e| Violation::new(e, cj.clone()))
    })
}

// ------------------------------------------------------------------ parse trees

fn binop_label(op: BinOp) -> &'static str {
    match op {
        BinOp::And => "And",
        BinOp::Or => "Or",
        BinOp::Xor => "Xor",
        BinOp::Nor => "Nor",
        BinOp::Nand => "Nand",
        BinOp::Implies => "Implies",
        BinOp::ImpliesInv => "ImpliesInv",
        BinOp::Iff => "Iff",
    }
}

fn cnt_label(op: CntOp) -> &'static str {
    match op {
        CntOp::AtMost => "AtMost",
        CntOp::LessThan => "LessThan",
        CntOp::AtLeast => "AtLeast",
        CntOp::MoreThan => "MoreThan",
        CntOp::Exactly => "Exactly",
    }
}

fn parse_binop(s: &str) -> Option<BinOp> {
    crate::rast::BINOPS.iter().copied().find(|o| binop_label(*o) == s)
}
fn parse_cnt(s: &str) -> Option<CntOp> {
    crate::rast::CNTOPS.iter().copied().find(|o| cnt_label(*o) == s)
}

fn child<'a>(g: &'a Graph, id: &str, label: &str) -> Result<&'a str, String> {
    let v: Vec<&str> = g.out_edges(id).into_iter().filter(|(l, _)| *l == label).map(|(_, b)| b).collect();
    if v.len() == 1 {
        Ok(v[0])
    } else {
        Err(format!("node {} has {} edges labelled {:?}", id, v.len(), label))
    }
}

fn indexed<'a>(g: &'a Graph, id: &str, prefix: &str) -> Result<Vec<&'a str>, String> {
    let mut found: Vec<(usize, &str)> = Vec::new();
    for (l, b) in g.out_edges(id) {
        if let Some(rest) = l.strip_prefix(prefix) {
            if let Some(num) = rest.strip_prefix('{').and_then(|r| r.strip_suffix('}')) {
                if let Ok(i) = num.parse::<usize>() {
                    found.push((i, b));
                }
            }
        }
    }
    found.sort();
    for (k, (i, _)) in found.iter().enumerate() {
        if *i != k {
            return Err(format!("node {}: operand edges {}{{..}} are not 0..n", id, prefix));
        }
    }
    Ok(found.into_iter().map(|x| x.1).collect())
}

fn rebuild(g: &Graph, labels: &HashMap<String, String>, id: &str, depth: usize) -> Result<RAst, String> {
    if depth > 5000 {
        return Err("cycle in the exported parse tree".into());
    }
    let label = labels.get(id).ok_or_else(|| format!("undeclared node {}", id))?;
    let outs = g.out_edges(id);
    let expect_out = |n: usize| -> Result<(), String> {
        if outs.len() == n {
            Ok(())
        } else {
            Err(format!("node {} ({}) has {} outgoing edges, expected {}", id, label, outs.len(), n))
        }
    };
    if label == "True" {
        expect_out(0)?;
        return Ok(RAst::True);
    }
    if label == "False" {
        expect_out(0)?;
        return Ok(RAst::False);
    }
    if label == "Not" {
        expect_out(1)?;
        return Ok(RAst::not(rebuild(g, labels, child(g, id, "")?, depth + 1)?));
    }
    if label == "Ite" {
        expect_out(3)?;
        return Ok(RAst::Ite(
            Box::new(rebuild(g, labels, child(g, id, "If")?, depth + 1)?),
            Box::new(rebuild(g, labels, child(g, id, "Then")?, depth + 1)?),
            Box::new(rebuild(g, labels, child(g, id, "Else")?, depth + 1)?),
        ));
    }
    if let Some(n) = label.strip_prefix("Var ") {
        expect_out(0)?;
        return Ok(RAst::Var(n.to_string()));
    }
    if let Some(n) = label.strip_prefix("Ref ") {
        expect_out(0)?;
        return Ok(RAst::Ref(n.to_string()));
    }
    for (pre, g_) in [("GFP ", true), ("LFP ", false)] {
        if let Some(n) = label.strip_prefix(pre) {
            expect_out(1)?;
            return Ok(RAst::Fix(n.to_string(), g_, Box::new(rebuild(g, labels, child(g, id, "")?, depth + 1)?)));
        }
    }
    for (pre, ex) in [("Exists [", true), ("Forall [", false)] {
        if let Some(rest) = label.strip_prefix(pre) {
            let inner = rest.strip_suffix(']').ok_or("quantifier label without ]")?;
            let names: Vec<String> = if inner.is_empty() {
                vec![]
            } else {
                inner.split(", ").map(|s| s.to_string()).collect()
            };
            expect_out(1)?;
            return Ok(RAst::Quant(ex, names, Box::new(rebuild(g, labels, child(g, id, "")?, depth + 1)?)));
        }
    }
    if let Some(op) = parse_binop(label) {
        expect_out(2)?;
        return Ok(RAst::bin(
            op,
            rebuild(g, labels, child(g, id, "L")?, depth + 1)?,
            rebuild(g, labels, child(g, id, "R")?, depth + 1)?,
        ));
    }
    if let Some(op) = parse_cnt(label) {
        let l = indexed(g, id, "L")?;
        let r = indexed(g, id, "R")?;
        expect_out(l.len() + r.len())?;
        return Ok(RAst::CountList(
            op,
            l.iter().map(|c| rebuild(g, labels, c, depth + 1)).collect::<Result<_, _>>()?,
            r.iter().map(|c| rebuild(g, labels, c, depth + 1)).collect::<Result<_, _>>()?,
        ));
    }
    if let Some((a, b)) = label.split_once(' ') {
        if let (Some(op), Ok(n)) = (parse_cnt(a), b.parse::<u64>()) {
            let l = indexed(g, id, "")?;
            expect_out(l.len())?;
            return Ok(RAst::CountConst(
                op,
                l.iter().map(|c| rebuild(g, labels, c, depth + 1)).collect::<Result<_, _>>()?,
                n,
            ));
        }
    }
    Err(format!("node {} has an unknown label {:?}", id, label))
}

fn distinct_subterms(a: &RAst, out: &mut HashSet<RAst>) {
    out.insert(a.clone());
    for c in a.children() {
        distinct_subterms(c, out);
    }
}

pub fn check_tree_dot(dot_text: &str, reference: &RAst) -> Result<(), String> {
    let g = dot::parse(dot_text)?;
    if g.name != "parse_tree" {
        return Err(format!("graph is named {:?}", g.name));
    }
    let labels = g.well_formed()?;
    let roots = g.roots();
    if roots.len() != 1 {
        return Err(format!("expected exactly one root, found {}", roots.len()));
    }
    let term = rebuild(&g, &labels, roots[0], 0)?;
    if &term != reference {
        return Err(format!(
            "the exported parse tree reads back as `{}` but the parsed formula is `{}`",
            rprint::plain(&term),
            rprint::plain(reference)
        ));
    }
    let mut subs = HashSet::new();
    distinct_subterms(reference, &mut subs);
    if g.nodes.len() != subs.len() {
        return Err(format!(
            "{} nodes declared but the tree has {} distinct sub-terms (identical sub-terms must be one node)",
            g.nodes.len(),
            subs.len()
        ));
    }
    Ok(())
}

pub fn check_formula(text: &str, via_cli: bool) -> Check {
    let cj = json!({"kind": "formula", "text": text, "cli": via_cli});
    let v = |m: String| Violation::new(m, cj.clone());
    let parsed = rparse::parse_text(text.as_bytes()).map_err(|e| v(format!("HARNESS: reference parser: {}", e)))?;
    let idents = rlex::identifiers(&parsed.tokens);
    guarded(&cj.clone(), || {
        let limit = (1usize << std::cmp::min(idents.len(), 12)) + 2;
        let (r, pf) = match front::run_text(text.as_bytes(), None, Some(limit)) {
            Run::Ok(r, pf) => (r, pf),
            Run::ParseErr(e) => return Err(v(format!("well-formed formula rejected: {}", e))),
            Run::ParsePanic(p) => return Err(v(format!("parser panicked: {}", p))),
            Run::EvalPanic(p, _) => return Err(v(format!("evaluation panicked: {}", p))),
        };
        let mut buf = Vec::new();
        SymbolicParseTree::new(&pf.bdd)
            .render_dot(&mut buf)
            .map_err(|e| v(format!("parse-tree render_dot failed: {}", e)))?;
        let tree_text = String::from_utf8(buf).map_err(|_| v("parse-tree DOT is not UTF-8".into()))?;
        check_tree_dot(&tree_text, &parsed.ast).map_err(|e| v(format!("parse tree: {}", e)))?;
        // the diagram, labelled by name
        let table = front::table_by_name(&r, &idents).map_err(|e| v(e))?;
        check_bdd_exports(&r, &idents, &table).map_err(|e| v(format!("diagram: {}", e)))?;
        if via_cli && !text.contains('\0') {
            let reference_table = rsem::table(&parsed.ast, &idents).map_err(|e| v(format!("HARNESS: {:?}", e)))?;
            let scratch = cli::Scratch::new();
            for (flag, f) in [("", 'a'), ("t", 't'), ("f", 'f')] {
                let dpath = scratch.path(&format!("d{}.dot", f));
                let ppath = scratch.path(&format!("p{}.dot", f));
                let mut args = vec![
                    format!("--evaluate={}", text),
                    "-d".to_string(),
                    dpath.to_string_lossy().into_owned(),
                    "-p".to_string(),
                    ppath.to_string_lossy().into_owned(),
                ];
                if !flag.is_empty() {
                    args.push("-f".into());
                    args.push(flag.into());
                }
                let out = cli::run(&cli::bin("rsbdd"), &args, None, Duration::from_secs(60));
                if !out.ok() {
                    return Err(v(format!("rsbdd -d -p failed: {}", out.describe())));
                }
                let d = std::fs::read_to_string(&dpath).map_err(|e| v(format!("-d file: {}", e)))?;
                let p = std::fs::read_to_string(&ppath).map_err(|e| v(format!("-p file: {}", e)))?;
                check_tree_dot(&p, &parsed.ast).map_err(|e| v(format!("-p file: {}", e)))?;
                // the -d file under filter f: same shape rules as the API export
                let g = dot::parse(&d).map_err(|e| v(format!("-d file: {}", e)))?;
                let labels = g.well_formed().map_err(|e| v(format!("-d file: {}", e)))?;
                let tests = labels.keys().filter(|id| *id != "n_true" && *id != "n_false").count();
                let sh = plain::invariants(&r);
                if tests != sh.distinct_tests {
                    return Err(v(format!("-d file declares {} test nodes, expected {}", tests, sh.distinct_tests)));
                }
                let omitted = match f {
                    't' => Some("n_false"),
                    'f' => Some("n_true"),
                    _ => None,
                };
                if let Some(o) = omitted {
                    if labels.contains_key(o) {
                        return Err(v(format!("-d -f {} still declares {}", flag, o)));
                    }
                }
                let missing = match f {
                    't' => Some(false),
                    'f' => Some(true),
                    _ => None,
                };
                let root: String = if r.is_true() {
                    "n_true".into()
                } else if r.is_false() {
                    "n_false".into()
                } else {
                    let rs: Vec<&str> = g.roots().into_iter().filter(|x| *x != "n_true" && *x != "n_false").collect();
                    if rs.len() != 1 {
                        return Err(v(format!("-d file has {} roots", rs.len())));
                    }
                    rs[0].to_string()
                };
                if !(r.is_const() && omitted.is_some()) {
                    for idx in 0..reference_table.len() {
                        let got = eval_graph(&g, &labels, &root, &idents, idx, missing).map_err(|e| v(format!("-d file: {}", e)))?;
                        if got != reference_table.get(idx) {
                            return Err(v(format!("-d file (filter {}) evaluates to {} under {:#b}", f, got, idx)));
                        }
                    }
                }
            }
        }
        Ok(())
    })
}

pub fn run(ctx: &mut Ctx) -> Result<(), Violation> {
    ctx.rule = "cases = diagrams and syntax trees. Diagrams: every function of <= 3 (thorough 4) variables under two id maps, random functions of <= 8 variables, NamedSymbol diagrams of generated formulas (names a', e-acute, x_1) and String-symbol diagrams whose names need escaping (backslash, quote, tab, newline, braces, brackets, `\"];`), each exported with filters Any/True/False and read back with a minimal DOT reader. \
                Oracle: each id declared once, every edge endpoint declared, no duplicate edge, Any: every test node has exactly one T and one F edge, one root, #test nodes == #structurally distinct sub-diagrams, evaluating the read-back graph under every assignment (by label) gives the source table; True/False: exactly the Any export minus the opposite leaf and minus the edges into it. \
                Syntax trees: generated formulas with every node kind incl. references and repeated sub-terms; the DOT is read back into a term from its single root following L/R, \"\", {i}, L{i}/R{i}, If/Then/Else edges and must equal the reference parser's tree, with one node per distinct sub-term. CLI: rsbdd -d F -p F (-f t|f) files under the same oracles. \
                Non-trivial = diagram with >= 2 test nodes, or tree with a repeated sub-term or >= 5 nodes; distinct by table+ids / canonical text."
        .to_string();

    let maxk = ctx.tier.pick(3usize, 4usize);
    for k in 0..=maxk {
        let maps: Vec<Vec<usize>> = match k {
            0 => vec![vec![]],
            1 => vec![vec![0], vec![7]],
            2 => vec![vec![0, 1], vec![3, 12]],
            3 => vec![vec![0, 1, 2], vec![2, 5, 9]],
            _ => vec![vec![0, 1, 2, 3], vec![1, 4, 6, 11]],
        };
        let nf = 1u64 << (1u64 << k);
        let r = par_exhaustive(ctx, nf * maps.len() as u64, |i, st| {
            let f = Fun::new(TT::from_bits(k, i % nf), maps[(i / nf) as usize].clone());
            st.evals(3);
            st.class("diagram-exports(3 filters)");
            if f.tt.support().len() >= 2 {
                if st.nontrivial(f.fingerprint()) {
                    st.nt_sample(|| json!({"kind": "bdd", "f": f.to_json()}));
                }
            } else if st.want_sample() {
                st.sample(json!({"kind": "bdd", "f": f.to_json()}));
            }
            check_fun(&f)
        });
        ctx.stage(&format!("diagrams-all-functions-k{}", k), true, r)?;
    }
    let cases = ctx.tier.pick(20_000, 300_000);
    let r = par_random(ctx, "random-diagrams", cases, 60, |tape, st| {
        let mut t = Tape::new(tape);
        let f = gen_fun(&mut t, 8, 14);
        st.evals(3);
        st.class("diagram-exports(3 filters)");
        if f.tt.support().len() >= 2 && st.nontrivial(f.fingerprint()) {
            st.nt_sample(|| json!({"kind": "bdd", "f": f.to_json()}));
        }
        check_fun(&f)
    });
    ctx.stage("diagrams-random-up-to-8-vars", false, r)?;

    // symbols with names that need escaping (API-level symbols are arbitrary Display values)
    let n_odd = ODD_NAMES.len() as u64;
    let r = par_exhaustive(ctx, n_odd * n_odd * 16, |i, st| {
        let a = ODD_NAMES[(i % n_odd) as usize].to_string();
        let b = ODD_NAMES[((i / n_odd) % n_odd) as usize].to_string();
        if a == b {
            return Ok(());
        }
        let tt = TT::from_bits(2, i / (n_odd * n_odd));
        st.evals(3);
        st.class("diagram-exports-with-names-needing-escaping");
        if tt.support().len() >= 2 && st.nontrivial(crate::util::mix(i, 14)) {
            st.nt_sample(|| json!({"kind": "named", "tt": tt.to_hex(), "names": [a.clone(), b.clone()]}));
        }
        check_named(&tt, &[a, b])
    });
    ctx.stage("diagrams-with-names-needing-escaping", true, r)?;

    let cases = ctx.tier.pick(30_000, 400_000);
    let cli_every = ctx.tier.pick(60u64, 100u64);
    let r = par_random(ctx, "formulas", cases, 300, |tape, st| {
        let mut t = Tape::new(tape);
        let mut cfg = Cfg::standard(2 + t.choose(5), 1 + t.choose(5));
        cfg.names = ["a'", "b", "\u{e9}", "x_1", "a", "'q", "Z9"].iter().take(cfg.names.len()).map(|s| s.to_string()).collect();
        cfg.allow_ref = true;
        cfg.max_list = 4;
        let mut ast = gen::formula(&mut t, &cfg);
        if t.chance(90) {
            // force a repeated sub-term
            ast = RAst::bin(crate::rast::BINOPS[t.choose(8)], ast.clone(), RAst::bin(BinOp::Or, ast, RAst::var("b")));
        }
        let text = if t.flag() { rprint::decorated(&ast, &mut t) } else { rprint::plain(&ast) };
        crate::props::c01::self_check(&ast, &text)?;
        st.eval();
        let mut subs = HashSet::new();
        distinct_subterms(&ast, &mut subs);
        let repeated = subs.len() < ast.size();
        if repeated {
            st.class("tree-with-repeated-sub-term");
        }
        let mut kinds = BTreeSet::new();
        ast.kinds(&mut kinds);
        for k in kinds {
            st.class(&format!("tree-node:{}", k));
        }
        let via_cli = fnv_str(&text) % cli_every == 0;
        if via_cli {
            st.class("also-rsbdd -d -p files");
        }
        if repeated || subs.len() >= 5 {
            if st.nontrivial(fnv_str(&rprint::plain(&ast))) {
                st.nt_sample(|| json!({"kind": "formula", "text": text}));
            }
        } else if st.want_sample() {
            st.sample(json!({"kind": "formula", "text": text}));
        }
        check_formula(&text, via_cli)
    });
    ctx.stage("formulas-parse-tree-and-named-diagram", false, r)?;
    Ok(())
}

pub fn replay(case: &Value) -> Check {
    match case["kind"].as_str() {
        Some("bdd") => match Fun::from_json(&case["f"]) {
            Some(f) => check_fun(&f),
            None => Err(Violation::new("unreadable replay case", case.clone())),
        },
        Some("named") => {
            let names: Option<Vec<String>> = case["names"].as_array().map(|a| a.iter().filter_map(|x| x.as_str().map(|s| s.to_string())).collect());
            match (TT::from_hex(case["tt"].as_str().unwrap_or("")), names) {
                (Some(tt), Some(n)) if n.len() == tt.k => check_named(&tt, &n),
                _ => Err(Violation::new("unreadable replay case", case.clone())),
            }
        }
        Some("formula") => match case["text"].as_str() {
            Some(t) => check_formula(t, case["cli"].as_bool().unwrap_or(false)),
            None => Err(Violation::new("unreadable replay case", case.clone())),
        },
        _ => Err(Violation::new("unreadable replay case", case.clone())),
    }
}
