//! C14 — Graphviz exports denote the same diagram / syntax tree they were made from.

use crate::cli;
use crate::dot::{self, Graph};
use crate::engine::*;
use crate::front::{self, Run};
use crate::fun::{gen_fun, Fun};
use crate::gen::{self, Cfg};
use crate::plain;
use crate::rast::{BinOp, CntOp, RAst};
use crate::rlex;
use crate::rparse;
use crate::rprint;
use crate::rsem;
use crate::tt::TT;
use crate::util::{fnv_str, Tape};
use rsbdd::bdd::{BDDEnv, BDD};
use rsbdd::bdd_io::BDDGraph;
use rsbdd::parser_io::SymbolicParseTree;
use rsbdd::{BDDSymbol, TruthTableEntry};
use serde_json::{json, Value};
use std::collections::{BTreeSet, HashMap, HashSet};
use std::rc::Rc;
use std::time::Duration;

fn filt(c: char) -> TruthTableEntry {
    match c {
        't' => TruthTableEntry::True,
        'f' => TruthTableEntry::False,
        _ => TruthTableEntry::Any,
    }
}

fn render<S: BDDSymbol>(b: &Rc<BDD<S>>, f: char) -> Result<String, String> {
    let mut buf = Vec::new();
    BDDGraph::new(b, filt(f)).render_dot(&mut buf).map_err(|e| format!("render_dot failed: {}", e))?;
    String::from_utf8(buf).map_err(|_| "DOT output is not UTF-8".to_string())
}

/// Leaves of a read-back decision graph: nodes without outgoing edges labelled true / false
/// (node identifiers are an implementation detail and are not interpreted).
struct Leaves {
    t: Option<String>,
    f: Option<String>,
}

fn leaves(g: &Graph, labels: &HashMap<String, String>) -> Result<Leaves, String> {
    let mut l = Leaves { t: None, f: None };
    for (id, label) in &g.nodes {
        if g.out_edges(id).is_empty() {
            // the tool's own vocabulary for the two truth values (true/t/1, false/f/0)
            match cli::entry(label) {
                Some(cli::Cell::True) if l.t.is_none() => l.t = Some(id.clone()),
                Some(cli::Cell::False) if l.f.is_none() => l.f = Some(id.clone()),
                Some(cli::Cell::True) | Some(cli::Cell::False) => return Err(format!("two `{}` leaves are declared", label)),
                _ => return Err(format!("node {} labelled `{}` has no outgoing edge", id, label)),
            }
        }
    }
    let _ = labels;
    Ok(l)
}

/// Evaluate a read-back decision graph. `missing` = leaf value assumed for a missing edge
/// (filtered exports omit the opposite leaf and the edges into it).
fn eval_graph(
    g: &Graph,
    labels: &HashMap<String, String>,
    lv: &Leaves,
    root: &str,
    names: &[String],
    idx: usize,
    missing: Option<bool>,
) -> Result<bool, String> {
    let mut cur = root.to_string();
    for _ in 0..10_000 {
        if Some(&cur) == lv.t.as_ref() {
            return Ok(true);
        }
        if Some(&cur) == lv.f.as_ref() {
            return Ok(false);
        }
        let label = labels.get(&cur).ok_or_else(|| format!("undeclared node {}", cur))?;
        let p = names
            .iter()
            .position(|n| n == label)
            .ok_or_else(|| format!("node labelled `{}` is not a variable of the diagram", label))?;
        let want = if (idx >> p) & 1 == 1 { "T" } else { "F" };
        let wantc = if (idx >> p) & 1 == 1 { cli::Cell::True } else { cli::Cell::False };
        let outs: Vec<&str> = g.out_edges(&cur).into_iter().filter(|(l, _)| cli::entry(l) == Some(wantc.clone())).map(|(_, b)| b).collect();
        match outs.len() {
            1 => cur = outs[0].to_string(),
            0 => return missing.ok_or_else(|| format!("test node {} has no {} edge", cur, want)),
            _ => return Err(format!("test node {} has {} edges labelled {}", cur, outs.len(), want)),
        }
    }
    Err("cycle in the exported graph".into())
}

fn single_root(g: &Graph, lv: &Leaves) -> Result<String, String> {
    let r: Vec<&str> = g
        .roots()
        .into_iter()
        .filter(|r| Some(&r.to_string()) != lv.t.as_ref() && Some(&r.to_string()) != lv.f.as_ref())
        .collect();
    if r.len() != 1 {
        return Err(format!("expected one root among the test nodes, found {}", r.len()));
    }
    Ok(r[0].to_string())
}

/// Check the three exports of one diagram whose table over `names` (by label) is `tt`.
pub fn check_bdd_exports<S: BDDSymbol>(b: &Rc<BDD<S>>, names: &[String], tt: &TT) -> Result<(), String> {
    let any_text = render(b, 'a')?;
    let any = dot::parse(&any_text)?;
    let labels = any.well_formed()?;
    let lv = leaves(&any, &labels)?;
    let ntests = any.nodes.len() - usize::from(lv.t.is_some()) - usize::from(lv.f.is_some());
    let sh = plain::invariants(b);
    if ntests != sh.distinct_tests {
        return Err(format!(
            "export declares {} test nodes, the diagram has {} distinct sub-diagrams",
            ntests, sh.distinct_tests
        ));
    }
    for (id, _) in &any.nodes {
        if Some(id) == lv.t.as_ref() || Some(id) == lv.f.as_ref() {
            continue;
        }
        let outs = any.out_edges(id);
        let nt = outs.iter().filter(|(l, _)| cli::entry(l) == Some(cli::Cell::True)).count();
        let nf = outs.iter().filter(|(l, _)| cli::entry(l) == Some(cli::Cell::False)).count();
        if nt != 1 || nf != 1 || outs.len() != 2 {
            return Err(format!("test node {} has {} T and {} F edges ({} in total)", id, nt, nf, outs.len()));
        }
    }
    let mut dedup: HashSet<&(String, String, String)> = HashSet::new();
    for e in &any.edges {
        if !dedup.insert(e) {
            return Err(format!("edge {:?} is written twice", e));
        }
    }
    let root: String = if b.is_const() {
        if any.nodes.len() != 1 || !any.edges.is_empty() {
            return Err(format!("a leaf diagram exports {} nodes and {} edges", any.nodes.len(), any.edges.len()));
        }
        let want = if b.is_true() { &lv.t } else { &lv.f };
        want.clone().ok_or("a leaf diagram does not export its leaf")?
    } else {
        single_root(&any, &lv)?
    };
    for idx in 0..tt.len() {
        let got = eval_graph(&any, &labels, &lv, &root, names, idx, None)?;
        if got != tt.get(idx) {
            return Err(format!(
                "the exported graph evaluates to {} under assignment {:#b}, the diagram to {}",
                got,
                idx,
                tt.get(idx)
            ));
        }
    }
    // filtered exports: the unfiltered graph minus the opposite leaf and minus exactly the edges
    // into it (compared up to renaming of node identifiers)
    for (f, omitted_is_true) in [('t', false), ('f', true)] {
        let text = render(b, f)?;
        let g = dot::parse(&text)?;
        let gl = g.well_formed().map_err(|e| format!("filter {}: {}", f, e))?;
        let glv = leaves_filtered(&g)?;
        let omitted_any = if omitted_is_true { &lv.t } else { &lv.f };
        let (omitted_here, kept_here, kept_any) = if omitted_is_true {
            (&glv.t, &glv.f, &lv.f)
        } else {
            (&glv.f, &glv.t, &lv.t)
        };
        if omitted_here.is_some() {
            return Err(format!("filter {}: the {} leaf is still declared", f, if omitted_is_true { "true" } else { "false" }));
        }
        if kept_here.is_some() != kept_any.is_some() {
            return Err(format!("filter {}: the kept leaf is declared {} but {} in the unfiltered export", f, kept_here.is_some(), kept_any.is_some()));
        }
        let mut want_labels: Vec<&String> = any
            .nodes
            .iter()
            .filter(|(id, _)| Some(id) != lv.t.as_ref() && Some(id) != lv.f.as_ref())
            .map(|(_, l)| l)
            .collect();
        let mut got_labels: Vec<&String> = g
            .nodes
            .iter()
            .filter(|(id, _)| Some(id) != glv.t.as_ref() && Some(id) != glv.f.as_ref())
            .map(|(_, l)| l)
            .collect();
        want_labels.sort();
        got_labels.sort();
        if want_labels != got_labels {
            return Err(format!("filter {}: test nodes {:?} differ from the unfiltered export's {:?}", f, got_labels, want_labels));
        }
        let into_omitted = any.edges.iter().filter(|(_, _, t)| Some(t) == omitted_any.as_ref()).count();
        if g.edges.len() + into_omitted != any.edges.len() {
            return Err(format!(
                "filter {}: {} edges written, expected the unfiltered {} minus the {} edges into the omitted leaf",
                f,
                g.edges.len(),
                any.edges.len(),
                into_omitted
            ));
        }
        let mut dd: HashSet<&(String, String, String)> = HashSet::new();
        for e in &g.edges {
            if !dd.insert(e) {
                return Err(format!("filter {}: edge {:?} is written twice", f, e));
            }
        }
        if b.is_const() {
            continue;
        }
        let groot = single_root(&g, &glv)?;
        for idx in 0..tt.len() {
            let got = eval_graph(&g, &gl, &glv, &groot, names, idx, Some(omitted_is_true))?;
            if got != tt.get(idx) {
                return Err(format!(
                    "filter {}: reading a missing edge as the omitted leaf, the graph evaluates to {} under {:#b}, the diagram to {}",
                    f,
                    got,
                    idx,
                    tt.get(idx)
                ));
            }
        }
    }
    Ok(())
}

/// leaves of a filtered export: a node labelled true/false without outgoing edges AND
/// with the other test nodes keeping at least one edge
fn leaves_filtered(g: &Graph) -> Result<Leaves, String> {
    let mut l = Leaves { t: None, f: None };
    for (id, label) in &g.nodes {
        if g.out_edges(id).is_empty() {
            match cli::entry(label) {
                Some(cli::Cell::True) if l.t.is_none() => l.t = Some(id.clone()),
                Some(cli::Cell::False) if l.f.is_none() => l.f = Some(id.clone()),
                _ => return Err(format!("filtered export: node {} (`{}`) has no outgoing edge", id, label)),
            }
        }
    }
    Ok(l)
}

pub fn check_fun(f: &Fun) -> Check {
    let cj = json!({"kind": "bdd", "f": f.to_json()});
    guarded(&cj.clone(), || {
        let env: BDDEnv<usize> = BDDEnv::new();
        let h = f.intern(&env);
        let uni = f.ids_sorted();
        let names: Vec<String> = uni.iter().map(|i| i.to_string()).collect();
        check_bdd_exports(&h, &names, &f.over(&uni)).map_err(|e| Violation::new(e, cj.clone()))
    })
}

/// symbols whose printed names need escaping in DOT labels (library API: any `Display` symbol)
pub const ODD_NAMES: [&str; 14] = [
    "p\\q", "back\\", "say \"hi\"", "tab\there", "line\nbreak", "a b", "{x}", "<y>", "a|b", "semi;colon", "\u{e9}\u{20ac}", "]\"];", "[label=\"z", "'",
];

pub fn check_named(tt: &TT, names: &[String]) -> Check {
    let cj = json!({"kind": "named", "tt": tt.to_hex(), "names": names});
    guarded(&cj.clone(), || {
        let env: BDDEnv<String> = BDDEnv::new();
        let mut sorted: Vec<String> = names.to_vec();
        sorted.sort();
        sorted.dedup();
        if sorted.len() != names.len() {
            return Err(Violation::new("HARNESS: duplicate names", cj.clone()));
        }
        let h = plain::intern(&env, tt, names);
        check_bdd_exports(&h, names, tt).map_err(|e| Violation::new(e, cj.clone()))
    })
}

// ------------------------------------------------------------------ parse trees

fn binop_label(op: BinOp) -> &'static str {
    match op {
        BinOp::And => "And",
        BinOp::Or => "Or",
        BinOp::Xor => "Xor",
        BinOp::Nor => "Nor",
        BinOp::Nand => "Nand",
        BinOp::Implies => "Implies",
        BinOp::ImpliesInv => "ImpliesInv",
        BinOp::Iff => "Iff",
    }
}

fn cnt_label(op: CntOp) -> &'static str {
    match op {
        CntOp::AtMost => "AtMost",
        CntOp::LessThan => "LessThan",
        CntOp::AtLeast => "AtLeast",
        CntOp::MoreThan => "MoreThan",
        CntOp::Exactly => "Exactly",
    }
}

fn parse_binop(s: &str) -> Option<BinOp> {
    crate::rast::BINOPS.iter().copied().find(|o| binop_label(*o) == s)
}
fn parse_cnt(s: &str) -> Option<CntOp> {
    crate::rast::CNTOPS.iter().copied().find(|o| cnt_label(*o) == s)
}

fn child<'a>(g: &'a Graph, id: &str, label: &str) -> Result<&'a str, String> {
    let v: Vec<&str> = g.out_edges(id).into_iter().filter(|(l, _)| *l == label).map(|(_, b)| b).collect();
    if v.len() == 1 {
        Ok(v[0])
    } else {
        Err(format!("node {} has {} edges labelled {:?}", id, v.len(), label))
    }
}

fn indexed<'a>(g: &'a Graph, id: &str, prefix: &str) -> Result<Vec<&'a str>, String> {
    let mut found: Vec<(usize, &str)> = Vec::new();
    for (l, b) in g.out_edges(id) {
        if let Some(rest) = l.strip_prefix(prefix) {
            if let Some(num) = rest.strip_prefix('{').and_then(|r| r.strip_suffix('}')) {
                if let Ok(i) = num.parse::<usize>() {
                    found.push((i, b));
                }
            }
        }
    }
    found.sort();
    for (k, (i, _)) in found.iter().enumerate() {
        if *i != k {
            return Err(format!("node {}: operand edges {}{{..}} are not 0..n", id, prefix));
        }
    }
    Ok(found.into_iter().map(|x| x.1).collect())
}

fn rebuild(g: &Graph, labels: &HashMap<String, String>, id: &str, depth: usize) -> Result<RAst, String> {
    if depth > 5000 {
        return Err("cycle in the exported parse tree".into());
    }
    let label = labels.get(id).ok_or_else(|| format!("undeclared node {}", id))?;
    let outs = g.out_edges(id);
    let expect_out = |n: usize| -> Result<(), String> {
        if outs.len() == n {
            Ok(())
        } else {
            Err(format!("node {} ({}) has {} outgoing edges, expected {}", id, label, outs.len(), n))
        }
    };
    if label == "True" {
        expect_out(0)?;
        return Ok(RAst::True);
    }
    if label == "False" {
        expect_out(0)?;
        return Ok(RAst::False);
    }
    if label == "Not" {
        expect_out(1)?;
        return Ok(RAst::not(rebuild(g, labels, child(g, id, "")?, depth + 1)?));
    }
    if label == "Ite" {
        expect_out(3)?;
        return Ok(RAst::Ite(
            Box::new(rebuild(g, labels, child(g, id, "If")?, depth + 1)?),
            Box::new(rebuild(g, labels, child(g, id, "Then")?, depth + 1)?),
            Box::new(rebuild(g, labels, child(g, id, "Else")?, depth + 1)?),
        ));
    }
    if let Some(n) = label.strip_prefix("Var ") {
        expect_out(0)?;
        return Ok(RAst::Var(n.to_string()));
    }
    if let Some(n) = label.strip_prefix("Ref ") {
        expect_out(0)?;
        return Ok(RAst::Ref(n.to_string()));
    }
    for (pre, g_) in [("GFP ", true), ("LFP ", false)] {
        if let Some(n) = label.strip_prefix(pre) {
            expect_out(1)?;
            return Ok(RAst::Fix(n.to_string(), g_, Box::new(rebuild(g, labels, child(g, id, "")?, depth + 1)?)));
        }
    }
    for (pre, ex) in [("Exists [", true), ("Forall [", false)] {
        if let Some(rest) = label.strip_prefix(pre) {
            let inner = rest.strip_suffix(']').ok_or("quantifier label without ]")?;
            let names: Vec<String> = if inner.is_empty() {
                vec![]
            } else {
                inner.split(", ").map(|s| s.to_string()).collect()
            };
            expect_out(1)?;
            return Ok(RAst::Quant(ex, names, Box::new(rebuild(g, labels, child(g, id, "")?, depth + 1)?)));
        }
    }
    if let Some(op) = parse_binop(label) {
        expect_out(2)?;
        return Ok(RAst::bin(
            op,
            rebuild(g, labels, child(g, id, "L")?, depth + 1)?,
            rebuild(g, labels, child(g, id, "R")?, depth + 1)?,
        ));
    }
    if let Some(op) = parse_cnt(label) {
        let l = indexed(g, id, "L")?;
        let r = indexed(g, id, "R")?;
        expect_out(l.len() + r.len())?;
        return Ok(RAst::CountList(
            op,
            l.iter().map(|c| rebuild(g, labels, c, depth + 1)).collect::<Result<_, _>>()?,
            r.iter().map(|c| rebuild(g, labels, c, depth + 1)).collect::<Result<_, _>>()?,
        ));
    }
    if let Some((a, b)) = label.split_once(' ') {
        if let (Some(op), Ok(n)) = (parse_cnt(a), b.parse::<u64>()) {
            let l = indexed(g, id, "")?;
            expect_out(l.len())?;
            return Ok(RAst::CountConst(
                op,
                l.iter().map(|c| rebuild(g, labels, c, depth + 1)).collect::<Result<_, _>>()?,
                n,
            ));
        }
    }
    Err(format!("node {} has an unknown label {:?}", id, label))
}

fn distinct_subterms(a: &RAst, out: &mut HashSet<RAst>) {
    out.insert(a.clone());
    for c in a.children() {
        distinct_subterms(c, out);
    }
}

/// The construct a node stands for, without its operands: what a label has to identify.
fn signature(a: &RAst) -> String {
    match a {
        RAst::True => "true".into(),
        RAst::False => "false".into(),
        RAst::Var(n) => format!("var:{}", n),
        RAst::Ref(n) => format!("ref:{}", n),
        RAst::Not(_) => "not".into(),
        RAst::Quant(ex, names, _) => format!("quant:{}:{}", ex, names.join(",")),
        RAst::CountConst(op, _, n) => format!("cc:{:?}:{}", op, n),
        RAst::CountList(op, ..) => format!("cl:{:?}", op),
        RAst::Fix(n, g, _) => format!("fix:{}:{}", g, n),
        RAst::Ite(..) => "ite".into(),
        RAst::Bin(op, ..) => format!("bin:{:?}", op),
    }
}

/// spellings by which a label may mention its construct: the Debug names of the current export
/// and the aliases of the formula language (README)
fn spellings(a: &RAst) -> Vec<&'static str> {
    match a {
        RAst::True => vec!["true"],
        RAst::False => vec!["false"],
        RAst::Var(_) | RAst::Ref(_) => vec![],
        RAst::Not(_) => vec!["not", "!", "-", "\u{ac}"],
        RAst::Quant(true, ..) => vec!["exists", "any", "\u{2203}"],
        RAst::Quant(false, ..) => vec!["forall", "all", "\u{2200}"],
        RAst::CountConst(op, ..) | RAst::CountList(op, ..) => match op {
            CntOp::AtMost => vec!["atmost", "<=", "\u{2264}"],
            CntOp::LessThan => vec!["lessthan", "<"],
            CntOp::AtLeast => vec!["atleast", ">=", "\u{2265}"],
            CntOp::MoreThan => vec!["morethan", ">"],
            CntOp::Exactly => vec!["exactly", "="],
        },
        RAst::Fix(_, true, _) => vec!["gfp", "nu", "\u{3bd}"],
        RAst::Fix(_, false, _) => vec!["lfp", "mu", "\u{3bc}"],
        RAst::Ite(..) => vec!["ite", "if"],
        RAst::Bin(op, ..) => match op {
            BinOp::And => vec!["and", "&", "*", "\u{2227}"],
            BinOp::Or => vec!["or", "|", "+", "\u{2228}"],
            BinOp::Xor => vec!["xor", "^", "\u{2295}"],
            BinOp::Nor => vec!["nor"],
            BinOp::Nand => vec!["nand"],
            BinOp::Implies => vec!["implies", "=>", "in", "\u{2192}", "\u{21d2}"],
            BinOp::ImpliesInv => vec!["impliesinv", "<=", "\u{2190}", "\u{21d0}"],
            BinOp::Iff => vec!["iff", "<=>", "eq", "\u{2194}", "\u{21d4}"],
        },
    }
}

thread_local! {
    /// label <-> construct seen so far on this worker (an unknown vocabulary must be used consistently)
    static VOCAB: std::cell::RefCell<(HashMap<String, String>, HashMap<String, String>)> = std::cell::RefCell::new((HashMap::new(), HashMap::new()));
}

/// Vocabulary-independent reading of an exported parse tree: walk the export and the reference
/// term together. The shape (operand edges by their position labels), the sharing and the payload
/// (names, numbers) must agree; the labels themselves are free as long as label <-> construct is
/// one-to-one and each label mentions a spelling of its construct.
fn structural_match(
    g: &Graph,
    labels: &HashMap<String, String>,
    id: &str,
    a: &RAst,
    seen: &mut HashMap<String, RAst>,
    depth: usize,
) -> Result<(), String> {
    if depth > 5000 {
        return Err("cycle in the exported parse tree".into());
    }
    if let Some(prev) = seen.get(id) {
        return if prev == a {
            Ok(())
        } else {
            Err(format!("node {} stands for two different sub-terms", id))
        };
    }
    seen.insert(id.to_string(), a.clone());
    let label = labels.get(id).ok_or_else(|| format!("undeclared node {}", id))?;
    let sig = signature(a);
    let conflict = VOCAB.with(|v| {
        let mut v = v.borrow_mut();
        if let Some(s) = v.0.get(label) {
            if *s != sig {
                return Some(format!("label {:?} is used for two different constructs ({} and {})", label, s, sig));
            }
        }
        if let Some(l) = v.1.get(&sig) {
            if l != label {
                return Some(format!("construct {} is labelled {:?} here and {:?} elsewhere", sig, label, l));
            }
        }
        v.0.insert(label.clone(), sig.clone());
        v.1.insert(sig.clone(), label.clone());
        None
    });
    if let Some(c) = conflict {
        return Err(c);
    }
    let low = label.to_lowercase();
    let sp = spellings(a);
    if !sp.is_empty() && !sp.iter().any(|x| low.contains(x)) {
        return Err(format!("label {:?} does not mention its construct ({})", label, sig));
    }
    let payload: Vec<String> = match a {
        RAst::Var(n) | RAst::Ref(n) | RAst::Fix(n, ..) => vec![n.clone()],
        RAst::Quant(_, names, _) => names.clone(),
        RAst::CountConst(_, _, n) => vec![n.to_string()],
        _ => vec![],
    };
    for x in &payload {
        if !label.contains(x.as_str()) {
            return Err(format!("label {:?} does not carry {:?}", label, x));
        }
    }
    let outs = g.out_edges(id);
    let expect_out = |n: usize| -> Result<(), String> {
        if outs.len() == n {
            Ok(())
        } else {
            Err(format!("node {} ({}) has {} outgoing edges, expected {}", id, label, outs.len(), n))
        }
    };
    match a {
        RAst::True | RAst::False | RAst::Var(_) | RAst::Ref(_) => expect_out(0),
        RAst::Not(b) | RAst::Quant(_, _, b) | RAst::Fix(_, _, b) => {
            expect_out(1)?;
            structural_match(g, labels, outs[0].1, b, seen, depth + 1)
        }
        RAst::Ite(c, t, e) => {
            expect_out(3)?;
            structural_match(g, labels, child(g, id, "If")?, c, seen, depth + 1)?;
            structural_match(g, labels, child(g, id, "Then")?, t, seen, depth + 1)?;
            structural_match(g, labels, child(g, id, "Else")?, e, seen, depth + 1)
        }
        RAst::Bin(_, l, r) => {
            expect_out(2)?;
            structural_match(g, labels, child(g, id, "L")?, l, seen, depth + 1)?;
            structural_match(g, labels, child(g, id, "R")?, r, seen, depth + 1)
        }
        RAst::CountConst(_, l, _) => {
            let e = indexed(g, id, "")?;
            expect_out(e.len())?;
            if e.len() != l.len() {
                return Err(format!("node {} has {} operands, the term has {}", id, e.len(), l.len()));
            }
            for (c, t) in e.iter().zip(l.iter()) {
                structural_match(g, labels, c, t, seen, depth + 1)?;
            }
            Ok(())
        }
        RAst::CountList(_, l, r) => {
            let el = indexed(g, id, "L")?;
            let er = indexed(g, id, "R")?;
            expect_out(el.len() + er.len())?;
            if el.len() != l.len() || er.len() != r.len() {
                return Err(format!("node {} has {}+{} operands, the term has {}+{}", id, el.len(), er.len(), l.len(), r.len()));
            }
            for (c, t) in el.iter().zip(l.iter()).chain(er.iter().zip(r.iter())) {
                structural_match(g, labels, c, t, seen, depth + 1)?;
            }
            Ok(())
        }
    }
}

pub fn check_tree_dot(dot_text: &str, reference: &RAst) -> Result<(), String> {
    let g = dot::parse(dot_text)?;
    let labels = g.well_formed()?;
    let roots = g.roots();
    if roots.len() != 1 {
        return Err(format!("expected exactly one root, found {}", roots.len()));
    }
    let term = match rebuild(&g, &labels, roots[0], 0) {
        Ok(t) => t,
        Err(e) if e.contains("unknown label") => {
            // not the vocabulary of the current export: judge the tree without interpreting labels
            let mut seen = HashMap::new();
            structural_match(&g, &labels, roots[0], reference, &mut seen, 0)
                .map_err(|m| format!("{} (labels are not the known vocabulary - {} - and were judged structurally)", m, e))?;
            reference.clone()
        }
        Err(e) => return Err(e),
    };
    if &term != reference {
        return Err(format!(
            "the exported parse tree reads back as `{}` but the parsed formula is `{}`",
            rprint::plain(&term),
            rprint::plain(reference)
        ));
    }
    let mut subs = HashSet::new();
    distinct_subterms(reference, &mut subs);
    // identical sub-terms MAY be one shared node (the export is read back "as a term with shared
    // identical sub-terms"); whether they are shared is not prescribed. Every declared node is part of
    // the term (one root, checked above), so only the count can be off.
    if g.nodes.len() < subs.len() || g.nodes.len() > reference.size() {
        return Err(format!(
            "{} nodes declared but the tree has {} distinct sub-terms and {} sub-term occurrences",
            g.nodes.len(),
            subs.len(),
            reference.size()
        ));
    }
    Ok(())
}

pub fn check_formula(text: &str, via_cli: bool) -> Check {
    let cj = json!({"kind": "formula", "text": text, "cli": via_cli});
    let v = |m: String| Violation::new(m, cj.clone());
    let parsed = rparse::parse_text(text.as_bytes()).map_err(|e| v(format!("HARNESS: reference parser: {}", e)))?;
    let idents = rlex::identifiers(&parsed.tokens);
    guarded(&cj.clone(), || {
        let limit = (1usize << std::cmp::min(idents.len(), 12)) + 2;
        let (r, pf) = match front::run_text(text.as_bytes(), None, Some(limit)) {
            Run::Ok(r, pf) => (r, pf),
            Run::ParseErr(e) => return Err(front::rejection(text, "well-formed formula", &e, &cj)),
            Run::ParsePanic(p) => return Err(v(format!("parser panicked: {}", p))),
            Run::EvalPanic(p, _) => return Err(v(format!("evaluation panicked: {}", p))),
        };
        let mut buf = Vec::new();
        SymbolicParseTree::new(&pf.bdd)
            .render_dot(&mut buf)
            .map_err(|e| v(format!("parse-tree render_dot failed: {}", e)))?;
        let tree_text = String::from_utf8(buf).map_err(|_| v("parse-tree DOT is not UTF-8".into()))?;
        check_tree_dot(&tree_text, &parsed.ast).map_err(|e| v(format!("parse tree: {}", e)))?;
        // the diagram, labelled by name
        let table = front::table_by_name(&r, &idents).map_err(|e| v(e))?;
        check_bdd_exports(&r, &idents, &table).map_err(|e| v(format!("diagram: {}", e)))?;
        if via_cli && !text.contains('\0') {
            let reference_table = rsem::table(&parsed.ast, &idents).map_err(|e| v(format!("HARNESS: {:?}", e)))?;
            let scratch = cli::Scratch::new();
            for (flag, f) in [("", 'a'), ("t", 't'), ("f", 'f')] {
                let dpath = scratch.stale(&cli::Scratch::awkward(&format!("d{}.dot", f)));
                let ppath = scratch.stale(&cli::Scratch::awkward(&format!("p{}.dot", f)));
                let mut args = vec![
                    format!("--evaluate={}", text),
                    "-d".to_string(),
                    dpath.to_string_lossy().into_owned(),
                    "-p".to_string(),
                    ppath.to_string_lossy().into_owned(),
                ];
                if !flag.is_empty() {
                    args.push("-f".into());
                    args.push(flag.into());
                }
                let out = cli::run(&cli::bin("rsbdd"), &args, None, Duration::from_secs(60));
                if !out.ok() {
                    return Err(v(format!("rsbdd -d -p failed: {}", out.describe())));
                }
                let d = std::fs::read_to_string(&dpath).map_err(|e| v(format!("-d file: {}", e)))?;
                let p = std::fs::read_to_string(&ppath).map_err(|e| v(format!("-p file: {}", e)))?;
                check_tree_dot(&p, &parsed.ast).map_err(|e| v(format!("-p file: {}", e)))?;
                // the -d file under filter f: same rules as the API export
                let g = dot::parse(&d).map_err(|e| v(format!("-d file: {}", e)))?;
                let labels = g.well_formed().map_err(|e| v(format!("-d file: {}", e)))?;
                let glv = if f == 'a' { leaves(&g, &labels) } else { leaves_filtered(&g) }.map_err(|e| v(format!("-d file: {}", e)))?;
                // "each distinct node exactly once", judged on the file itself (which variable order the
                // solver uses without an ordering file is its own choice, so the in-process diagram is
                // not the yardstick): no two declared test nodes with the same label and the same children
                let mut triples: HashSet<(String, Vec<(String, String)>)> = HashSet::new();
                for (id, label) in &g.nodes {
                    if Some(id) == glv.t.as_ref() || Some(id) == glv.f.as_ref() {
                        continue;
                    }
                    let mut outs: Vec<(String, String)> = g.out_edges(id).into_iter().map(|(l, b)| (l.to_string(), b.to_string())).collect();
                    outs.sort();
                    if !triples.insert((label.clone(), outs)) {
                        return Err(v(format!("-d file declares two test nodes `{}` with the same children", label)));
                    }
                }

                if (f == 't' && glv.f.is_some()) || (f == 'f' && glv.t.is_some()) {
                    return Err(v(format!("-d -f {} still declares the opposite leaf", flag)));
                }
                let missing = match f {
                    't' => Some(false),
                    'f' => Some(true),
                    _ => None,
                };
                if !r.is_const() {
                    let root = single_root(&g, &glv).map_err(|e| v(format!("-d file: {}", e)))?;
                    for idx in 0..reference_table.len() {
                        let got = eval_graph(&g, &labels, &glv, &root, &idents, idx, missing).map_err(|e| v(format!("-d file: {}", e)))?;
                        if got != reference_table.get(idx) {
                            return Err(v(format!("-d file (filter {}) evaluates to {} under {:#b}", f, got, idx)));
                        }
                    }
                }
            }
        }
        Ok(())
    })
}

/// The same pieces put together slightly differently: a list split at another point, operands in another
/// order, the other quantifier / fixed-point kind, a neighbouring constant or comparison.
pub fn near_copy(a: &RAst, t: &mut Tape) -> RAst {
    use crate::rast::CNTOPS;
    match a {
        RAst::CountList(op, l, r) => {
            let mut l2 = l.clone();
            let mut r2 = r.clone();
            match t.choose(3) {
                0 if l2.len() > 1 => {
                    let x = l2.pop().unwrap();
                    r2.insert(0, x);
                }
                0 | 1 if r2.len() > 1 => {
                    let x = r2.remove(0);
                    l2.push(x);
                }
                1 if l2.len() > 1 => {
                    let x = l2.pop().unwrap();
                    r2.insert(0, x);
                }
                _ => return RAst::CountList(CNTOPS[t.choose(5)], l2, r2),
            }
            RAst::CountList(*op, l2, r2)
        }
        RAst::CountConst(op, l, n) => match t.choose(3) {
            0 => RAst::CountConst(*op, l.clone(), if *n == u64::MAX { *n - 1 } else { *n + 1 }),
            1 => RAst::CountConst(CNTOPS[t.choose(5)], l.clone(), *n),
            _ => {
                let mut l2 = l.clone();
                l2.reverse();
                RAst::CountConst(*op, l2, *n)
            }
        },
        RAst::Quant(ex, ns, b) => {
            if t.flag() {
                RAst::Quant(!*ex, ns.clone(), b.clone())
            } else {
                let mut n2 = ns.clone();
                n2.reverse();
                RAst::Quant(*ex, n2, Box::new(near_copy(b, t)))
            }
        }
        RAst::Fix(n, g, b) => RAst::Fix(n.clone(), !*g, b.clone()),
        RAst::Not(b) => RAst::not(near_copy(b, t)),
        RAst::Bin(op, x, y) => match t.choose(3) {
            0 => RAst::bin(*op, (**y).clone(), (**x).clone()),
            1 => RAst::bin(*op, near_copy(x, t), (**y).clone()),
            _ => RAst::bin(*op, (**x).clone(), near_copy(y, t)),
        },
        RAst::Ite(c, x, y) => RAst::Ite(c.clone(), y.clone(), x.clone()),
        RAst::Var(n) => RAst::var(if n == "b" { "a" } else { "b" }),
        other => other.clone(),
    }
}

/// The parse-tree export alone (no evaluation): for texts whose evaluation would be expensive.
pub fn check_tree_only(text: &str) -> Check {
    let cj = json!({"kind": "tree-only", "text": text});
    let v = |m: String| Violation::new(m, cj.clone());
    let parsed = rparse::parse_text(text.as_bytes()).map_err(|e| v(format!("HARNESS: reference parser: {}", e)))?;
    guarded(&cj.clone(), || {
        let pf = match crate::util::catch(|| front::parse(text.as_bytes(), None)) {
            Ok(Ok(pf)) => pf,
            Ok(Err(e)) => return Err(front::rejection(text, "well-formed formula", &e, &cj)),
            Err(p) => return Err(v(format!("parser panicked: {}", p))),
        };
        let mut buf = Vec::new();
        SymbolicParseTree::new(&pf.bdd)
            .render_dot(&mut buf)
            .map_err(|e| v(format!("parse-tree render_dot failed: {}", e)))?;
        let tree_text = String::from_utf8(buf).map_err(|_| v("parse-tree DOT is not UTF-8".into()))?;
        check_tree_dot(&tree_text, &parsed.ast).map_err(|e| v(format!("parse tree: {}", e)))
    })
}

/// texts with very long lists / chains (list positions beyond 255, 256, 65535 are labels too)
pub fn long_tree_text(n: usize, shape: usize) -> String {
    let x: Vec<String> = (0..n).map(|i| format!("x{}", i)).collect();
    let y: Vec<String> = (0..n + 3).map(|i| if i % 5 == 0 { format!("-y{}", i) } else { format!("y{}", i) }).collect();
    match shape % 6 {
        0 => format!("[{}] >= 1", x.join(", ")),
        1 => format!("[{}] <= [{}]", x.join(", "), y.join(", ")),
        2 => format!("[a, b] = [{}]", y.join(", ")),
        3 => format!("exists {} # x0 & x{}", x.join(", "), n - 1),
        4 => format!("forall {} # [{}] > {}", x[..n / 2].join(", "), x.join(", "), n),
        _ => format!("[{}, {}] < {}", x.join(", "), x.join(", "), n),
    }
}

pub fn run(ctx: &mut Ctx) -> Result<(), Violation> {
    ctx.rule = "cases = diagrams and syntax trees. Diagrams: every function of <= 3 (thorough 4) variables under two id maps, random functions of <= 8 variables, NamedSymbol diagrams of generated formulas (names a', e-acute, x_1) and String-symbol diagrams whose names need escaping (backslash, quote, tab, newline, braces, brackets, `\"];`), each exported with filters Any/True/False and read back with a minimal DOT reader. \
                Oracle: each id declared once, every edge endpoint declared, no duplicate edge, Any: every test node has exactly one T and one F edge, one root, #test nodes == #structurally distinct sub-diagrams, evaluating the read-back graph under every assignment (by label) gives the source table; True/False: exactly the Any export minus the opposite leaf and minus the edges into it. \
                Syntax trees: generated formulas with every node kind incl. references and repeated sub-terms; the DOT is read back into a term from its single root following L/R, \"\", {i}, L{i}/R{i}, If/Then/Else edges and must equal the reference parser's tree, with one node per distinct sub-term. CLI: rsbdd -d F -p F (-f t|f) files under the same oracles. \
                Non-trivial = diagram with >= 2 test nodes, or tree with a repeated sub-term or >= 5 nodes; distinct by table+ids / canonical text."
        .to_string();

    let maxk = ctx.tier.pick(3usize, 4usize);
    for k in 0..=maxk {
        let maps: Vec<Vec<usize>> = match k {
            0 => vec![vec![]],
            1 => vec![vec![0], vec![7]],
            2 => vec![vec![0, 1], vec![3, 12]],
            3 => vec![vec![0, 1, 2], vec![2, 5, 9]],
            _ => vec![vec![0, 1, 2, 3], vec![1, 4, 6, 11]],
        };
        let nf = 1u64 << (1u64 << k);
        let r = par_exhaustive(ctx, nf * maps.len() as u64, |i, st| {
            let f = Fun::new(TT::from_bits(k, i % nf), maps[(i / nf) as usize].clone());
            st.evals(3);
            st.class("diagram-exports(3 filters)");
            if f.tt.support().len() >= 2 {
                if st.nontrivial(f.fingerprint()) {
                    st.nt_sample(|| json!({"kind": "bdd", "f": f.to_json()}));
                }
            } else if st.want_sample() {
                st.sample(json!({"kind": "bdd", "f": f.to_json()}));
            }
            // every diagram once as nodes of the environment; a third of them also as plain values
            // (separately allocated equal sub-diagrams, what `BDD::<usize>::from(named)` yields) and
            // as nodes of another environment
            check_fun(&f)?;
            match i % 3 {
                0 => {
                    st.class("operands:plain");
                    crate::fun::with_operands(crate::fun::Operands::Plain, || check_fun(&f))
                }
                1 => {
                    st.class("operands:other-env");
                    crate::fun::with_operands(crate::fun::Operands::OtherEnv, || check_fun(&f))
                }
                _ => Ok(()),
            }
        });
        ctx.stage(&format!("diagrams-all-functions-k{}", k), true, r)?;
    }
    let cases = ctx.tier.cases(20_000, 2_000_000);
    let r = par_random(ctx, "random-diagrams", cases, 60, |tape, st| {
        let mut t = Tape::new(tape);
        let f = gen_fun(&mut t, 8, 14);
        st.evals(3);
        st.class("diagram-exports(3 filters)");
        if f.tt.support().len() >= 2 && st.nontrivial(f.fingerprint()) {
            st.nt_sample(|| json!({"kind": "bdd", "f": f.to_json()}));
        }
        let mode = crate::fun::gen_operands(&mut t);
        st.class(&format!("operands:{}", mode.name()));
        crate::fun::with_operands(mode, || check_fun(&f))
    });
    ctx.stage("diagrams-random-up-to-8-vars", false, r)?;

    // symbols with names that need escaping (API-level symbols are arbitrary Display values)
    let n_odd = ODD_NAMES.len() as u64;
    let r = par_exhaustive(ctx, n_odd * n_odd * 16, |i, st| {
        let a = ODD_NAMES[(i % n_odd) as usize].to_string();
        let b = ODD_NAMES[((i / n_odd) % n_odd) as usize].to_string();
        if a == b {
            return Ok(());
        }
        let tt = TT::from_bits(2, i / (n_odd * n_odd));
        st.evals(3);
        st.class("diagram-exports-with-names-needing-escaping");
        if tt.support().len() >= 2 && st.nontrivial(crate::util::mix(i, 14)) {
            st.nt_sample(|| json!({"kind": "named", "tt": tt.to_hex(), "names": [a.clone(), b.clone()]}));
        }
        check_named(&tt, &[a, b])
    });
    ctx.stage("diagrams-with-names-needing-escaping", true, r)?;

    let cases = ctx.tier.cases(30_000, 2_000_000);
    let cli_every = ctx.tier.pick(60u64, 100u64);
    let r = par_random(ctx, "formulas", cases, 300, |tape, st| {
        let mut t = Tape::new(tape);
        let mut cfg = Cfg::standard(2 + t.choose(5), 1 + t.choose(5));
        cfg.names = ["a'", "b", "\u{e9}", "x_1", "a", "'q", "Z9"].iter().take(cfg.names.len()).map(|s| s.to_string()).collect();
        cfg.allow_ref = true;
        cfg.max_list = 4;
        let mut ast = gen::formula(&mut t, &cfg);
        if t.chance(70) {
            // a near copy next to the original: same pieces, split / ordered / bound differently
            let twin = near_copy(&ast, &mut t);
            ast = RAst::bin(crate::rast::BINOPS[t.choose(8)], ast, twin);
        }
        if t.chance(90) {
            // force a repeated sub-term
            ast = RAst::bin(crate::rast::BINOPS[t.choose(8)], ast.clone(), RAst::bin(BinOp::Or, ast, RAst::var("b")));
        }
        let text = if t.flag() { rprint::decorated(&ast, &mut t) } else { rprint::plain(&ast) };
        crate::props::c01::self_check(&ast, &text)?;
        st.eval();
        let mut subs = HashSet::new();
        distinct_subterms(&ast, &mut subs);
        let repeated = subs.len() < ast.size();
        if repeated {
            st.class("tree-with-repeated-sub-term");
        }
        let mut kinds = BTreeSet::new();
        ast.kinds(&mut kinds);
        for k in kinds {
            st.class(&format!("tree-node:{}", k));
        }
        let via_cli = fnv_str(&text) % cli_every == 0;
        if via_cli {
            st.class("also-rsbdd -d -p files");
        }
        if repeated || subs.len() >= 5 {
            if st.nontrivial(fnv_str(&rprint::plain(&ast))) {
                st.nt_sample(|| json!({"kind": "formula", "text": text}));
            }
        } else if st.want_sample() {
            st.sample(json!({"kind": "formula", "text": text}));
        }
        check_formula(&text, via_cli)
    });
    ctx.stage("formulas-parse-tree-and-named-diagram", false, r)?;

    // every pair of list-versus-list comparisons over the sequence a, b, c, d (all split points x all
    // operators), side by side: nodes that differ only in where the two lists are split must stay apart
    let names = ["a", "b", "c", "d"];
    let mut twins: Vec<String> = Vec::new();
    let ops = ["<=", "<", ">=", ">", "="];
    let side = |i: usize, j: usize| format!("[{}]", names[i..j].join(", "));
    for s1 in 0..=4usize {
        for s2 in 0..=4usize {
            for (oi, o1) in ops.iter().enumerate() {
                for o2 in [ops[oi], ops[(oi + 1) % 5]] {
                    if s1 == s2 && *o1 == o2 {
                        continue;
                    }
                    twins.push(format!("({} {} {}) & ({} {} {})", side(0, s1), o1, side(s1, 4), side(0, s2), o2, side(s2, 4)));
                    twins.push(format!("[{} {} {}, {} {} {}] >= 1", side(0, s1), o1, side(s1, 4), side(0, s2), o2, side(s2, 4)));
                }
            }
        }
    }
    let r = par_jobs(ctx, &twins, |text, st| {
        st.eval();
        st.class("twin-list-comparisons");
        if st.nontrivial(fnv_str(text)) {
            st.nt_sample(|| json!({"kind": "tree-only", "text": text}));
        }
        check_tree_only(text)
    });
    ctx.stage("parse-trees-of-twin-list-comparisons", true, r)?;

    let sizes: Vec<usize> = ctx.tier.pick(vec![40, 129, 255, 256, 257, 300], vec![40, 127, 128, 129, 254, 255, 256, 257, 258, 300, 513, 1100, 65537]);
    let mut jobs: Vec<(usize, usize)> = Vec::new();
    for n in &sizes {
        for shape in 0..6 {
            if *n > 5000 && shape != 0 && shape != 3 {
                continue;
            }
            jobs.push((*n, shape));
        }
    }
    let r = par_jobs(ctx, &jobs, |(n, shape), st| {
        let text = long_tree_text(*n, *shape);
        st.eval();
        st.class(match *n {
            0..=255 => "list<=255",
            256..=300 => "list 256..300",
            _ => "list>300",
        });
        if *n > 16 && st.nontrivial(fnv_str(&text)) {
            st.nt_sample(|| json!({"kind": "tree-only", "entries": n, "shape": shape}));
        }
        check_tree_only(&text)
    });
    ctx.stage("parse-trees-with-long-lists", true, r)?;
    Ok(())
}

pub fn replay(case: &Value) -> Check {
    match case["kind"].as_str() {
        Some("bdd") if case["operands"].is_string() => match Fun::from_json(&case["f"]) {
            Some(f) => crate::fun::with_operands(crate::fun::case_operands(case), || check_fun(&f)),
            None => Err(Violation::new("unreadable replay case", case.clone())),
        },
        Some("bdd") => match Fun::from_json(&case["f"]) {
            Some(f) => check_fun(&f),
            None => Err(Violation::new("unreadable replay case", case.clone())),
        },
        Some("named") => {
            let names: Option<Vec<String>> = case["names"].as_array().map(|a| a.iter().filter_map(|x| x.as_str().map(|s| s.to_string())).collect());
            match (TT::from_hex(case["tt"].as_str().unwrap_or("")), names) {
                (Some(tt), Some(n)) if n.len() == tt.k => check_named(&tt, &n),
                _ => Err(Violation::new("unreadable replay case", case.clone())),
            }
        }
        Some("tree-only") => match case["text"].as_str() {
            Some(t) => check_tree_only(t),
            None => Err(Violation::new("unreadable replay case", case.clone())),
        },
        Some("formula") => match case["text"].as_str() {
            Some(t) => check_formula(t, case["cli"].as_bool().unwrap_or(false)),
            None => Err(Violation::new("unreadable replay case", case.clone())),
        },
        _ => Err(Violation::new("unreadable replay case", case.clone())),
    }
}
