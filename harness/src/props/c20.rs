//! C20 — dropping forced choices (-c) is sound in the direction of the chosen filter.

use crate::cli;
use crate::engine::*;
use crate::front;
use crate::fun::{gen_fun, Fun};
use crate::plain;
use crate::tt::TT;
use crate::util::{fnv_str, Tape};
use rsbdd::bdd::BDDEnv;
use rsbdd::TruthTableEntry;
use serde_json::{json, Value};
use std::rc::Rc;
use std::time::Duration;

fn filt(c: char) -> TruthTableEntry {
    match c {
        't' => TruthTableEntry::True,
        'f' => TruthTableEntry::False,
        _ => TruthTableEntry::Any,
    }
}

/// returns Ok(omitted?) where omitted = the result differs from f
pub fn check_api(f: &Fun, filter: char) -> Result<bool, Violation> {
    let cj = json!({"kind": "api", "f": f.to_json(), "filter": filter.to_string()});
    let v = |m: String| Violation::new(m, cj.clone());
    let mut omitted = false;
    guarded(&cj.clone(), || {
        let env: BDDEnv<usize> = BDDEnv::new();
        let uni = f.ids_sorted();
        let ft = f.over(&uni);
        let hf = f.intern(&env);
        let snap = plain::deep_clone(&hf);
        let r = env.retain_choice_bottom_up(Rc::clone(&hf), filt(filter));
        if hf.as_ref() != snap.as_ref() {
            return Err(v("retain changed its operand".into()));
        }
        let rt = plain::table_usize(&r, &uni)
            .map_err(|e| v(format!("result mentions a variable f does not: {}", e)))?;
        match filter {
            't' => {
                if !ft.leq(&rt) {
                    return Err(v(format!(
                        "filter True: f has a satisfying assignment that the result {} rejects",
                        plain::render(&r)
                    )));
                }
            }
            'f' => {
                if !rt.leq(&ft) {
                    return Err(v(format!(
                        "filter False: the result {} accepts an assignment f rejects",
                        plain::render(&r)
                    )));
                }
            }
            _ => {
                if r != hf {
                    return Err(v("filter Any: the result is not f itself".into()));
                }
            }
        }
        let sh = plain::invariants(&r);
        if !sh.ordered || !sh.reduced {
            return Err(v(format!(
                "result {} is not ordered/reduced: {}",
                plain::render(&r),
                sh.problem.unwrap_or_default()
            )));
        }
        let fsup = f.support_ids();
        if let Some(x) = plain::support_syms(&r).iter().find(|x| !fsup.contains(x)) {
            return Err(v(format!("result tests variable {} which f does not depend on", x)));
        }
        // the result lives in the environment (shared nodes) - when the operand did
        for n in plain::reachable(&r) {
            if crate::fun::operands() != crate::fun::Operands::Interned {
                break;
            }
            let nodes = env.nodes.borrow();
            match nodes.get(n.as_ref()) {
                Some(e) if Rc::ptr_eq(e, &n) => {}
                _ => return Err(v("a node of the result is not the environment's shared node".into())),
            }
        }
        omitted = r != hf;
        Ok(())
    })?;
    Ok(omitted)
}

/// several retain calls on ONE environment (filters in the given order, f and a second
/// function sharing sub-diagrams): every result must stand in its own filter's relation
pub fn check_sequence(f: &Fun, g: &Fun, order: &str) -> Check {
    let cj = json!({"kind": "sequence", "f": f.to_json(), "g": g.to_json(), "order": order});
    let v = |m: String| Violation::new(m, cj.clone());
    guarded(&cj.clone(), || {
        let env: BDDEnv<usize> = BDDEnv::new();
        for (step, ch) in order.chars().enumerate() {
            let which = if step % 2 == 0 { f } else { g };
            let uni = which.ids_sorted();
            let ft = which.over(&uni);
            let h = which.intern(&env);
            let r = env.retain_choice_bottom_up(Rc::clone(&h), filt(ch));
            let rt = plain::table_usize(&r, &uni).map_err(|e| v(format!("step {}: {}", step, e)))?;
            let ok = match ch {
                't' => ft.leq(&rt),
                'f' => rt.leq(&ft),
                _ => r == h,
            };
            if !ok {
                return Err(v(format!(
                    "step {} (filter {}) on an environment that already served {:?}: result {} is not in the filter's relation to its operand",
                    step,
                    ch,
                    &order[..step],
                    plain::render(&r)
                )));
            }
            let sh = plain::invariants(&r);
            if !sh.ordered || !sh.reduced {
                return Err(v(format!("step {}: result not ordered/reduced", step)));
            }
        }
        Ok(())
    })
}

/// `rsbdd --evaluate=<dnf f> -c <filter> -t`
pub fn check_cli(f: &Fun, spelling: &str) -> Check {
    check_cli_rows(f, spelling, "any")
}

/// `rsbdd --evaluate=<dnf f> -c <filter> -f <rows> -t`: the printed rows are the true (resp.
/// false, resp. all) rows of a function g that must stand in the -c filter's relation to f
pub fn check_cli_rows(f: &Fun, spelling: &str, rows: &str) -> Check {
    let cj = json!({"kind": "cli", "f": f.to_json(), "filter": spelling, "rows": rows});
    let v = |m: String| Violation::new(m, cj.clone());
    let filter = match spelling {
        "true" | "True" | "t" | "T" | "1" => 't',
        "false" | "False" | "f" | "F" | "0" => 'f',
        _ => 'a',
    };
    let uni = f.ids_sorted();
    let ft = f.over(&uni);
    let names: Vec<String> = uni.iter().map(|i| format!("r{}", i)).collect();
    let text = front::dnf_text(&ft, &names);
    let out = cli::run(
        &cli::bin("rsbdd"),
        &[format!("--evaluate={}", text), cli::s("-c"), spelling.to_string(), cli::s("-f"), rows.to_string(), cli::s("-t")],
        None,
        Duration::from_secs(60),
    );
    if out.timed_out {
        return Err(v("HARNESS: rsbdd timed out".into()));
    }
    if !out.ok() {
        return Err(v(format!("rsbdd -c {} -t failed on `{}`: {}", spelling, text, out.describe())));
    }
    let p = cli::parse_stdout(&out.out()).map_err(|e| v(e))?;
    let header = p.header.clone().ok_or_else(|| v("no table printed".into()))?;
    let col_pos: Vec<usize> = header
        .iter()
        .map(|h| names.iter().position(|n| n == h).ok_or_else(|| v(format!("unknown column {}", h))))
        .collect::<Result<_, _>>()?;
    // the printed table denotes a function g; rows must partition the space
    let mut g = TT::konst(uni.len(), false);
    let mut cover = vec![0u8; ft.len()];
    for (row, res) in &p.rows {
        for idx in 0..ft.len() {
            let covered = row.iter().enumerate().all(|(c, cell)| {
                let bit = (idx >> col_pos[c]) & 1 == 1;
                match cell {
                    cli::Cell::Any => true,
                    cli::Cell::True => bit,
                    cli::Cell::False => !bit,
                }
            });
            if covered {
                cover[idx] += 1;
                if *res {
                    g.set(idx, true);
                }
            }
        }
    }
    let rows_kind = match rows {
        "true" | "True" | "t" | "T" | "1" => 't',
        "false" | "False" | "f" | "F" | "0" => 'f',
        _ => 'a',
    };
    if cover.iter().any(|c| *c > 1) {
        return Err(v(format!("`{}` -c {} -f {}: two rows cover the same assignment", text, spelling, rows)));
    }
    let covered = TT::from_fn(uni.len(), |i| cover[i] == 1);
    // what the rows say about g
    let ok = match rows_kind {
        'a' => {
            if !covered.is_true() {
                return Err(v(format!("`{}` -c {}: rows do not partition the assignments", text, spelling)));
            }
            match filter {
                't' => ft.leq(&g),
                'f' => g.leq(&ft),
                _ => g == ft,
            }
        }
        't' => {
            // covered = g's satisfying assignments, all printed with result True
            if g != covered {
                return Err(v(format!("`{}` -c {} -f {}: a printed row is not a True row", text, spelling, rows)));
            }
            match filter {
                't' => ft.leq(&g),
                'f' => g.leq(&ft),
                _ => g == ft,
            }
        }
        _ => {
            // covered = g's falsifying assignments, all printed with result False
            if !g.is_false() {
                return Err(v(format!("`{}` -c {} -f {}: a printed row is not a False row", text, spelling, rows)));
            }
            let gfun = covered.not();
            match filter {
                't' => ft.leq(&gfun),
                'f' => gfun.leq(&ft),
                _ => gfun == ft,
            }
        }
    };
    if !ok {
        return Err(v(format!(
            "`{}` -c {} -f {}: the printed rows describe a function that is not in the -c filter's relation to the formula's {}",
            text,
            spelling,
            rows,
            ft.to_hex()
        )));
    }
    Ok(())
}

fn record(f: &Fun, filter: char, via: &str, omitted: bool, st: &mut Stats) {
    st.eval();
    st.class(&format!("{}:filter-{}", via, filter));
    if omitted {
        st.class("choice-omitted");
        let j = json!({"kind": via, "f": f.to_json(), "filter": filter.to_string()});
        if st.nontrivial(fnv_str(&j.to_string())) {
            st.nt_sample(|| j.clone());
        }
    } else if st.want_sample() {
        st.sample(json!({"kind": via, "f": f.to_json(), "filter": filter.to_string()}));
    }
}

pub fn run(ctx: &mut Ctx) -> Result<(), Violation> {
    ctx.rule = "cases = (function f as truth table on ids, filter). Exhaustive: every function of <= 4 variables under id maps {0,1,2,3} and {1,3,4,8} x filters True/False/Any; sequences of four retain calls with every order of filters on ONE environment (all 3-variable functions); random: functions of 5..8 variables; \
                CLI: `rsbdd --evaluate=<DNF of f> -c <spelling> [-f t|False|any] -t` for sampled functions, every accepted spelling and every combination with a row filter. Oracle on truth tables: True => f <= r, False => r <= f, Any => r is f; r ordered, reduced, tests only variables f depends on, consists of the environment's shared nodes. \
                Non-trivial = at least one choice is actually omitted (r != f); distinct by (table, ids, filter). Operand provenance: created in the environment through mk_choice (default), or - in a share of the random cases and in dedicated stages - plain values that belong to no environment / nodes of another environment (what BDD::<usize>::from(named) and the repository's own parser tests produce)."
        .to_string();
    ctx.rule.push_str(" Wide stage: ");
    ctx.rule.push_str(crate::wide::RULE);

    for (k, maps) in [
        (1usize, vec![vec![0usize], vec![5]]),
        (2, vec![vec![0, 1], vec![2, 6]]),
        (3, vec![vec![0, 1, 2], vec![1, 4, 8]]),
        (4, vec![vec![0, 1, 2, 3], vec![1, 3, 4, 8]]),
    ] {
        let nf = 1u64 << (1u64 << k);
        let n = nf * maps.len() as u64;
        let r = par_exhaustive(ctx, n, |i, st| {
            let f = Fun::new(TT::from_bits(k, i % nf), maps[(i / nf) as usize].clone());
            for filter in ['t', 'f', 'a'] {
                let om = check_api(&f, filter)?;
                record(&f, filter, "api", om, st);
            }
            Ok(())
        });
        ctx.stage(&format!("api-all-functions-k{}", k), true, r)?;
    }

    // several calls on one environment, all orders of the three filters (length 4)
    let orders: Vec<String> = {
        let mut v = Vec::new();
        for a in ['t', 'f', 'a'] {
            for b in ['t', 'f', 'a'] {
                for c in ['t', 'f'] {
                    for d in ['t', 'f'] {
                        v.push([a, b, c, d].iter().collect());
                    }
                }
            }
        }
        v
    };
    let no = orders.len() as u64;
    let r = par_exhaustive(ctx, 256 * no, |i, st| {
        let f = Fun::new(TT::from_bits(3, i % 256), vec![0, 1, 2]);
        // g shares sub-diagrams with f: same table on shifted / overlapping ids
        let g = Fun::new(TT::from_bits(3, (i % 256) ^ ((i / 256) * 37 % 256)), vec![0, 1, 2]);
        let order = &orders[(i / 256) as usize];
        st.eval();
        st.class("sequence-of-filters-on-one-environment");
        if !f.tt.is_const() && st.nontrivial(crate::util::mix(i, 20)) {
            st.nt_sample(|| json!({"kind": "sequence", "f": f.to_json(), "g": g.to_json(), "order": order}));
        }
        check_sequence(&f, &g, order)
    });
    ctx.stage("filter-sequences-on-one-environment-3var", true, r)?;

    let cases = ctx.tier.cases(100_000, 8_000_000);
    let r = par_random(ctx, "random-api", cases, 80, |tape, st| {
        let mut t = Tape::new(tape);
        let f = gen_fun(&mut t, 8, 12);
        let filter = ['t', 'f', 'a'][t.choose(3)];
        let mode = crate::fun::gen_operands(&mut t);
        st.class(&format!("operands:{}", mode.name()));
        let mut om = false;
        crate::fun::with_operands(mode, || check_api(&f, filter).map(|o| om = o))?;
        record(&f, filter, "api", om, st);
        Ok(())
    });
    ctx.stage("api-random-functions-up-to-8-vars", false, r)?;
    let wc = ctx.tier.cases(6_000, 200_000);
    crate::wide::stage_retain(ctx, "wide-functions", wc)?;
    crate::wide::stage_collisions(ctx, "operands-with-equal-hash-sub-diagrams", "retain")?;
    crate::wide::fuzz_kind(ctx, "retain", replay)?;

    let spellings = ["true", "True", "t", "T", "1", "false", "False", "f", "F", "0", "any", "Any", "a", "A", "*"];
    let mut jobs: Vec<(Fun, String)> = Vec::new();
    let mut rng = crate::util::Rng::new(ctx.seed ^ 0xC20);
    let n = ctx.tier.pick(150, 10_000);
    for i in 0..n {
        let f = if i % 3 == 0 {
            Fun::new(TT::from_bits(2, rng.next() & 0xf), vec![0, 1])
        } else {
            Fun::new(TT::from_bits(3, rng.next() & 0xff), vec![0, 1, 2])
        };
        jobs.push((f, spellings[i % spellings.len()].to_string()));
    }
    let r = par_jobs(ctx, &jobs, |(f, sp), st| {
        st.eval();
        st.class(&format!("cli:-c {}", sp));
        check_cli(f, sp)?;
        // together with a row filter (-f), every combination
        for rows in ["t", "False", "any"] {
            st.eval();
            st.class(&format!("cli:-c with -f {}", rows));
            check_cli_rows(f, sp, rows)?;
        }
        Ok(())
    });
    ctx.stage("cli-retain-table", false, r)?;
    Ok(())
}

pub fn replay(case: &Value) -> Check {
    if let Some(r) = crate::wide::replay(case) {
        return r;
    }
    let f = Fun::from_json(&case["f"]);
    let filter = case["filter"].as_str().unwrap_or("");
    match (case["kind"].as_str(), f) {
        (Some("api"), Some(f)) if !filter.is_empty() => {
            crate::fun::with_operands(crate::fun::case_operands(case), || check_api(&f, filter.chars().next().unwrap()).map(|_| ()))
        }
        (Some("cli"), Some(f)) => check_cli_rows(&f, filter, case["rows"].as_str().unwrap_or("any")),
        (Some("sequence"), Some(f)) => match (Fun::from_json(&case["g"]), case["order"].as_str()) {
            (Some(g), Some(o)) => check_sequence(&f, &g, o),
            _ => Err(Violation::new("unreadable replay case", case.clone())),
        },
        _ => Err(Violation::new("unreadable replay case", case.clone())),
    }
}
