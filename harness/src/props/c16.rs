//! C16 — max_clique_gen emits a formula whose models are exactly the maximum cliques.

use crate::cli;
use crate::engine::*;
use crate::front;
use crate::rlex;
use crate::rparse;
use crate::rsem;
use crate::util::{fnv_str, Tape};
use serde_json::{json, Value};
use std::collections::BTreeSet;
use std::time::Duration;

#[derive(Clone, Debug)]
pub struct Case {
    pub edges: Vec<(String, String)>,
    pub undirected: bool,
    pub all: bool,
}

impl Case {
    pub fn to_json(&self) -> Value {
        json!({"kind": "clique", "edges": self.edges.iter().map(|(a, b)| json!([a, b])).collect::<Vec<_>>(), "undirected": self.undirected, "all": self.all})
    }
    pub fn from_json(v: &Value) -> Option<Case> {
        let mut edges = Vec::new();
        for e in v["edges"].as_array()? {
            let p = e.as_array()?;
            edges.push((p.first()?.as_str()?.to_string(), p.get(1)?.as_str()?.to_string()));
        }
        Some(Case {
            edges,
            undirected: v["undirected"].as_bool()?,
            all: v["all"].as_bool()?,
        })
    }
    pub fn vertices(&self) -> Vec<String> {
        let mut v: Vec<String> = Vec::new();
        for (a, b) in &self.edges {
            for x in [a, b] {
                if !v.contains(x) {
                    v.push(x.clone());
                }
            }
        }
        v
    }
    fn adjacent(&self, a: &str, b: &str) -> bool {
        let ab = self.edges.iter().any(|(x, y)| x == a && y == b);
        let ba = self.edges.iter().any(|(x, y)| x == b && y == a);
        if self.undirected {
            ab || ba
        } else {
            ab && ba
        }
    }
    /// the expected family of vertex sets, as bit masks over `vertices()`
    pub fn expected_family(&self) -> BTreeSet<u32> {
        let vs = self.vertices();
        let n = vs.len();
        let mut cliques: Vec<u32> = Vec::new();
        for m in 0..(1u32 << n) {
            let members: Vec<usize> = (0..n).filter(|i| (m >> i) & 1 == 1).collect();
            let ok = members
                .iter()
                .all(|&i| members.iter().all(|&j| i == j || self.adjacent(&vs[i], &vs[j])));
            if ok {
                cliques.push(m);
            }
        }
        if self.all {
            cliques.into_iter().collect()
        } else {
            let best = cliques.iter().map(|m| m.count_ones()).max().unwrap_or(0);
            cliques.into_iter().filter(|m| m.count_ones() == best).collect()
        }
    }
}

pub fn run_generator(c: &Case) -> Result<String, String> {
    let scratch = cli::Scratch::new();
    let csv: String = c.edges.iter().map(|(a, b)| format!("{},{}\n", a, b)).collect();
    let input = scratch.file(&cli::Scratch::awkward("graph.csv"), csv.as_bytes());
    let mut args = vec![input.to_string_lossy().into_owned()];
    if c.undirected {
        args.push("-u".into());
    }
    if c.all {
        args.push("-a".into());
    }
    let out = cli::run(&cli::bin("max_clique_gen"), &args, None, Duration::from_secs(60));
    if !out.ok() {
        return Err(format!("max_clique_gen failed: {}", out.describe()));
    }
    let text = out.out();
    // the stdin / output-file path must give the same text
    let outp = scratch.stale(&cli::Scratch::awkward("out.txt"));
    let mut args2 = vec![input.to_string_lossy().into_owned(), outp.to_string_lossy().into_owned()];
    if c.undirected {
        args2.push("--undirected".into());
    }
    if c.all {
        args2.push("--all".into());
    }
    let out2 = cli::run(&cli::bin("max_clique_gen"), &args2, None, Duration::from_secs(60));
    if !out2.ok() {
        return Err(format!("max_clique_gen with an output file failed: {}", out2.describe()));
    }
    let text2 = std::fs::read_to_string(&outp).map_err(|e| format!("output file: {}", e))?;
    if text != text2 {
        return Err("stdout and the output file differ".into());
    }
    Ok(text)
}

/// Graphs beyond the truth-table oracle (17..26 vertices, hundreds of non-adjacent pairs): the emitted
/// text is evaluated by the reference semantics on reference diagrams and compared with the family of
/// (maximum) cliques built directly as a diagram.
pub fn check_wide(c: &Case) -> Check {
    use crate::refbdd::{self, Ref};
    let mut cj = c.to_json();
    cj["kind"] = json!("clique-wide");
    let v = |m: String| Violation::new(m, cj.clone());
    let text = run_generator(c).map_err(|e| v(e))?;
    let parsed = rparse::parse_text(text.as_bytes()).map_err(|e| v(format!("the output is not a well-formed formula: {}", e)))?;
    front::parse(text.as_bytes(), None).map_err(|e| v(format!("rsbdd's parser rejects the output: {}", e)))?;
    let names = rlex::identifiers(&parsed.tokens);
    let vs = c.vertices();
    let fv = parsed.ast.free_vars();
    if let Some(x) = fv.iter().find(|x| !vs.contains(x)) {
        return Err(v(format!("the formula has the free variable `{}` which is not a vertex", x)));
    }
    let mut m = Ref::new();
    let got = rsem::diagram(&parsed.ast, &names, &mut m, 64).map_err(|e| v(format!("HARNESS: reference semantics: {:?}", e)))?.id;
    // levels of the vertices: their position among the names, or fresh levels behind them
    let mut next = names.len();
    let level: Vec<usize> = vs
        .iter()
        .map(|x| match names.iter().position(|n| n == x) {
            Some(p) if fv.contains(x) => p,
            _ => {
                next += 1;
                next - 1
            }
        })
        .collect();
    let n = vs.len();
    let mut cl = refbdd::T;
    for i in 0..n {
        for j in 0..i {
            if !c.adjacent(&vs[i], &vs[j]) {
                let (a, b) = (m.var(level[i]), m.var(level[j]));
                let both = m.and(a, b);
                let nb = m.not(both);
                cl = m.and(cl, nb);
            }
        }
    }
    let want = if c.all {
        cl
    } else {
        let xs: Vec<refbdd::Id> = level.iter().map(|l| m.var(*l)).collect();
        let cs = m.counts(&xs);
        let mut best = refbdd::F;
        for j in (0..cs.len()).rev() {
            let x = m.and(cl, cs[j]);
            if x != refbdd::F {
                best = x;
                break;
            }
        }
        best
    };
    if got != want {
        let d = m.xor(got, want);
        let a = m.any_sat(d).unwrap_or_default();
        let set: Vec<&String> = vs.iter().enumerate().filter(|(i, _)| a.iter().any(|(l, b)| *l == level[*i] && *b)).map(|x| x.1).collect();
        let asg = |l: usize| a.iter().any(|(x, b)| *x == l && *b);
        return Err(v(format!(
            "the vertex set {:?} {} a model of the formula but {} {} ({} vertices, -u={}, -a={})",
            set,
            if m.eval(got, &asg) { "is" } else { "is not" },
            if m.eval(want, &asg) { "is" } else { "is not" },
            if c.all { "a clique" } else { "a maximum clique" },
            n,
            c.undirected,
            c.all
        )));
    }
    Ok(())
}

/// deterministic graphs of n vertices with many non-adjacent pairs
pub fn wide_graph(n: usize, shape: usize, seed: u64) -> Vec<(String, String)> {
    let mut rng = crate::util::Rng::new(seed ^ ((n as u64) << 16) ^ shape as u64);
    let name = |i: usize| format!("a{}", i);
    let mut es: Vec<(String, String)> = Vec::new();
    match shape % 5 {
        0 => {
            for i in 0..n {
                es.push((name(i), name((i + 1) % n)));
            }
        }
        1 => {
            for i in 0..n {
                es.push((name(i), name((i + 1) % n)));
                es.push((name((i + 1) % n), name(i)));
            }
        }
        2 => {
            // disjoint triangles / a 4-clique, both directions
            let mut i = 0;
            while i + 2 < n {
                for (a, b) in [(i, i + 1), (i + 1, i + 2), (i, i + 2)] {
                    es.push((name(a), name(b)));
                    es.push((name(b), name(a)));
                }
                i += 3;
            }
            for a in 0..4.min(n) {
                for b in 0..a {
                    es.push((name(a), name(b)));
                    es.push((name(b), name(a)));
                }
            }
        }
        3 => {
            // sparse random, mixed directions
            for _ in 0..2 * n {
                let (a, b) = (rng.below(n), rng.below(n));
                if a != b {
                    es.push((name(a), name(b)));
                    if rng.flag() {
                        es.push((name(b), name(a)));
                    }
                }
            }
            for i in 0..n {
                es.push((name(i), name((i + 7) % n)));
            }
        }
        _ => {
            // dense: complete graph minus a random set of ~n pairs
            let mut missing: Vec<(usize, usize)> = Vec::new();
            for _ in 0..n {
                missing.push((rng.below(n), rng.below(n)));
            }
            for a in 0..n {
                for b in 0..n {
                    if a != b && !missing.contains(&(a, b)) && !missing.contains(&(b, a)) {
                        es.push((name(a), name(b)));
                    }
                }
            }
        }
    }
    es
}

pub fn check_case(c: &Case, solver: bool) -> Check {
    let cj = c.to_json();
    let v = |m: String| Violation::new(m, cj.clone());
    let text = run_generator(c).map_err(|e| v(e))?;
    let parsed = rparse::parse_text(text.as_bytes()).map_err(|e| v(format!("the output is not a well-formed formula: {}\n{}", e, text)))?;
    front::parse(text.as_bytes(), None).map_err(|e| v(format!("rsbdd's parser rejects the output: {}", e)))?;
    let names = rlex::identifiers(&parsed.tokens);
    if names.len() > 14 {
        return Err(v("HARNESS: too many names for the truth-table oracle".into()));
    }
    let vs = c.vertices();
    let fv = parsed.ast.free_vars();
    if let Some(x) = fv.iter().find(|x| !vs.contains(x)) {
        return Err(v(format!("the formula has the free variable `{}` which is not a vertex\n{}", x, text)));
    }
    let table = rsem::table(&parsed.ast, &names).map_err(|e| v(format!("HARNESS: reference semantics: {:?}", e)))?;
    for (p, n) in names.iter().enumerate() {
        if !fv.contains(n) && table.depends_on(p) {
            return Err(v(format!("HARNESS: table depends on bound name {}", n)));
        }
    }
    let family = c.expected_family();
    for m in 0..(1u32 << vs.len()) {
        // a vertex the formula does not mention is unconstrained; bound copies irrelevant
        let mut idx = 0usize;
        for (i, vname) in vs.iter().enumerate() {
            if (m >> i) & 1 == 1 {
                if let Some(p) = names.iter().position(|n| n == vname) {
                    if fv.contains(vname) {
                        idx |= 1 << p;
                    }
                }
            }
        }
        let got = table.get(idx);
        // expected: m restricted to mentioned vertices must be extendable... the statement:
        // "read as vertex sets (a vertex whose variable the formula does not mention is
        // unconstrained)": the model set, as a family over ALL vertices, is the expected family.
        let want = family.contains(&m);
        if got != want {
            let set: Vec<&String> = vs.iter().enumerate().filter(|(i, _)| (m >> i) & 1 == 1).map(|x| x.1).collect();
            return Err(v(format!(
                "the vertex set {:?} {} a model of the formula but {} {} (graph {:?}, -u={}, -a={})\n{}",
                set,
                if got { "is" } else { "is not" },
                if want { "is" } else { "is not" },
                if c.all { "a clique" } else { "a maximum clique" },
                c.edges,
                c.undirected,
                c.all,
                text
            ))
            .sig(if vs.iter().any(|x| vs.iter().any(|y| *y == format!("v_{}", x))) { "copy-prefix-capture" } else { "" }));
        }
    }
    if solver {
        let scratch = cli::Scratch::new();
        let p = scratch.file("clique.txt", text.as_bytes());
        let out = cli::run(
            &cli::bin("rsbdd"),
            &[p.to_string_lossy().into_owned(), "-t".into(), "-ft".into()],
            None,
            Duration::from_secs(120),
        );
        if !out.ok() {
            return Err(v(format!("rsbdd failed on the generated formula: {}", out.describe())));
        }
        let printed = cli::parse_stdout(&out.out()).map_err(|e| v(e))?;
        let header = printed.header.clone().unwrap_or_default();
        // family projected on the header's vertices (others unconstrained)
        let hp: Vec<usize> = header
            .iter()
            .map(|h| vs.iter().position(|x| x == h).ok_or_else(|| v(format!("column {} is not a vertex", h))))
            .collect::<Result<_, _>>()?;
        let mut want = crate::tt::TT::konst(header.len(), false);
        for m in &family {
            let mut idx = 0usize;
            for (c_, p_) in hp.iter().enumerate() {
                if (m >> p_) & 1 == 1 {
                    idx |= 1 << c_;
                }
            }
            want.set(idx, true);
        }
        cli::check_rows(&printed.rows, &want, 't').map_err(|e| v(format!("rsbdd -t -ft: {}", e)))?;
    }
    Ok(())
}

/// names bound by quantifiers in the emitted text (the generator's copies of the vertices)
pub fn bound_names(text: &str) -> Vec<String> {
    fn go(a: &crate::rast::RAst, out: &mut Vec<String>) {
        if let crate::rast::RAst::Quant(_, ns, _) = a {
            for n in ns {
                if !out.contains(n) {
                    out.push(n.clone());
                }
            }
        }
        for c in a.children() {
            go(c, out);
        }
    }
    let mut out = Vec::new();
    if let Ok(p) = rparse::parse_text(text.as_bytes()) {
        go(&p.ast, &mut out);
    }
    out
}

/// Adversarial feedback: take names the generator itself invented for its bound copies
/// and make them real vertices of a new graph (they are identifiers, so inside the domain).
pub fn feedback(c: &Case, t: &mut Tape) -> Option<Case> {
    let text = run_generator(c).ok()?;
    let vs = c.vertices();
    let fresh: Vec<String> = bound_names(&text).into_iter().filter(|n| !vs.contains(n)).collect();
    if fresh.is_empty() || vs.is_empty() {
        return None;
    }
    let mut edges = c.edges.clone();
    let take = 1 + t.choose(std::cmp::min(2, fresh.len()));
    for k in 0..take {
        let n = fresh[t.choose(fresh.len())].clone();
        let partner = vs[(k + t.choose(vs.len())) % vs.len()].clone();
        edges.push((n.clone(), partner.clone()));
        if t.flag() {
            edges.push((partner, n));
        }
    }
    Some(Case {
        edges,
        undirected: c.undirected,
        all: c.all,
    })
}

pub const POOL: [&str; 9] = ["a", "b", "c", "x1", "n'", "v_a", "v0", "_q", "\u{e9}"];

fn gen_case(t: &mut Tape, maxv: usize) -> Case {
    let nv = t.choose(maxv + 1);
    let start = t.choose(POOL.len());
    let vs: Vec<String> = (0..nv).map(|i| POOL[(start + i * 2) % POOL.len()].to_string()).collect();
    let mut vs2: Vec<String> = Vec::new();
    for v in vs {
        if !vs2.contains(&v) {
            vs2.push(v);
        }
    }
    let vs = vs2;
    let mut edges = Vec::new();
    if !vs.is_empty() {
        let style = t.choose(5);
        let ne = t.choose(vs.len() * vs.len() + 2);
        for _ in 0..ne {
            let a = t.choose(vs.len());
            let b = t.choose(vs.len());
            if a == b && !t.chance(30) {
                continue;
            }
            edges.push((vs[a].clone(), vs[b].clone()));
            match style {
                0 => edges.push((vs[b].clone(), vs[a].clone())), // symmetric
                1 if t.flag() => edges.push((vs[a].clone(), vs[b].clone())), // duplicate
                _ => {}
            }
        }
        if style == 4 {
            // complete graph
            edges.clear();
            for a in &vs {
                for b in &vs {
                    if a != b {
                        edges.push((a.clone(), b.clone()));
                    }
                }
            }
        }
    }
    Case {
        edges,
        undirected: t.flag(),
        all: t.flag(),
    }
}

fn record(c: &Case, st: &mut Stats) {
    st.eval();
    let vs = c.vertices();
    st.class(&format!("vertices:{}", vs.len()));
    st.class(if c.undirected { "-u" } else { "directed" });
    st.class(if c.all { "-a" } else { "maximum" });
    let n = vs.len();
    let complete = n > 0 && vs.iter().all(|a| vs.iter().all(|b| a == b || c.adjacent(a, b)));
    let empty = vs.iter().all(|a| vs.iter().all(|b| a == b || !c.adjacent(a, b)));
    if c.edges.iter().any(|(a, b)| a == b) {
        st.class("self-loop");
    }
    if vs.iter().any(|x| vs.iter().any(|y| y.starts_with("v_") && &y[2..] == x)) {
        st.class("vertex-named-like-a-copy(v_<other vertex>)");
    }
    if c.edges.iter().any(|(a, b)| !c.edges.iter().any(|(x, y)| x == b && y == a)) {
        st.class("one-directional-edge");
    }
    let j = c.to_json();
    if n >= 3 && !complete && !empty {
        if st.nontrivial(fnv_str(&j.to_string())) {
            st.nt_sample(|| j.clone());
        }
    } else if st.want_sample() {
        st.sample(j);
    }
}

pub fn run(ctx: &mut Ctx) -> Result<(), Violation> {
    ctx.rule = "cases = (edge list over <= 5 (thorough 6) identifier-named vertices from the pool a b c x1 n' v_a v0 _q e-acute: simple, symmetric, with duplicates, one-directional edges, self loops, complete and empty graphs; -u; -a). The max_clique_gen binary built from the working tree is run on the CSV (stdout and output file must agree). \
                Oracle: brute force over all vertex subsets: cliques w.r.t. adjacency (-u: either direction; otherwise both), maximum ones or all with -a. The emitted text, parsed by the reference parser and evaluated by the reference truth-table semantics (<= 14 names incl. the bound copies), must be true on exactly that family (vertices not mentioned unconstrained); a sample is also solved with `rsbdd -t -ft`. \
                A feedback stage turns the names the generator invented for its bound copies into real vertices of a new graph (up to three rounds). Thorough adds all 512 directed graphs on 3 vertices x flags. Non-trivial = graph with >= 3 vertices that is neither complete nor empty; distinct by (edges, flags)."
        .to_string();
    ctx.assume("vertex names are identifiers of the rsbdd language (keywords and names with whitespace are outside the property)");

    // hand-written graphs incl. the v_ prefix case and the repo's example
    let mut fixed: Vec<Case> = Vec::new();
    for (edges, u, a) in [
        (vec![("a", "b"), ("b", "a")], false, false),
        (vec![("a", "b")], false, false),
        (vec![("a", "b")], true, false),
        (vec![("a", "b"), ("b", "c"), ("c", "a")], true, false),
        (vec![("a", "b"), ("b", "c")], true, true),
        (vec![("a", "v_a"), ("v_a", "b"), ("a", "b")], true, false),
        (vec![("a", "v_a"), ("b", "c")], true, false),
        (vec![("a", "a")], false, false),
        (vec![], false, false),
        (vec![], true, true),
    ] {
        fixed.push(Case {
            edges: edges.into_iter().map(|(x, y)| (x.to_string(), y.to_string())).collect(),
            undirected: u,
            all: a,
        });
    }
    if let Ok(s) = std::fs::read_to_string("/repo/examples/7_4_clique.csv") {
        let edges: Vec<(String, String)> = s
            .lines()
            .filter_map(|l| l.split_once(',').map(|(a, b)| (a.trim().to_string(), b.trim().to_string())))
            .collect();
        if !edges.is_empty() && edges.iter().all(|(a, b)| !a.is_empty() && !b.is_empty()) {
            for u in [false, true] {
                fixed.push(Case {
                    edges: edges.clone(),
                    undirected: u,
                    all: false,
                });
            }
        }
    }
    let r = par_jobs(ctx, &fixed, |c, st| {
        record(c, st);
        check_case(c, true)
    });
    ctx.stage("hand-written-graphs", true, r)?;

    // every undirected simple graph on 4 vertices (64) x -a, each edge written in a varying direction
    let r = par_exhaustive(ctx, 64 * 2, |i, st| {
        let g = i % 64;
        let names = ["a", "x1", "v_a", "n'"];
        let pairs = [(0usize, 1usize), (0, 2), (0, 3), (1, 2), (1, 3), (2, 3)];
        let mut edges = Vec::new();
        for (bit, (p, q)) in pairs.iter().enumerate() {
            if (g >> bit) & 1 == 1 {
                if (g + bit as u64) % 2 == 0 {
                    edges.push((names[*p].to_string(), names[*q].to_string()));
                } else {
                    edges.push((names[*q].to_string(), names[*p].to_string()));
                }
            }
        }
        let c = Case {
            edges,
            undirected: true,
            all: i / 64 == 1,
        };
        record(&c, st);
        check_case(&c, false)
    });
    ctx.stage("all-undirected-graphs-on-4-vertices-x-all-flag", true, r)?;

    if ctx.tier == Tier::Thorough {
        let r = par_exhaustive(ctx, 512 * 4, |i, st| {
            let g = i % 512;
            let names = ["a", "b", "v_a"];
            let mut edges = Vec::new();
            for bit in 0..9 {
                if (g >> bit) & 1 == 1 {
                    edges.push((names[bit / 3].to_string(), names[bit % 3].to_string()));
                }
            }
            let c = Case {
                edges,
                undirected: (i / 512) & 1 == 1,
                all: (i / 1024) & 1 == 1,
            };
            record(&c, st);
            check_case(&c, false)
        });
        ctx.stage("all-directed-graphs-on-3-vertices-x-flags", true, r)?;
    }

    let cases = ctx.tier.cases(900, 40_000);
    let maxv = ctx.tier.pick(5, 6);
    let r = par_random(ctx, "random-graphs", cases, 120, |tape, st| {
        let mut t = Tape::new(tape);
        let c = gen_case(&mut t, maxv);
        record(&c, st);
        let solver = t.chance(25);
        if solver {
            st.class("also-solved-with-rsbdd");
        }
        check_case(&c, solver)
    });
    ctx.stage("random-graphs", false, r)?;

    // feedback: the generator's own copy names become vertices, up to three rounds
    let cases = ctx.tier.cases(150, 10_000);
    let r = par_random(ctx, "feedback-names", cases, 160, |tape, st| {
        let mut t = Tape::new(tape);
        let mut c = gen_case(&mut t, 3);
        c.all = false;
        for round in 0..3 {
            let next = match feedback(&c, &mut t) {
                Some(n) => n,
                None => break,
            };
            if next.vertices().len() > 6 {
                break;
            }
            record(&next, st);
            st.class(&format!("feedback-round-{}", round + 1));
            check_case(&next, false)?;
            c = next;
        }
        Ok(())
    });
    ctx.stage("vertex-names-fed-back-from-the-output", false, r)?;

    let mut wjobs: Vec<Case> = Vec::new();
    for n in ctx.tier.pick(vec![17usize, 18, 24], vec![16usize, 17, 18, 19, 23, 24, 26, 33]) {
        for shape in 0..5usize {
            for (undirected, all) in [(false, true), (true, true), (true, false), (false, false)] {
                if ctx.tier == Tier::Quick && !all && shape % 2 == 1 {
                    continue;
                }
                wjobs.push(Case { edges: wide_graph(n, shape, ctx.seed), undirected, all });
            }
        }
    }
    let r = par_jobs(ctx, &wjobs, |c, st| {
        st.eval();
        let n = c.vertices().len();
        let vs = c.vertices();
        let mut non = 0usize;
        for i in 0..n {
            for j in 0..i {
                if !c.adjacent(&vs[i], &vs[j]) {
                    non += 1;
                }
            }
        }
        st.class(match non {
            0..=127 => "wide:non-adjacent-pairs<128",
            128..=255 => "wide:non-adjacent-pairs 128..255",
            _ => "wide:non-adjacent-pairs>=256",
        });
        st.class(if c.all { "wide:--all" } else { "wide:maximum-cliques" });
        if st.nontrivial(fnv_str(&c.to_json().to_string())) {
            st.nt_sample(|| json!({"kind": "clique-wide", "vertices": n, "non_adjacent_pairs": non, "undirected": c.undirected, "all": c.all}));
        }
        check_wide(c)
    });
    ctx.stage("graphs-of-17-to-26-vertices-reference-diagrams", true, r)?;
    Ok(())
}

pub fn replay(case: &Value) -> Check {
    match Case::from_json(case) {
        Some(c) if case["kind"].as_str() == Some("clique-wide") => check_wide(&c),
        Some(c) => check_case(&c, true),
        None => Err(Violation::new("unreadable replay case", case.clone())),
    }
}
