//! C19 — BDDSet behaves as a mathematical set of b-bit integers under every history.

use crate::engine::*;
use crate::util::{fnv_str, Tape};
use rsbdd::bdd::BDDEnv;
use rsbdd::set::BDDSet;
use serde_json::{json, Value};
use std::collections::{BTreeSet, HashMap, VecDeque};
use std::rc::Rc;

#[derive(Clone, Debug, PartialEq, Eq, Hash)]
pub enum SetOp {
    Insert(usize, usize),
    Union(usize, usize),
    Intersect(usize, usize),
    Complement(usize, usize),
    Empty(usize),
    Universe(usize),
    /// ask all membership queries of set i (twice)
    Query(usize),
    /// replace set i by `BDDSet::from_element(x, bits, env)` (a new set in the shared environment)
    Singleton(usize, usize),
}

impl SetOp {
    fn to_json(&self) -> Value {
        match self {
            SetOp::Insert(s, x) => json!(["insert", s, x]),
            SetOp::Union(a, b) => json!(["union", a, b]),
            SetOp::Intersect(a, b) => json!(["intersect", a, b]),
            SetOp::Complement(a, b) => json!(["complement", a, b]),
            SetOp::Empty(s) => json!(["empty", s]),
            SetOp::Universe(s) => json!(["universe", s]),
            SetOp::Query(s) => json!(["query", s]),
            SetOp::Singleton(s, x) => json!(["singleton", s, x]),
        }
    }
    fn from_json(v: &Value) -> Option<SetOp> {
        let a = v.as_array()?;
        let us = |i: usize| a.get(i).and_then(|x| x.as_u64()).map(|x| x as usize);
        Some(match a.first()?.as_str()? {
            "insert" => SetOp::Insert(us(1)?, us(2)?),
            "union" => SetOp::Union(us(1)?, us(2)?),
            "intersect" => SetOp::Intersect(us(1)?, us(2)?),
            "complement" => SetOp::Complement(us(1)?, us(2)?),
            "empty" => SetOp::Empty(us(1)?),
            "universe" => SetOp::Universe(us(1)?),
            "query" => SetOp::Query(us(1)?),
            "singleton" => SetOp::Singleton(us(1)?, us(2)?),
            _ => return None,
        })
    }
    fn name(&self) -> &'static str {
        match self {
            SetOp::Insert(..) => "insert",
            SetOp::Union(a, b) => {
                if a == b {
                    "union-self"
                } else {
                    "union"
                }
            }
            SetOp::Intersect(a, b) => {
                if a == b {
                    "intersect-self"
                } else {
                    "intersect"
                }
            }
            SetOp::Complement(a, b) => {
                if a == b {
                    "complement-self"
                } else {
                    "complement"
                }
            }
            SetOp::Empty(_) => "empty",
            SetOp::Universe(_) => "universe",
            SetOp::Query(_) => "query",
            SetOp::Singleton(..) => "from_element",
        }
    }
}

fn case_json(bits: usize, nsets: usize, ops: &[SetOp]) -> Value {
    json!({"kind": "set-history", "bits": bits, "sets": nsets, "ops": ops.iter().map(|o| o.to_json()).collect::<Vec<_>>()})
}

fn apply_ref(sets: &mut [BTreeSet<usize>], bits: usize, op: &SetOp) {
    match op {
        SetOp::Insert(s, x) => {
            sets[*s].insert(*x);
        }
        SetOp::Union(a, b) => {
            let o = sets[*b].clone();
            sets[*a].extend(o);
        }
        SetOp::Intersect(a, b) => {
            let o = sets[*b].clone();
            sets[*a].retain(|x| o.contains(x));
        }
        SetOp::Complement(a, b) => {
            let o = sets[*b].clone();
            sets[*a].retain(|x| !o.contains(x));
        }
        SetOp::Empty(s) => sets[*s].clear(),
        SetOp::Universe(s) => sets[*s] = (0..(1usize << bits)).collect(),
        SetOp::Query(_) => {}
        SetOp::Singleton(s, x) => sets[*s] = [*x].into_iter().collect(),
    }
}

/// Run the history against the implementation and the reference; after every operation
/// all membership queries on every set are asked twice.
pub fn check_history(bits: usize, nsets: usize, ops: &[SetOp]) -> Check {
    let cj = case_json(bits, nsets, ops);
    let v = |m: String| Violation::new(m, cj.clone());
    guarded(&cj.clone(), || {
        let env = Rc::new(BDDEnv::<usize>::new());
        let mut imp: Vec<BDDSet> = (0..nsets).map(|_| BDDSet::with_env(bits, &env)).collect();
        let mut reference: Vec<BTreeSet<usize>> = vec![BTreeSet::new(); nsets];
        // Query order matters for history-dependent defects (a cached last answer, say): every round
        // starts by repeating the very last query made before the operation, then scans the elements
        // from a rotating start, ascending in one round and descending in the next.
        let last_query: std::cell::Cell<Option<(usize, usize)>> = std::cell::Cell::new(None);
        let round_no: std::cell::Cell<usize> = std::cell::Cell::new(0);
        let ask = |imp: &Vec<BDDSet>, reference: &Vec<BTreeSet<usize>>, which: &[usize], after: &str| -> Check {
            let n = 1usize << bits;
            let one = |s: usize, x: usize, round: usize| -> Check {
                let got = imp[s].contains(x);
                last_query.set(Some((s, x)));
                let want = reference[s].contains(&x);
                if got != want {
                    return Err(v(format!(
                        "after {}: set {} contains({}) = {} but the reference set {:?} says {} (query round {})",
                        after, s, x, got, reference[s], want, round + 1
                    )));
                }
                Ok(())
            };
            if let Some((s, x)) = last_query.get() {
                if s < imp.len() {
                    one(s, x, 0)?;
                }
            }
            for round in 0..2 {
                let k = round_no.get();
                round_no.set(k + 1);
                for &s in which {
                    for i in 0..n {
                        let x = if k % 2 == 0 { (i + k) % n } else { (n - 1 - i + k) % n };
                        one(s, x, round)?;
                    }
                }
            }
            Ok(())
        };
        let all: Vec<usize> = (0..nsets).collect();
        ask(&imp, &reference, &all, "creation")?;
        for (i, op) in ops.iter().enumerate() {
            let what = format!("step {} {}", i, op.to_json());
            match op {
                SetOp::Insert(s, x) => {
                    imp[*s].insert(*x);
                }
                SetOp::Union(a, b) => {
                    imp[*a].union(&imp[*b]);
                }
                SetOp::Intersect(a, b) => {
                    imp[*a].intersect(&imp[*b]);
                }
                SetOp::Complement(a, b) => {
                    imp[*a].complement(&imp[*b]);
                }
                SetOp::Empty(s) => {
                    imp[*s].empty();
                }
                SetOp::Universe(s) => {
                    imp[*s].universe();
                }
                SetOp::Query(s) => {
                    ask(&imp, &reference, &[*s], &what)?;
                    continue;
                }
                SetOp::Singleton(s, x) => {
                    imp[*s] = BDDSet::from_element(*x, bits, &env);
                }
            }
            apply_ref(&mut reference, bits, op);
            ask(&imp, &reference, &all, &what)?;
        }
        Ok(())
    })
}

fn all_ops(bits: usize, nsets: usize) -> Vec<SetOp> {
    let mut v = Vec::new();
    for s in 0..nsets {
        for x in 0..(1usize << bits) {
            v.push(SetOp::Insert(s, x));
        }
        v.push(SetOp::Empty(s));
        v.push(SetOp::Universe(s));
        for o in 0..nsets {
            v.push(SetOp::Union(s, o));
            v.push(SetOp::Intersect(s, o));
            v.push(SetOp::Complement(s, o));
        }
    }
    v
}

fn record(bits: usize, ops: &[SetOp], st: &mut Stats) {
    st.eval();
    for o in ops {
        st.class(&format!("op:{}", o.name()));
    }
    let nt = ops.len() >= 2
        && ops
            .iter()
            .any(|o| matches!(o, SetOp::Union(..) | SetOp::Intersect(..) | SetOp::Complement(..)));
    let j = case_json(bits, 2, ops);
    if nt {
        if st.nontrivial(fnv_str(&j.to_string())) {
            st.nt_sample(|| j.clone());
        }
    } else if st.want_sample() {
        st.sample(j);
    }
}

/// breadth-first over every reachable pair of reference states; returns shortest paths
fn reachable_paths(bits: usize, nsets: usize, max_depth: usize) -> Vec<Vec<SetOp>> {
    let ops = all_ops(bits, nsets);
    let start: Vec<BTreeSet<usize>> = vec![BTreeSet::new(); nsets];
    let mut seen: HashMap<Vec<BTreeSet<usize>>, Vec<SetOp>> = HashMap::new();
    let mut q = VecDeque::new();
    seen.insert(start.clone(), vec![]);
    q.push_back(start);
    while let Some(s) = q.pop_front() {
        let path = seen[&s].clone();
        if path.len() >= max_depth {
            continue;
        }
        for op in &ops {
            let mut n = s.clone();
            apply_ref(&mut n, bits, op);
            if !seen.contains_key(&n) {
                let mut p = path.clone();
                p.push(op.clone());
                seen.insert(n.clone(), p);
                q.push_back(n);
            }
        }
    }
    let mut paths: Vec<Vec<SetOp>> = seen.into_values().collect();
    paths.sort_by(|a, b| (a.len(), format!("{:?}", a)).cmp(&(b.len(), format!("{:?}", b))));
    paths
}

pub fn run(ctx: &mut Ctx) -> Result<(), Violation> {
    ctx.rule = "model-based: two (random stage: three) BDDSets sharing one environment against BTreeSet<usize> references. Exhaustive: for bits b in {1,2} breadth-first over EVERY reachable pair of reference states (4x4 resp. 16x16), \
                the implementation state rebuilt by replaying a shortest operation path, then every next operation (insert(x) on either set, union/intersect/complement with operands (A,B),(B,A),(A,A),(B,B), empty, universe); \
                after every operation the last query made before it is repeated first, then all membership queries of all sets are asked twice (rotating start, alternating direction) and compared. Random: histories of <= 40 operations for b <= 3 and three sets, including replacing a set by from_element(x). \
                Wide stage: element widths b in {4, 8, 9, 16, 17, 31, 32, 33, 48, 63, 64} with elements at the ends of the range and around byte / word boundaries; reference sets are finite or co-finite; queries = every mentioned element, its one-bit neighbours, its mirror image, 0 and 2^b - 1, after every operation. \
                Non-trivial = history of >= 2 operations containing a binary set operation; distinct by operation list."
        .to_string();
    ctx.assume("elements are b-bit integers (0..2^b); all sets of a history share one environment");

    for bits in [1usize, 2] {
        let paths = reachable_paths(bits, 2, 12);
        let ops = all_ops(bits, 2);
        let expect_states = (1usize << (1 << bits)) * (1usize << (1 << bits));
        if paths.len() != expect_states {
            return Err(Violation::new(
                format!("HARNESS: reached {} of {} reference state pairs", paths.len(), expect_states),
                json!({}),
            ));
        }
        let n = (paths.len() * ops.len()) as u64;
        let r = par_exhaustive(ctx, n, |i, st| {
            let p = &paths[i as usize / ops.len()];
            let mut h = p.clone();
            h.push(ops[i as usize % ops.len()].clone());
            record(bits, &h, st);
            check_history(bits, 2, &h)
        });
        ctx.extra.insert(
            format!("reference_state_pairs_b{}", bits),
            json!(paths.len()),
        );
        ctx.stage(&format!("all-state-pairs-x-all-ops-b{}", bits), true, r)?;
    }

    {
        // b = 3: every reference state pair reachable within 2 (thorough 3) operations, every next op
        let paths = reachable_paths(3, 2, ctx.tier.pick(2, 3));
        let ops = all_ops(3, 2);
        let n = (paths.len() * ops.len()) as u64;
        let r = par_exhaustive(ctx, n, |i, st| {
            let p = &paths[i as usize / ops.len()];
            let mut h = p.clone();
            h.push(ops[i as usize % ops.len()].clone());
            record(3, &h, st);
            check_history(3, 2, &h)
        });
        ctx.stage("b3-states-within-short-depth-x-all-ops", true, r)?;
    }

    if ctx.tier == Tier::Thorough {
        // b = 3: EVERY pair of reference states (256 x 256) x every next operation
        let paths = reachable_paths(3, 2, 20);
        let ops = all_ops(3, 2);
        if paths.len() != 256 * 256 {
            return Err(Violation::new(format!("HARNESS: reached {} of 65536 state pairs for b = 3", paths.len()), json!({})));
        }
        let n = (paths.len() * ops.len()) as u64;
        let r = par_exhaustive(ctx, n, |i, st| {
            let p = &paths[i as usize / ops.len()];
            let mut h = p.clone();
            h.push(ops[i as usize % ops.len()].clone());
            record(3, &h, st);
            check_history(3, 2, &h)
        });
        ctx.stage("all-state-pairs-x-all-ops-b3", true, r)?;
    }

    let cases = ctx.tier.cases(40_000, 4_000_000);
    let r = par_random(ctx, "random", cases, 130, |tape, st| {
        let mut t = Tape::new(tape);
        let bits = 1 + t.choose(3);
        let nsets = 3;
        let n = t.choose(41);
        let mut h = Vec::new();
        for _ in 0..n {
            if t.exhausted() {
                break;
            }
            let s = t.choose(nsets);
            let o = t.choose(nsets);
            h.push(match t.choose(10) {
                0..=2 => SetOp::Insert(s, t.choose(1 << bits)),
                3 | 4 => SetOp::Union(s, o),
                5 | 6 => SetOp::Intersect(s, o),
                7 => SetOp::Complement(s, o),
                8 => match t.choose(3) {
                    0 => SetOp::Empty(s),
                    1 => SetOp::Universe(s),
                    _ => SetOp::Singleton(s, t.choose(1 << bits)),
                },
                _ => SetOp::Query(s),
            });
        }
        record(bits, &h, st);
        check_history(bits, nsets, &h)
    });
    ctx.stage("random-histories-3-sets", false, r)?;

    // element widths up to the machine word
    let cases = ctx.tier.cases(1_500, 300_000);
    let r = par_random(ctx, "random-wide", cases, 260, |tape, st| {
        let mut t = Tape::new(tape);
        let bits = [4usize, 8, 9, 16, 17, 31, 32, 33, 48, 63, 64][t.choose(11)];
        let nsets = 3;
        let n = 1 + t.choose(14);
        let mut h = Vec::new();
        for _ in 0..n {
            if t.exhausted() {
                break;
            }
            let s = t.choose(nsets);
            let o = t.choose(nsets);
            h.push(match t.choose(10) {
                0..=3 => SetOp::Insert(s, gen_wide_elem(&mut t, bits)),
                4 => SetOp::Union(s, o),
                5 => SetOp::Intersect(s, o),
                6 | 7 => SetOp::Complement(s, o),
                8 => match t.choose(3) {
                    0 => SetOp::Empty(s),
                    1 => SetOp::Universe(s),
                    _ => SetOp::Singleton(s, gen_wide_elem(&mut t, bits)),
                },
                _ => SetOp::Universe(s),
            });
        }
        st.eval();
        st.class(&format!("wide:b={}", bits));
        for op in &h {
            st.class(op.name());
        }
        let j = wide_json(bits, nsets, &h);
        if h.len() >= 2 && h.iter().any(|o| matches!(o, SetOp::Union(..) | SetOp::Intersect(..) | SetOp::Complement(..))) {
            if st.nontrivial(fnv_str(&j.to_string())) {
                st.nt_sample(|| j.clone());
            }
        }
        check_history_wide(bits, nsets, &h)
    });
    ctx.stage("random-histories-wide-elements", false, r)?;
    Ok(())
}


// ---------------------------------------------------------------- wide elements (b up to 64)

/// finite or co-finite subset of the b-bit integers: the family insert / union / intersect /
/// difference / empty / universe stay inside
#[derive(Clone, Debug, Default)]
struct Fc {
    elems: BTreeSet<usize>,
    co: bool,
}

impl Fc {
    fn contains(&self, x: usize) -> bool {
        self.elems.contains(&x) != self.co
    }
    fn insert(&mut self, x: usize) {
        if self.co {
            self.elems.remove(&x);
        } else {
            self.elems.insert(x);
        }
    }
    fn not(&self) -> Fc {
        Fc { elems: self.elems.clone(), co: !self.co }
    }
    fn intersect(&self, o: &Fc) -> Fc {
        match (self.co, o.co) {
            (false, false) => Fc { elems: self.elems.intersection(&o.elems).copied().collect(), co: false },
            (true, true) => Fc { elems: self.elems.union(&o.elems).copied().collect(), co: true },
            (false, true) => Fc { elems: self.elems.difference(&o.elems).copied().collect(), co: false },
            (true, false) => Fc { elems: o.elems.difference(&self.elems).copied().collect(), co: false },
        }
    }
    fn union(&self, o: &Fc) -> Fc {
        self.not().intersect(&o.not()).not()
    }
}

fn wide_json(bits: usize, nsets: usize, ops: &[SetOp]) -> Value {
    json!({"kind": "set-history-wide", "bits": bits, "sets": nsets, "ops": ops.iter().map(|o| o.to_json()).collect::<Vec<_>>()})
}

/// The same history check for element widths up to 64 bits: the reference sets are finite /
/// co-finite, the membership queries are the elements the history mentions, their neighbours
/// (one bit flipped: lowest, highest, each byte boundary), 0 and 2^b - 1.
pub fn check_history_wide(bits: usize, nsets: usize, ops: &[SetOp]) -> Check {
    let cj = wide_json(bits, nsets, ops);
    let v = |m: String| Violation::new(m, cj.clone());
    let max: usize = if bits >= 64 { usize::MAX } else { (1usize << bits) - 1 };
    let mut probes: BTreeSet<usize> = BTreeSet::new();
    probes.insert(0);
    probes.insert(max);
    for op in ops {
        if let SetOp::Insert(_, x) | SetOp::Singleton(_, x) = op {
            probes.insert(*x);
            for k in [0usize, 8, 31, 32, 63] {
                if k < bits {
                    probes.insert(*x ^ (1usize << k));
                }
            }
            probes.insert(*x ^ (1usize << (bits - 1)));
            probes.insert(max - *x);
        }
    }
    let probes: Vec<usize> = probes.into_iter().collect();
    guarded(&cj.clone(), || {
        let env = Rc::new(BDDEnv::<usize>::new());
        let mut imp: Vec<BDDSet> = (0..nsets).map(|_| BDDSet::with_env(bits, &env)).collect();
        let mut reference: Vec<Fc> = vec![Fc::default(); nsets];
        let ask = |imp: &Vec<BDDSet>, reference: &Vec<Fc>, after: &str, rev: bool| -> Check {
            for s in 0..imp.len() {
                for i in 0..probes.len() {
                    let x = if rev { probes[probes.len() - 1 - i] } else { probes[i] };
                    let got = imp[s].contains(x);
                    let want = reference[s].contains(x);
                    if got != want {
                        return Err(v(format!(
                            "after {}: set {} contains({:#x}) = {} but the reference ({} {:x?}) says {}",
                            after,
                            s,
                            x,
                            got,
                            if reference[s].co { "everything except" } else { "exactly" },
                            reference[s].elems,
                            want
                        )));
                    }
                }
            }
            Ok(())
        };
        for (i, op) in ops.iter().enumerate() {
            let what = format!("step {} {}", i, op.to_json());
            match op {
                SetOp::Insert(s, x) => {
                    imp[*s].insert(*x);
                    reference[*s].insert(*x);
                }
                SetOp::Union(a, b) => {
                    imp[*a].union(&imp[*b]);
                    reference[*a] = reference[*a].union(&reference[*b]);
                }
                SetOp::Intersect(a, b) => {
                    imp[*a].intersect(&imp[*b]);
                    reference[*a] = reference[*a].intersect(&reference[*b]);
                }
                SetOp::Complement(a, b) => {
                    imp[*a].complement(&imp[*b]);
                    reference[*a] = reference[*a].intersect(&reference[*b].not());
                }
                SetOp::Empty(s) => {
                    imp[*s].empty();
                    reference[*s] = Fc::default();
                }
                SetOp::Universe(s) => {
                    imp[*s].universe();
                    reference[*s] = Fc { elems: BTreeSet::new(), co: true };
                }
                SetOp::Query(_) => {}
                SetOp::Singleton(s, x) => {
                    imp[*s] = BDDSet::from_element(*x, bits, &env);
                    reference[*s] = Fc::default();
                    reference[*s].insert(*x);
                }
            }
            ask(&imp, &reference, &what, i % 2 == 1)?;
        }
        Ok(())
    })
}

fn gen_wide_elem(t: &mut Tape, bits: usize) -> usize {
    let max: usize = if bits >= 64 { usize::MAX } else { (1usize << bits) - 1 };
    let mut x: usize = 0;
    match t.choose(5) {
        0 => x = t.choose(4),
        1 => x = max - t.choose(4),
        2 => x = (1usize << (bits - 1)) ^ t.choose(4),
        3 => {
            // one bit around a byte / word boundary plus noise
            let k = [7usize, 8, 15, 16, 31, 32, 33, 47, 62, 63][t.choose(10)].min(bits - 1);
            x = (1usize << k) | t.choose(3);
        }
        _ => {
            for _ in 0..8 {
                x = (x << 8) | t.byte() as usize;
            }
        }
    }
    x & max
}

pub fn replay(case: &Value) -> Check {
    if case["kind"].as_str() == Some("set-history-wide") {
        let bits = case["bits"].as_u64().unwrap_or(0) as usize;
        let nsets = case["sets"].as_u64().unwrap_or(0) as usize;
        let ops: Option<Vec<SetOp>> = case["ops"].as_array().map(|a| a.iter().filter_map(SetOp::from_json).collect());
        return match ops {
            Some(o) if (1..=64).contains(&bits) && (1..=4).contains(&nsets) => {
                let max: usize = if bits >= 64 { usize::MAX } else { (1usize << bits) - 1 };
                let ok = o.iter().all(|op| match op {
                    SetOp::Insert(s, x) | SetOp::Singleton(s, x) => *s < nsets && *x <= max,
                    SetOp::Union(a, b) | SetOp::Intersect(a, b) | SetOp::Complement(a, b) => *a < nsets && *b < nsets,
                    SetOp::Empty(s) | SetOp::Universe(s) | SetOp::Query(s) => *s < nsets,
                });
                if ok {
                    check_history_wide(bits, nsets, &o)
                } else {
                    Err(Violation::new("unreadable replay case", case.clone()))
                }
            }
            _ => Err(Violation::new("unreadable replay case", case.clone())),
        };
    }
    let bits = case["bits"].as_u64().unwrap_or(0) as usize;
    let nsets = case["sets"].as_u64().unwrap_or(0) as usize;
    let ops: Option<Vec<SetOp>> = case["ops"].as_array().map(|a| a.iter().filter_map(SetOp::from_json).collect());
    match ops {
        Some(o) if bits >= 1 && bits <= 6 && nsets >= 1 && nsets <= 4 => {
            let ok = o.iter().all(|op| match op {
                SetOp::Insert(s, x) => *s < nsets && *x < (1 << bits),
                SetOp::Union(a, b) | SetOp::Intersect(a, b) | SetOp::Complement(a, b) => *a < nsets && *b < nsets,
                SetOp::Empty(s) | SetOp::Universe(s) | SetOp::Query(s) => *s < nsets,
                SetOp::Singleton(s, x) => *s < nsets && *x < (1 << bits),
            });
            if ok {
                check_history(bits, nsets, &o)
            } else {
                Err(Violation::new("unreadable replay case", case.clone()))
            }
        }
        _ => Err(Violation::new("unreadable replay case", case.clone())),
    }
}
