//! C10 — the printed truth table is a faithful partition of the assignment space.

use crate::cli::{self, Printed};
use crate::engine::*;
use crate::gen::{self, Cfg};
use crate::props::c01::project;
use crate::props::c09::expected_ids;
use crate::rlex;
use crate::rparse;
use crate::rprint;
use crate::rsem;
use crate::tt::TT;
use crate::util::{fnv_str, Tape};
use serde_json::{json, Value};
use std::collections::BTreeSet;
use std::time::Duration;

pub const FILTERS: [(&str, char); 15] = [
    ("true", 't'),
    ("True", 't'),
    ("t", 't'),
    ("T", 't'),
    ("1", 't'),
    ("false", 'f'),
    ("False", 'f'),
    ("f", 'f'),
    ("F", 'f'),
    ("0", 'f'),
    ("any", 'a'),
    ("Any", 'a'),
    ("a", 'a'),
    ("A", 'a'),
    ("*", 'a'),
];

/// What the reference knows about a formula under an (optional) ordering file.
pub struct Expect {
    /// names listed by the ordering file (file order), empty without one
    pub listed: Vec<String>,
    pub names: Vec<String>,
    /// free variables in variable order
    pub header: Vec<String>,
    /// all identifiers in variable order
    pub vars: Vec<String>,
    /// the function over `header`
    pub table: TT,
}

/// names listed by an ordering file, in order of first appearance (None = not lexable)
pub fn ordering_names(file: &str) -> Option<Vec<String>> {
    rlex::lex(file).ok().map(|t| rlex::identifiers(&t))
}

pub fn expect(text: &str, ordering_file: Option<&str>) -> Result<Expect, String> {
    let parsed = rparse::parse_text(text.as_bytes()).map_err(|e| format!("HARNESS: reference parser: {}", e))?;
    let idents = rlex::identifiers(&parsed.tokens);
    let ord = match ordering_file {
        None => None,
        Some(f) => Some(
            ordering_names(f)
                .ok_or("HARNESS: ordering file is not lexable")?
                .into_iter()
                .enumerate()
                .map(|(i, n)| (n, i))
                .collect::<Vec<_>>(),
        ),
    };
    let ids = expected_ids(&idents, &ord);
    let vars: Vec<String> = ids.iter().map(|x| x.0.clone()).collect();
    let fv: BTreeSet<String> = parsed.ast.free_vars();
    let header: Vec<String> = vars.iter().filter(|n| fv.contains(*n)).cloned().collect();
    let full = rsem::table(&parsed.ast, &idents).map_err(|e| format!("HARNESS: reference semantics: {:?}", e))?;
    for (p, n) in idents.iter().enumerate() {
        if !fv.contains(n) && full.depends_on(p) {
            return Err(format!("HARNESS: reference table depends on bound name {}", n));
        }
    }
    let table = project(&full, &idents, &header);
    let listed: Vec<String> = ord.as_ref().map(|o| o.iter().map(|x| x.0.clone()).collect()).unwrap_or_default();
    Ok(Expect {
        listed,
        names: idents,
        header,
        vars,
        table,
    })
}

#[derive(Clone, Debug)]
pub struct Invocation {
    pub text: String,
    /// "arg" | "file" | "stdin"
    pub channel: String,
    pub ordering_file: Option<String>,
    /// subset of: -t, -v, -m, -r ; plus -f X / -b N as pairs
    pub flags: Vec<String>,
}

impl Invocation {
    pub fn to_json(&self) -> Value {
        json!({"kind": "invocation", "text": self.text, "channel": self.channel, "ordering_file": self.ordering_file, "flags": self.flags})
    }
    pub fn from_json(v: &Value) -> Option<Invocation> {
        Some(Invocation {
            text: v["text"].as_str()?.to_string(),
            channel: v["channel"].as_str()?.to_string(),
            ordering_file: v["ordering_file"].as_str().map(|s| s.to_string()),
            flags: v["flags"].as_array()?.iter().filter_map(|x| x.as_str().map(|s| s.to_string())).collect(),
        })
    }
    fn has(&self, f: &str) -> bool {
        self.flags.iter().any(|x| x == f)
    }
    fn filter(&self) -> char {
        let mut it = self.flags.iter();
        while let Some(f) = it.next() {
            if f == "-f" {
                if let Some(v) = it.next() {
                    return FILTERS.iter().find(|(s, _)| s == v).map(|x| x.1).unwrap_or('a');
                }
            }
        }
        'a'
    }
}

pub fn spawn(inv: &Invocation) -> Result<String, String> {
    let scratch = cli::Scratch::new();
    let mut args: Vec<String> = Vec::new();
    let mut stdin: Option<Vec<u8>> = None;
    let needs_file = inv.text.contains('\0');
    match inv.channel.as_str() {
        "arg" if !needs_file => args.push(format!("--evaluate={}", inv.text)),
        "stdin" => stdin = Some(inv.text.as_bytes().to_vec()),
        _ => {
            let p = scratch.file(&cli::Scratch::awkward("formula.txt"), inv.text.as_bytes());
            args.push(p.to_string_lossy().into_owned());
        }
    }
    if let Some(o) = &inv.ordering_file {
        let p = scratch.file(&cli::Scratch::awkward("ordering.txt"), o.as_bytes());
        args.push("-o".into());
        args.push(p.to_string_lossy().into_owned());
    }
    args.extend(inv.flags.iter().cloned());
    let out = cli::run(&cli::bin("rsbdd"), &args, stdin.as_deref(), Duration::from_secs(120));
    if out.timed_out {
        return Err("HARNESS: rsbdd timed out".into());
    }
    if !out.ok() {
        if !out.panicked() && crate::front::huge_literal(&inv.text) {
            return Err("SKIP: text with a number literal beyond i64::MAX rejected (acceptance of such literals is implementation-defined)".into());
        }
        return Err(format!("rsbdd exited unsuccessfully on a well-formed formula: {}", out.describe()));
    }
    String::from_utf8(out.stdout).map_err(|_| "stdout is not UTF-8".to_string())
}

/// function printed by a table (rows must be disjoint); returns (true-set, covered-set)
fn printed_function(p: &Printed, k: usize) -> Result<(TT, TT), String> {
    let mut g = TT::konst(k, false);
    let mut cov = TT::konst(k, false);
    for (row, res) in &p.rows {
        if row.len() != k {
            return Err(format!("row with {} cells for {} columns", row.len(), k));
        }
        for idx in 0..(1usize << k) {
            let covered = row.iter().enumerate().all(|(c, cell)| match cell {
                cli::Cell::Any => true,
                cli::Cell::True => (idx >> c) & 1 == 1,
                cli::Cell::False => (idx >> c) & 1 == 0,
            });
            if covered {
                if cov.get(idx) {
                    return Err(format!("assignment {:#b} is covered by two rows", idx));
                }
                cov.set(idx, true);
                if *res {
                    g.set(idx, true);
                }
            }
        }
    }
    Ok((g, cov))
}

/// Check one invocation's stdout against the reference.
pub fn check_output(inv: &Invocation, stdout: &str, ex: &Expect) -> Result<(), String> {
    let p = cli::parse_stdout(stdout)?;
    let filter = inv.filter();
    let k = ex.header.len();
    // The variable order is prescribed only for names listed in the ordering file (file order);
    // where unlisted names go is the tool's choice. What is judged: -r lists every identifier once,
    // listed names in file order; the header is the free variables in that same order.
    let respects_listed = |seq: &[String]| -> bool {
        let pos: Vec<usize> = seq.iter().filter_map(|n| ex.listed.iter().position(|l| l == n)).collect();
        pos.windows(2).all(|w| w[0] < w[1])
    };
    if inv.has("-r") {
        let mut got = p.ordering.clone();
        got.sort();
        let mut want = ex.vars.clone();
        want.sort();
        if got != want {
            return Err(format!(
                "-r exported {:?}, which is not every variable of the formula exactly once ({:?})",
                p.ordering, ex.vars
            ));
        }
        if !respects_listed(&p.ordering) {
            return Err(format!("-r exported {:?}, which does not follow the ordering file {:?}", p.ordering, ex.listed));
        }
    } else if !p.ordering.is_empty() {
        return Err(format!("unexpected lines before the table: {:?}", p.ordering));
    }
    // the function over the header's own column order
    let mut table = ex.table.clone();
    let mut header_used = ex.header.clone();
    if let Some(header) = p.header.as_ref() {
        let mut got = header.clone();
        got.sort();
        let mut want = ex.header.clone();
        want.sort();
        if got != want {
            return Err(format!("header {:?} is not exactly the free variables {:?}", header, ex.header));
        }
        if !respects_listed(header) {
            return Err(format!("header {:?} does not follow the ordering file {:?}", header, ex.listed));
        }
        if inv.has("-r") {
            let sub: Vec<&String> = p.ordering.iter().filter(|n| header.contains(n)).collect();
            if sub != header.iter().collect::<Vec<_>>() {
                return Err(format!("header {:?} is not in the variable order exported by -r {:?}", header, p.ordering));
            }
        }
        table = project(&ex.table, &ex.header, header);
        header_used = header.clone();
    }
    let ex = &Expect {
        listed: ex.listed.clone(),
        names: ex.names.clone(),
        header: header_used,
        vars: ex.vars.clone(),
        table,
    };
    if inv.has("-t") {
        let _header = p.header.as_ref().ok_or("no table printed under -t")?;
        if inv.has("-m") {
            // the printed function is a model: a cube inside f, non-empty iff f satisfiable
            // (which False rows accompany the model is not prescribed: C10 does not speak of -m,
            // C07 only of the satisfying row; only rows excluded by the filter are judged)
            let (g, cov) = printed_function(&p, k)?;
            let bad = match filter {
                't' => cov != g,
                'f' => !g.is_false(),
                _ => false,
            };
            if bad {
                return Err("rows under -m include rows the filter excludes".into());
            }
            if filter != 'f' {
                if g.is_false() != ex.table.is_false() {
                    return Err(format!(
                        "-m prints {} satisfying rows for a formula that is {}",
                        if g.is_false() { "no" } else { "some" },
                        if ex.table.is_false() { "unsatisfiable" } else { "satisfiable" }
                    ));
                }
                if !g.leq(&ex.table) {
                    return Err("the -m row covers an assignment that does not satisfy the formula".into());
                }
                if !g.is_false() && g.as_cube().is_none() {
                    return Err("the -m rows are not a single cube".into());
                }
                if p.rows.iter().filter(|r| r.1).count() > 1 {
                    return Err("-m printed more than one satisfying row".into());
                }
            }
        } else {
            cli::check_rows(&p.rows, &ex.table, filter)?;
        }
    } else if p.header.is_some() {
        return Err("a table was printed without -t".into());
    }
    if inv.has("-v") {
        if inv.has("-m") {
            // lines describe the model cube
            let mut rows = Vec::new();
            for l in &p.var_lines {
                let mut row = vec![cli::Cell::False; k];
                for (name, star) in l {
                    let pos = ex.header.iter().position(|h| h == name).ok_or(format!("-v lists `{}`", name))?;
                    row[pos] = if *star { cli::Cell::Any } else { cli::Cell::True };
                }
                rows.push((row, true));
            }
            let pp = Printed {
                rows,
                ..Default::default()
            };
            let (g, _) = printed_function(&pp, k)?;
            if g.is_false() != ex.table.is_false() || !g.leq(&ex.table) {
                return Err("-m -v does not list one satisfying cube".into());
            }
        } else {
            cli::check_var_lines(&p.var_lines, &ex.header, &ex.table).map_err(|e| format!("-v: {}", e))?;
        }
    } else if !p.var_lines.is_empty() {
        return Err("-v lines printed without -v".into());
    }
    Ok(())
}

pub fn check_invocation(inv: &Invocation) -> Result<String, Violation> {
    let cj = inv.to_json();
    let v = |m: String| Violation::new(m, cj.clone());
    let ex = expect(&inv.text, inv.ordering_file.as_deref()).map_err(|e| v(e))?;
    let out = spawn(inv).map_err(|e| v(e))?;
    check_output(inv, &out, &ex).map_err(|e| v(format!("{} -- stdout:\n{}", e, out)))?;
    Ok(out)
}

/// An ordering file text for the given names: separators, comments, duplicates, keywords, numbers
pub fn render_ordering(names: &[String], t: &mut Tape) -> String {
    let mut s = String::new();
    if t.chance(40) {
        s.push_str("\"variable order\"\n");
    }
    for (i, n) in names.iter().enumerate() {
        if i > 0 {
            s.push_str([" ", "\n", ", ", "\t", " ; ", " \"c\" ", ",", " . "][t.choose(8)]);
        }
        s.push_str(n);
        if t.chance(30) {
            // duplicate of an earlier name: first appearance counts
            let j = t.choose(i + 1);
            s.push(' ');
            s.push_str(&names[j]);
        }
        if t.chance(25) {
            s.push(' ');
            s.push_str(["and", "true", "12", "#", "(", "=>", "exists", "]"][t.choose(8)]);
        }
    }
    s.push_str(["", "\n", " ", "\n\n"][t.choose(4)]);
    s
}

/// ordering variants over the formula's identifiers
pub fn gen_ordering_names(idents: &[String], t: &mut Tape) -> (Vec<String>, &'static str) {
    let mut names: Vec<String> = idents.to_vec();
    let kind = match t.choose(5) {
        0 => {
            // permutation
            for i in (1..names.len()).rev() {
                let j = t.choose(i + 1);
                names.swap(i, j);
            }
            "permutation"
        }
        1 => {
            names.retain(|_| t.flag());
            for i in (1..names.len()).rev() {
                let j = t.choose(i + 1);
                names.swap(i, j);
            }
            "strict-subset"
        }
        2 => {
            for (k, extra) in ["unused_front", "unused_mid", "unused_back"].iter().enumerate() {
                if t.chance(170) {
                    let at = match k {
                        0 => 0,
                        1 => names.len() / 2,
                        _ => names.len(),
                    };
                    names.insert(at, extra.to_string());
                }
            }
            "superset-in-order"
        }
        3 => {
            for i in (1..names.len()).rev() {
                let j = t.choose(i + 1);
                names.swap(i, j);
            }
            names.insert(0, "unused_front".into());
            let m = names.len() / 2;
            names.insert(m, "unused_mid".into());
            names.push("unused_back".into());
            "superset-permuted"
        }
        _ => {
            names.reverse();
            "reversed"
        }
    };
    (names, kind)
}

pub fn gen_formula_text(t: &mut Tape, max_free: usize) -> Option<(String, Vec<String>)> {
    let mut cfg = Cfg::standard(2 + t.choose(5), 1 + t.choose(5));
    // names of different widths, with apostrophes and non-ASCII
    cfg.names = ["a", "b", "long_variable_name", "x'", "\u{e9}t\u{e9}", "_", "q2"]
        .iter()
        .take(cfg.names.len())
        .map(|s| s.to_string())
        .collect();
    cfg.max_list = 3;
    if t.chance(140) {
        cfg.allow_fix = false;
    }
    if t.chance(100) {
        cfg.allow_quant = false;
    }
    let mut ast = gen::formula(t, &cfg);
    // by construction most cases have >= 2 free variables and a contingent function:
    // (f xor x) op y with two free names (which may also occur bound inside f)
    if t.chance(200) && cfg.names.len() >= 2 {
        use crate::rast::{BinOp, RAst};
        let x = cfg.names[t.choose(cfg.names.len())].clone();
        let mut y = cfg.names[t.choose(cfg.names.len())].clone();
        if y == x {
            y = cfg.names[(cfg.names.iter().position(|n| *n == x).unwrap() + 1) % cfg.names.len()].clone();
        }
        let inner = RAst::bin(BinOp::Xor, ast, RAst::Var(x));
        let op = [BinOp::And, BinOp::Or, BinOp::Implies, BinOp::Nand][t.choose(4)];
        ast = if t.flag() { RAst::bin(op, inner, RAst::Var(y)) } else { RAst::bin(op, RAst::Var(y), inner) };
    }
    if ast.free_vars().len() > max_free {
        return None;
    }
    let mut idents = Vec::new();
    ast.names_in_order(&mut idents);
    if idents.len() > 9 {
        return None;
    }
    let text = if t.flag() { rprint::decorated(&ast, t) } else { rprint::plain(&ast) };
    match rparse::parse_text(text.as_bytes()) {
        Ok(p) if p.ast == ast => Some((text, idents)),
        _ => None,
    }
}

/// the per-formula battery of invocations
pub fn battery(text: &str, idents: &[String], t: &mut Tape, st: &mut Stats) -> Check {
    let base = Invocation {
        text: text.to_string(),
        channel: "arg".into(),
        ordering_file: None,
        flags: vec!["-t".into()],
    };
    let base_out = check_invocation(&base)?;
    st.eval();
    st.class("invocation:-t");
    // filters
    for _ in 0..2 {
        let (sp, _) = FILTERS[t.choose(FILTERS.len())];
        let inv = Invocation {
            flags: vec!["-t".into(), "-f".into(), sp.to_string()],
            ..base.clone()
        };
        check_invocation(&inv)?;
        st.eval();
        st.class(&format!("filter-spelling:{}", sp));
    }
    // -v, -t -v (with a filter), -m -t
    let fl = FILTERS[t.choose(FILTERS.len())].0.to_string();
    for flags in [
        vec!["-v".to_string()],
        vec!["-t".to_string(), "-v".to_string(), "-f".to_string(), fl.clone()],
        vec!["-m".to_string(), "-t".to_string()],
        vec!["-m".to_string(), "-v".to_string()],
        vec!["-r".to_string(), "-t".to_string()],
    ] {
        let inv = Invocation {
            flags: flags.clone(),
            ..base.clone()
        };
        check_invocation(&inv)?;
        st.eval();
        st.class(&format!("invocation:{}", flags.iter().filter(|f| f.starts_with('-')).cloned().collect::<Vec<_>>().join(" ")));
    }
    // channels and benchmark repetitions: byte-identical stdout
    for (channel, extra) in [
        ("file", vec![]),
        ("stdin", vec![]),
        ("arg", vec!["-b".to_string(), (1 + t.choose(3)).to_string()]),
    ] {
        let mut flags = vec!["-t".to_string()];
        flags.extend(extra.clone());
        let inv = Invocation {
            channel: channel.to_string(),
            flags,
            ..base.clone()
        };
        let out = check_invocation(&inv)?;
        st.eval();
        st.class(&format!("channel:{}{}", channel, if extra.is_empty() { "" } else { " -b N" }));
        if out != base_out {
            return Err(Violation::new(
                format!(
                    "stdout differs between --evaluate and {}{}:\n{}\n--- vs ---\n{}",
                    channel,
                    if extra.is_empty() { "" } else { " with -b" },
                    base_out,
                    out
                ),
                inv.to_json(),
            ));
        }
    }
    // ordering file variants
    let (names, kind) = gen_ordering_names(idents, t);
    let file = render_ordering(&names, t);
    {
        let mut flags = vec!["-t".to_string()];
        if t.flag() {
            flags.push("-f".into());
            flags.push(FILTERS[t.choose(FILTERS.len())].0.to_string());
        }
        if t.flag() {
            flags.push("-v".into());
        }
        if t.flag() {
            // the exported order must be the order in effect (header = its FV sub-sequence)
            flags.insert(0, "-r".into());
        }
        let inv = Invocation {
            ordering_file: Some(file),
            flags,
            ..base.clone()
        };
        check_invocation(&inv)?;
        st.eval();
        st.class(&format!("ordering:{}", kind));
    }
    Ok(())
}


// ---------------------------------------------------------------- wide formulas (dozens .. hundreds of free variables)

/// `(x0 | -x0) & .. ` fixes the variable order x0 < x1 < ..; the function is
/// cube(all variables outside `gvars`, polarity `pol`) & g(gvars): a diagram of n + a few nodes
/// whose table has about n rows, far beyond what a truth-table oracle can hold.
#[derive(Clone, Debug)]
pub struct Wide {
    pub n: usize,
    pub gvars: Vec<usize>,
    pub g: TT,
    pub pol: Vec<bool>,
    pub flags: Vec<String>,
    /// positions listed in an ordering file (file order), empty = no file
    pub listed: Vec<usize>,
}

fn wname(i: usize) -> String {
    format!("x{:03}", i)
}

impl Wide {
    pub fn to_json(&self) -> Value {
        json!({"kind": "wide", "n": self.n, "gvars": self.gvars, "g": self.g.to_hex(),
            "pol": self.pol.iter().map(|b| if *b { '1' } else { '0' }).collect::<String>(),
            "flags": self.flags, "listed": self.listed, "text": self.text()})
    }
    pub fn from_json(v: &Value) -> Option<Wide> {
        let us = |x: &Value| -> Option<Vec<usize>> { x.as_array()?.iter().map(|y| y.as_u64().map(|u| u as usize)).collect() };
        let w = Wide {
            n: v["n"].as_u64()? as usize,
            gvars: us(&v["gvars"])?,
            g: TT::from_hex(v["g"].as_str()?)?,
            pol: v["pol"].as_str()?.chars().map(|c| c == '1').collect(),
            flags: v["flags"].as_array()?.iter().filter_map(|x| x.as_str().map(|s| s.to_string())).collect(),
            listed: us(&v["listed"])?,
        };
        if w.pol.len() != w.n || w.g.k != w.gvars.len() || w.gvars.iter().any(|i| *i >= w.n) || w.listed.iter().any(|i| *i >= w.n) {
            return None;
        }
        Some(w)
    }
    pub fn text(&self) -> String {
        let mut s = String::new();
        for i in 0..self.n {
            if self.gvars.contains(&i) {
                s.push_str(&format!("({} | -{}) & ", wname(i), wname(i)));
            } else if self.pol[i] {
                s.push_str(&format!("{} & ", wname(i)));
            } else {
                s.push_str(&format!("-{} & ", wname(i)));
            }
        }
        let names: Vec<String> = self.gvars.iter().map(|i| wname(*i)).collect();
        s.push_str(&format!("({})", crate::front::dnf_text(&self.g, &names)));
        s
    }
    /// value of the function on the assignments covered by a row (by variable index): Some(v) if
    /// constant, None if the row covers assignments with both values
    fn value_on(&self, row: &[cli::Cell]) -> Option<bool> {
        // a literal contradicted -> false everywhere
        for i in 0..self.n {
            if self.gvars.contains(&i) {
                continue;
            }
            match (&row[i], self.pol[i]) {
                (cli::Cell::True, false) | (cli::Cell::False, true) => return Some(false),
                _ => {}
            }
        }
        // g restricted to the row's cells
        let k = self.gvars.len();
        let mut seen_t = false;
        let mut seen_f = false;
        for idx in 0..(1usize << k) {
            let compatible = self.gvars.iter().enumerate().all(|(p, i)| match row[*i] {
                cli::Cell::Any => true,
                cli::Cell::True => (idx >> p) & 1 == 1,
                cli::Cell::False => (idx >> p) & 1 == 0,
            });
            if compatible {
                if self.g.get(idx) {
                    seen_t = true;
                } else {
                    seen_f = true;
                }
            }
        }
        let cube_open = (0..self.n).any(|i| !self.gvars.contains(&i) && row[i] == cli::Cell::Any);
        if cube_open {
            // some covered assignment contradicts the cube (value false) ..
            if seen_t {
                None
            } else {
                Some(false)
            }
        } else if seen_t && seen_f {
            None
        } else {
            Some(seen_t)
        }
    }
}

/// 512-bit counter: sum of powers of two
#[derive(Clone, PartialEq, Eq, Debug, Default)]
struct Big([u64; 8]);

impl Big {
    fn add_pow2(&mut self, k: usize) {
        let (mut w, b) = (k / 64, k % 64);
        let (v, mut carry) = self.0[w].overflowing_add(1u64 << b);
        self.0[w] = v;
        while carry {
            w += 1;
            let (v, c) = self.0[w].overflowing_add(1);
            self.0[w] = v;
            carry = c;
        }
    }
    fn sub(&self, o: &Big) -> Big {
        let mut out = [0u64; 8];
        let mut borrow = false;
        for i in 0..8 {
            let (a, b1) = self.0[i].overflowing_sub(o.0[i]);
            let (a, b2) = a.overflowing_sub(borrow as u64);
            out[i] = a;
            borrow = b1 || b2;
        }
        Big(out)
    }
}

pub fn check_wide(w: &Wide) -> Check {
    let cj = w.to_json();
    let v = |m: String| Violation::new(m, cj.clone());
    let text = w.text();
    let ordering_file = if w.listed.is_empty() {
        None
    } else {
        Some(w.listed.iter().map(|i| wname(*i)).collect::<Vec<_>>().join("\n"))
    };
    let inv = Invocation {
        text: text.clone(),
        channel: "file".into(),
        ordering_file,
        flags: w.flags.clone(),
    };
    let out = spawn(&inv).map_err(|e| v(e))?;
    let p = cli::parse_stdout(&out).map_err(|e| v(e))?;
    let filter = inv.filter();
    let all: Vec<String> = (0..w.n).map(wname).collect();
    let listed: Vec<String> = w.listed.iter().map(|i| wname(*i)).collect();
    let respects = |seq: &[String]| -> bool {
        let pos: Vec<usize> = seq.iter().filter_map(|n| listed.iter().position(|l| l == n)).collect();
        pos.windows(2).all(|x| x[0] < x[1])
    };
    let set_eq = |a: &[String]| -> bool {
        let mut x = a.to_vec();
        x.sort();
        x == all
    };
    if inv.has("-r") && (!set_eq(&p.ordering) || !respects(&p.ordering)) {
        return Err(v(format!("-r exported {} names that are not the {} variables once each in an order following the file", p.ordering.len(), w.n)));
    }
    // expected counts
    let mut sat = Big::default();
    for idx in 0..(1usize << w.gvars.len()) {
        if w.g.get(idx) {
            sat.add_pow2(0);
        }
    }
    let mut total = Big::default();
    total.add_pow2(w.n);
    let unsat = total.sub(&sat);
    let judge = |rows: &[(Vec<cli::Cell>, bool)], header: &[String], filter: char, what: &str| -> Result<(), String> {
        if !set_eq(header) {
            return Err(format!("{}: the columns are not exactly the {} free variables", what, w.n));
        }
        if what == "-t" && !respects(header) {
            return Err(format!("{}: the columns do not follow the ordering file", what));
        }
        let col: Vec<usize> = header.iter().map(|h| all.iter().position(|a| a == h).expect("name")).collect();
        // rows by variable index
        let mut byvar: Vec<(Vec<cli::Cell>, bool)> = Vec::new();
        for (r, res) in rows {
            if r.len() != w.n {
                return Err(format!("{}: row with {} cells for {} columns", what, r.len(), w.n));
            }
            let mut x = vec![cli::Cell::Any; w.n];
            for (c, cell) in r.iter().enumerate() {
                x[col[c]] = cell.clone();
            }
            byvar.push((x, *res));
        }
        let mut covered = Big::default();
        for (ri, (r, res)) in byvar.iter().enumerate() {
            match w.value_on(r) {
                Some(val) if val == *res => {}
                Some(val) => return Err(format!("{}: row {} says {} but the formula is {} on every assignment it covers", what, ri, res, val)),
                None => return Err(format!("{}: row {} covers assignments on which the formula takes both values", what, ri)),
            }
            match filter {
                't' if !*res => return Err(format!("{}: a False row under filter True", what)),
                'f' if *res => return Err(format!("{}: a True row under filter False", what)),
                _ => {}
            }
            covered.add_pow2(r.iter().filter(|c| **c == cli::Cell::Any).count());
        }
        for a in 0..byvar.len() {
            for b in a + 1..byvar.len() {
                let disjoint = (0..w.n).any(|i| {
                    matches!((&byvar[a].0[i], &byvar[b].0[i]), (cli::Cell::True, cli::Cell::False) | (cli::Cell::False, cli::Cell::True))
                });
                if !disjoint {
                    return Err(format!("{}: rows {} and {} overlap", what, a, b));
                }
            }
        }
        let want = match filter {
            'a' => &total,
            't' => &sat,
            _ => &unsat,
        };
        if &covered != want {
            return Err(format!("{}: the (disjoint, correct) rows do not cover exactly the assignments the filter asks for", what));
        }
        Ok(())
    };
    if inv.has("-t") {
        let header = p.header.clone().ok_or_else(|| v("no table printed under -t".into()))?;
        judge(&p.rows, &header, filter, "-t").map_err(|e| v(format!("{} -- {} rows printed", e, p.rows.len())))?;
    }
    if inv.has("-v") {
        let mut rows = Vec::new();
        for l in &p.var_lines {
            let mut row = vec![cli::Cell::False; w.n];
            for (name, star) in l {
                let pos = all.iter().position(|h| h == name).ok_or_else(|| v(format!("-v lists `{}` which is not a free variable", name)))?;
                row[pos] = if *star { cli::Cell::Any } else { cli::Cell::True };
            }
            rows.push((row, true));
        }
        judge(&rows, &all, 't', "-v").map_err(|e| v(e))?;
    }
    Ok(())
}

pub fn gen_wide(t: &mut Tape) -> Wide {
    const SIZES: [usize; 16] = [1, 2, 7, 31, 32, 33, 63, 64, 65, 66, 70, 96, 127, 128, 129, 200];
    let n = if t.chance(200) { SIZES[t.choose(SIZES.len())] } else { 1 + t.choose(140) };
    let k = t.choose(4).min(n);
    let mut gvars: Vec<usize> = Vec::new();
    while gvars.len() < k {
        // biased towards the ends and the 64-boundaries
        let c = match t.choose(4) {
            0 => n - 1 - t.choose(n.min(3)),
            1 => t.choose(n),
            2 => (63 + t.choose(4)).min(n - 1),
            _ => t.choose(n.min(3)),
        };
        if !gvars.contains(&c) {
            gvars.push(c);
        } else if let Some(free) = (0..n).find(|i| !gvars.contains(i)) {
            gvars.push(free);
        }
    }
    gvars.sort();
    let mut g = TT::konst(k, false);
    let bits = t.byte();
    for idx in 0..(1usize << k) {
        if (bits >> idx) & 1 == 1 {
            g.set(idx, true);
        }
    }
    let pol: Vec<bool> = (0..n).map(|_| t.chance(128)).collect();
    let mut flags: Vec<String> = Vec::new();
    match t.choose(4) {
        0 => flags.push("-t".into()),
        1 => flags.push("-v".into()),
        2 => {
            flags.push("-t".into());
            flags.push("-v".into());
        }
        _ => {
            flags.push("-r".into());
            flags.push("-t".into());
        }
    }
    if t.chance(170) {
        flags.push("-f".into());
        flags.push(FILTERS[t.choose(FILTERS.len())].0.to_string());
    }
    let mut listed: Vec<usize> = Vec::new();
    if t.chance(90) {
        let m = 1 + t.choose(n.min(6));
        for _ in 0..m {
            let c = if t.chance(128) { n - 1 - t.choose(n.min(4)) } else { t.choose(n) };
            if !listed.contains(&c) {
                listed.push(c);
            }
        }
    }
    Wide { n, gvars, g, pol, flags, listed }
}

pub fn run(ctx: &mut Ctx) -> Result<(), Violation> {
    ctx.rule = "cases = invocations of the rsbdd binary built from the working tree: generated formula text (<= 5 free names of different widths incl. apostrophes and non-ASCII, reference-free, monotone fixed points) x filter spelling (all 15 accepted spellings) x channel (--evaluate / file / stdin) x ordering file (absent / permutation / strict subset / superset with unused names before, between, after / reversed; separators, comments, duplicates, keywords and numbers sprinkled in) x output (-t, -v, -t -v, -m -t, -m -v, -r -t) x -b N (1..3). \
                Oracle: reference FV + variable numbering for the header; reference truth table projected on the header; rows pairwise disjoint, result column equal to the formula on EVERY total assignment covered, coverage exactly all / satisfying / falsifying per filter; -v lines cover exactly the satisfying assignments; -m prints one satisfying cube; stdout byte-identical across channels and -b N; exit status 0. \
                Wide stage: cube(all but <= 3 variables) & g(<= 3 variables at the ends and around column 64) over 1..200 free variables, -t / -v / -r with every filter and partial ordering files; judged without a truth table: each row's result equals the formula on everything it covers (decided symbolically), rows pairwise disjoint, and the sum of 2^#Any over the rows equals 2^n / #sat / #unsat (512-bit counter). \
                Non-trivial = >= 2 free variables and a non-constant function; distinct by formula text."
        .to_string();
    ctx.assume("-b 0 is outside the property (N >= 1); references are not generated");

    // hand-written cases first
    let mut st = Stats::default();
    for text in ["a & b", "a | (b & -c)", "true", "false", "a", "exists a # a & b", "x' ^ long_variable_name", "[a, b, c] = 1"] {
        let bytes = [7u8, 99, 200, 31, 150, 3, 77, 240, 18, 64, 129, 5];
        let mut t = Tape::new(&bytes);
        let p = rparse::parse_text(text.as_bytes()).unwrap();
        let idents = rlex::identifiers(&p.tokens);
        battery(text, &idents, &mut t, &mut st)?;
    }
    ctx.stage("hand-written", true, (st, None))?;

    let cases = ctx.tier.cases(400, 40_000);
    let r = par_random(ctx, "random-formulas", cases, 300, |tape, st| {
        let mut t = Tape::new(tape);
        let (text, idents) = match gen_formula_text(&mut t, 5) {
            Some(x) => x,
            None => {
                st.discarded += 1;
                return Ok(());
            }
        };
        let ex = expect(&text, None).map_err(|e| Violation::new(e, json!({"text": text})))?;
        if ex.header.len() >= 2 && !ex.table.is_const() {
            if st.nontrivial(fnv_str(&text)) {
                st.nt_sample(|| json!({"text": text, "free": ex.header}));
            }
        } else if st.want_sample() {
            st.sample(json!({"text": text}));
        }
        st.class(&format!("free-variables:{}", ex.header.len()));
        battery(&text, &idents, &mut t, st)
    });
    ctx.stage("random-formulas-x-option-battery", false, r)?;

    // arbitrary combinations: channel x ordering file x any subset of -t -v -m -r -f X -b N
    let cases = ctx.tier.cases(500, 20_000);
    let r = par_random(ctx, "random-option-subsets", cases, 320, |tape, st| {
        let mut t = Tape::new(tape);
        let (text, idents) = match gen_formula_text(&mut t, 5) {
            Some(x) => x,
            None => {
                st.discarded += 1;
                return Ok(());
            }
        };
        for _ in 0..3 {
            let channel = ["arg", "file", "stdin"][t.choose(3)].to_string();
            let ordering_file = if t.chance(110) {
                let (names, _) = gen_ordering_names(&idents, &mut t);
                Some(render_ordering(&names, &mut t))
            } else {
                None
            };
            let mut flags: Vec<String> = Vec::new();
            if t.chance(100) {
                flags.push("-r".into());
            }
            if t.chance(180) {
                flags.push("-t".into());
            }
            if t.chance(128) {
                flags.push("-v".into());
            }
            if t.chance(80) {
                flags.push("-m".into());
            }
            if t.chance(128) {
                flags.push("-f".into());
                flags.push(FILTERS[t.choose(FILTERS.len())].0.to_string());
            }
            if t.chance(70) {
                flags.push("-b".into());
                flags.push((1 + t.choose(4)).to_string());
            }
            // long option spellings now and then
            if t.chance(60) {
                for f in flags.iter_mut() {
                    *f = match f.as_str() {
                        "-t" => "--truthtable".to_string(),
                        "-v" => "--vars".to_string(),
                        "-m" => "--model".to_string(),
                        "-r" => "--export-ordering".to_string(),
                        other => other.to_string(),
                    };
                }
            }
            let inv = Invocation {
                text: text.clone(),
                channel,
                ordering_file,
                flags: flags
                    .iter()
                    .map(|f| match f.as_str() {
                        "--truthtable" => "-t".to_string(),
                        "--vars" => "-v".to_string(),
                        "--model" => "-m".to_string(),
                        "--export-ordering" => "-r".to_string(),
                        o => o.to_string(),
                    })
                    .collect(),
            };
            // run with the (possibly long) spellings, judge with the canonical ones
            let run_inv = Invocation {
                flags: flags.clone(),
                ..inv.clone()
            };
            st.eval();
            st.class(&format!("subset:{}", inv.flags.iter().filter(|f| f.starts_with('-')).cloned().collect::<Vec<_>>().join("")));
            let cj = run_inv.to_json();
            let ex = expect(&inv.text, inv.ordering_file.as_deref()).map_err(|e| Violation::new(e, cj.clone()))?;
            let out = spawn(&run_inv).map_err(|e| Violation::new(e, cj.clone()))?;
            check_output(&inv, &out, &ex).map_err(|e| Violation::new(format!("{} -- stdout:\n{}", e, out), cj.clone()))?;
            if st.nontrivial(fnv_str(&cj.to_string())) {
                st.nt_sample(|| cj.clone());
            }
        }
        Ok(())
    });
    ctx.stage("random-option-subsets", false, r)?;

    // formulas in which one name is free, bound by a quantifier and bound by a fixed point (the scoping
    // generator of C06): the header must list exactly the free names, also under an ordering file
    let cases = ctx.tier.cases(600, 30_000);
    let r = par_random(ctx, "shadowing-formulas", cases, 260, |tape, st| {
        let mut t = Tape::new(tape);
        let mut cfg = Cfg::standard(3, 2 + t.choose(4));
        cfg.names = vec!["a".into(), "b".into(), "X".into()];
        cfg.fix_names = vec!["X".into(), "a".into(), "b".into()];
        cfg.max_fix_nest = 3;
        cfg.max_list = 2;
        cfg.big_consts = false;
        let ast = gen::formula(&mut t, &cfg);
        if !crate::props::c01::has_shadowing(&ast, &mut Vec::new()) || !gen::syntactically_monotone(&ast) {
            st.discarded += 1;
            return Ok(());
        }
        let text = rprint::plain(&ast);
        let mut idents = Vec::new();
        ast.names_in_order(&mut idents);
        let ordering_file = if t.flag() {
            let (names, _) = gen_ordering_names(&idents, &mut t);
            Some(render_ordering(&names, &mut t))
        } else {
            None
        };
        let inv = Invocation {
            text: text.clone(),
            channel: ["arg", "file", "stdin"][t.choose(3)].to_string(),
            ordering_file,
            flags: if t.flag() { vec!["-t".into(), "-v".into()] } else { vec!["-t".into(), "-r".into()] },
        };
        st.eval();
        st.class(if ast.has_fix() { "shadowing:with-fixed-point" } else { "shadowing:quantifiers-only" });
        if st.nontrivial(fnv_str(&inv.to_json().to_string())) {
            st.nt_sample(|| inv.to_json());
        }
        check_invocation(&inv).map(|_| ())
    });
    ctx.stage("shadowing-formulas-x-table-and-vars", false, r)?;

    // wide formulas: up to 200 free variables, judged by counting instead of a truth table
    let cases = ctx.tier.cases(1_500, 40_000);
    let r = par_random(ctx, "wide-formulas", cases, 260, |tape, st| {
        let mut t = Tape::new(tape);
        let w = gen_wide(&mut t);
        st.eval();
        st.class(match w.n {
            0..=63 => "wide:n<64",
            64 => "wide:n=64",
            65..=128 => "wide:n=65..128",
            _ => "wide:n>128",
        });
        if w.gvars.iter().any(|i| *i >= 64) {
            st.class("wide:branching-variable-at-column>=64");
        }
        if !w.listed.is_empty() {
            st.class("wide:with-ordering-file");
        }
        check_wide(&w)?;
        if w.n >= 2 && !w.g.is_false() {
            let j = w.to_json();
            if st.nontrivial(fnv_str(&j.to_string())) && w.n < 12 {
                st.nt_sample(|| j.clone());
            }
        }
        Ok(())
    });
    ctx.stage("wide-formulas", false, r)?;
    Ok(())
}

fn strip_b(flags: &[String]) -> Vec<String> {
    let mut out = Vec::new();
    let mut it = flags.iter();
    while let Some(f) = it.next() {
        if f == "-b" {
            let _ = it.next();
        } else {
            out.push(f.clone());
        }
    }
    out
}

pub fn replay(case: &Value) -> Check {
    if case["kind"].as_str() == Some("wide") {
        return match Wide::from_json(case) {
            Some(w) => check_wide(&w),
            None => Err(Violation::new("unreadable replay case", case.clone())),
        };
    }
    match Invocation::from_json(case) {
        Some(inv) => {
            let out = check_invocation(&inv)?;
            // channel / repetition equality is re-checked against the plain --evaluate run
            let base = Invocation {
                channel: "arg".into(),
                flags: strip_b(&inv.flags),
                ..inv.clone()
            };
            let base_out = check_invocation(&base)?;
            if out != base_out {
                return Err(Violation::new(
                    format!("stdout differs from the plain --evaluate run:\n{}\n--- vs ---\n{}", base_out, out),
                    case.clone(),
                ));
            }
            Ok(())
        }
        None => Err(Violation::new("unreadable replay case", case.clone())),
    }
}
