//! C13, second machine: formula evaluations sharing one BDDEnv<NamedSymbol> under a
//! common ordering (the caller-side precondition: an id must mean the same name).

use crate::engine::*;
use crate::front;
use crate::gen::{self, Cfg};
use crate::plain;
use crate::rlex;
use crate::rparse;
use crate::rprint;
use crate::rsem;
use crate::tt::TT;
use crate::util::{self, fnv_str, Tape};
use rsbdd::bdd::{BDDEnv, BDD};
use rsbdd::parser::ParsedFormula;
use rsbdd::NamedSymbol;
use serde_json::{json, Value};
use std::io::BufReader;
use std::rc::Rc;

type NB = Rc<BDD<NamedSymbol>>;

pub fn pool() -> Vec<String> {
    ["a", "b", "c", "x", "y", "X", "Y", "F'", "unused_1"].iter().map(|s| s.to_string()).collect()
}

fn ordering(pool: &[String]) -> Vec<NamedSymbol> {
    pool.iter().enumerate().map(|(i, n)| front::sym(n, i)).collect()
}

fn env_invariants(env: &BDDEnv<NamedSymbol>, live: &[NB]) -> Result<(), String> {
    let nodes = env.nodes.borrow();
    if !nodes.get(&BDD::True).map(|t| t.is_true()).unwrap_or(false) {
        return Err("the shared environment lost its true leaf".into());
    }
    if !nodes.get(&BDD::False).map(|t| t.is_false()).unwrap_or(false) {
        return Err("the shared environment lost its false leaf".into());
    }
    for (k, v) in nodes.iter() {
        if k != v.as_ref() {
            return Err("unique-table entry maps a structure to a different node".into());
        }
    }
    for h in live {
        for n in plain::reachable(h) {
            match nodes.get(n.as_ref()) {
                Some(e) if Rc::ptr_eq(e, &n) => {}
                _ => {
                    return Err(format!(
                        "sub-diagram {} of a result is not the shared environment's own node",
                        plain::render(&n)
                    ))
                }
            }
        }
    }
    Ok(())
}

pub fn check_texts(texts: &[String]) -> Check {
    let cj = json!({"kind": "shared-formulas", "texts": texts});
    let v = |m: String| Violation::new(m, cj.clone());
    let pool = pool();
    guarded(&cj.clone(), || {
        let env = Rc::new(BDDEnv::<NamedSymbol>::new());
        let mut results: Vec<NB> = Vec::new();
        let mut snaps: Vec<NB> = Vec::new();
        let mut tabs: Vec<TT> = Vec::new();
        for (i, text) in texts.iter().enumerate() {
            let parsed = rparse::parse_text(text.as_bytes()).map_err(|e| v(format!("HARNESS: reference parser: {}", e)))?;
            let idents = rlex::identifiers(&parsed.tokens);
            if idents.iter().any(|n| !pool.contains(n)) {
                return Err(v("HARNESS: formula uses a name outside the common ordering".into()));
            }
            let oracle = rsem::table(&parsed.ast, &pool).map_err(|e| v(format!("HARNESS: reference semantics: {:?}", e)))?;
            rsbdd::bdd::verif_hooks::set_fp_iteration_limit(Some((1 << pool.len()) + 2));
            let shared = {
                let mut rd = BufReader::new(text.as_bytes());
                let pf = ParsedFormula::new_with_env(Rc::clone(&env), &mut rd, Some(ordering(&pool)))
                    .map_err(|e| crate::front::rejection(text, &format!("formula {}", i), &e.to_string(), &cj))?;
                pf.eval()
            };
            let fresh = {
                let mut rd = BufReader::new(text.as_bytes());
                let pf = ParsedFormula::new(&mut rd, Some(ordering(&pool)))
                    .map_err(|e| crate::front::rejection(text, &format!("formula {}", i), &e.to_string(), &cj))?;
                pf.eval()
            };
            rsbdd::bdd::verif_hooks::set_fp_iteration_limit(None);
            if shared.as_ref() != fresh.as_ref() {
                return Err(v(format!(
                    "formula {} `{}` evaluates to {} in the shared environment (after {} earlier formulas) but to {} in a fresh one",
                    i,
                    text,
                    plain::render(&shared),
                    i,
                    plain::render(&fresh)
                )));
            }
            let t = front::table_by_name(&shared, &pool).map_err(|e| v(e))?;
            if t != oracle {
                return Err(v(format!("formula {} `{}`: table {} differs from the reference {}", i, text, t.to_hex(), oracle.to_hex())));
            }
            snaps.push(plain::deep_clone(&shared));
            tabs.push(t);
            results.push(shared);
            for j in 0..results.len() {
                if results[j].as_ref() != snaps[j].as_ref() {
                    return Err(v(format!("after formula {}: the result of formula {} changed", i, j)));
                }
                let tj = front::table_by_name(&results[j], &pool).map_err(|e| v(e))?;
                if tj != tabs[j] {
                    return Err(v(format!("after formula {}: the result of formula {} denotes another function", i, j)));
                }
            }
            env_invariants(&env, &results).map_err(|e| v(format!("after formula {}: {}", i, e)))?;
        }
        Ok(())
    })
}

pub fn run_shared_formulas(ctx: &mut Ctx) -> Result<(), Violation> {
    let cases = ctx.tier.cases(8_000, 100_000);
    let r = par_random(ctx, "shared-formulas", cases, 600, |tape, st| {
        let mut t = Tape::new(tape);
        let n = 2 + t.choose(5);
        let mut texts = Vec::new();
        for _ in 0..n {
            let mut cfg = Cfg::standard(5, 1 + t.choose(4));
            cfg.names = ["a", "b", "c", "x", "y"].iter().map(|s| s.to_string()).collect();
            cfg.fix_names = vec!["X".into(), "Y".into(), "a".into(), "F'".into()];
            cfg.max_list = 3;
            cfg.big_consts = false;
            let ast = gen::formula(&mut t, &cfg);
            texts.push(rprint::plain(&ast));
        }
        st.eval();
        st.class_n("formulas-evaluated-in-shared-environments", n as u64);
        let key = texts.join("\n");
        if st.nontrivial(fnv_str(&key)) {
            st.nt_sample(|| json!({"kind": "shared-formulas", "texts": texts}));
        }
        check_texts(&texts)
    });
    let _ = util::fnv(b"");
    ctx.stage("formulas-sharing-one-environment", false, r)
}

pub fn replay(case: &Value) -> Check {
    let texts: Option<Vec<String>> = case["texts"]
        .as_array()
        .map(|a| a.iter().filter_map(|x| x.as_str().map(|s| s.to_string())).collect());
    match texts {
        Some(t) => check_texts(&t),
        None => Err(Violation::new("unreadable replay case", case.clone())),
    }
}
