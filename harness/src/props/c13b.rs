//! C13, second machine: formula evaluations sharing one BDDEnv<NamedSymbol>.
use crate::engine::*;
use serde_json::Value;

pub fn run_shared_formulas(_ctx: &mut Ctx) -> Result<(), Violation> {
    Ok(())
}

pub fn replay(case: &Value) -> Check {
    Err(Violation::new("unreadable replay case", case.clone()))
}
