//! C05 — counting comparisons count the true operands exactly.

use crate::engine::*;
use crate::front;
use crate::fun::{gen_fun, universe, Fun};
use crate::plain;
use crate::tt::TT;
use crate::util::{fnv_str, Tape};
use rsbdd::bdd::{BDDEnv, BDD};
use serde_json::{json, Value};
use std::rc::Rc;

#[derive(Clone, Debug)]
pub enum Case {
    /// API: kind in aln|amn|exn, bound as i64
    ApiN { kind: String, ops: Vec<Fun>, n: i64 },
    /// API: kind in leq|lt|geq|gt|eq
    Api2 { kind: String, a: Vec<Fun>, b: Vec<Fun> },
    /// language: `[..] op <digits>`; op in = <= >= < >
    TextN { op: String, ops: Vec<Fun>, digits: String },
    /// language: `[..] op [..]`
    Text2 { op: String, a: Vec<Fun>, b: Vec<Fun> },
}

fn funs_json(v: &[Fun]) -> Value {
    Value::Array(v.iter().map(|f| f.to_json()).collect())
}
fn funs_from(v: &Value) -> Option<Vec<Fun>> {
    v.as_array()?.iter().map(Fun::from_json).collect()
}

impl Case {
    pub fn to_json(&self) -> Value {
        match self {
            Case::ApiN { kind, ops, n } => {
                json!({"kind": "api-n", "op": kind, "ops": funs_json(ops), "n": n.to_string()})
            }
            Case::Api2 { kind, a, b } => {
                json!({"kind": "api-2", "op": kind, "a": funs_json(a), "b": funs_json(b)})
            }
            Case::TextN { op, ops, digits } => {
                json!({"kind": "text-n", "op": op, "ops": funs_json(ops), "n": digits})
            }
            Case::Text2 { op, a, b } => {
                json!({"kind": "text-2", "op": op, "a": funs_json(a), "b": funs_json(b)})
            }
        }
    }
    pub fn from_json(v: &Value) -> Option<Case> {
        let op = v["op"].as_str()?.to_string();
        Some(match v["kind"].as_str()? {
            "api-n" => Case::ApiN {
                kind: op,
                ops: funs_from(&v["ops"])?,
                n: v["n"].as_str()?.parse().ok()?,
            },
            "api-2" => Case::Api2 {
                kind: op,
                a: funs_from(&v["a"])?,
                b: funs_from(&v["b"])?,
            },
            "text-n" => Case::TextN {
                op,
                ops: funs_from(&v["ops"])?,
                digits: v["n"].as_str()?.to_string(),
            },
            "text-2" => Case::Text2 {
                op,
                a: funs_from(&v["a"])?,
                b: funs_from(&v["b"])?,
            },
            _ => return None,
        })
    }
}

fn cmp_by(op: &str, c: i128, n: i128) -> bool {
    match op {
        "aln" | ">=" | "geq" => c >= n,
        "amn" | "<=" | "leq" => c <= n,
        "exn" | "=" | "eq" => c == n,
        "<" | "lt" => c < n,
        ">" | "gt" => c > n,
        _ => panic!("harness: cmp {}", op),
    }
}

fn list_text(ops: &[Fun], uni: &[usize], names: &[String], trailing: bool) -> String {
    let parts: Vec<String> = ops.iter().map(|f| front::dnf_text(&f.over(uni), names)).collect();
    let mut s = format!("[{}", parts.join(", "));
    if trailing && !parts.is_empty() {
        s.push(',');
    }
    s.push(']');
    s
}

pub fn check_case(c: &Case) -> Check {
    let cj = c.to_json();
    let v = |m: String| Violation::new(m, cj.clone());
    guarded(&cj.clone(), || {
        let all: Vec<&Fun> = match c {
            Case::ApiN { ops, .. } | Case::TextN { ops, .. } => ops.iter().collect(),
            Case::Api2 { a, b, .. } | Case::Text2 { a, b, .. } => a.iter().chain(b.iter()).collect(),
        };
        let uni = universe(&all, &[]);
        let k = uni.len();
        let names: Vec<String> = uni.iter().map(|i| format!("x{}", i)).collect();
        match c {
            Case::ApiN { kind, ops, n } => {
                let env: BDDEnv<usize> = BDDEnv::new();
                let hs: Vec<Rc<BDD<usize>>> = ops.iter().map(|f| f.intern(&env)).collect();
                let snaps: Vec<_> = hs.iter().map(plain::deep_clone).collect();
                let r = match kind.as_str() {
                    "aln" => env.aln(&hs, *n),
                    "amn" => env.amn(&hs, *n),
                    "exn" => env.exn(&hs, *n),
                    _ => return Err(v(format!("HARNESS: kind {}", kind))),
                };
                let tabs: Vec<TT> = ops.iter().map(|f| f.over(&uni)).collect();
                let want = TT::count_cmp(k, &tabs, |cnt| cmp_by(kind, cnt, *n as i128));
                let got = plain::table_usize(&r, &uni).map_err(|e| v(e))?;
                if got != want {
                    return Err(v(format!(
                        "{}(list of {}, {}): table {} but counting the true operands gives {}",
                        kind,
                        ops.len(),
                        n,
                        got.to_hex(),
                        want.to_hex()
                    )));
                }
                for (h, s) in hs.iter().zip(snaps.iter()) {
                    if h.as_ref() != s.as_ref() {
                        return Err(v("counting changed an operand".into()));
                    }
                }
            }
            Case::Api2 { kind, a, b } => {
                let env: BDDEnv<usize> = BDDEnv::new();
                let ha: Vec<Rc<BDD<usize>>> = a.iter().map(|f| f.intern(&env)).collect();
                let hb: Vec<Rc<BDD<usize>>> = b.iter().map(|f| f.intern(&env)).collect();
                let r = match kind.as_str() {
                    "leq" => env.count_leq(&ha, &hb),
                    "lt" => env.count_lt(&ha, &hb),
                    "geq" => env.count_geq(&ha, &hb),
                    "gt" => env.count_gt(&ha, &hb),
                    "eq" => env.count_eq(&ha, &hb),
                    _ => return Err(v(format!("HARNESS: kind {}", kind))),
                };
                let ta: Vec<TT> = a.iter().map(|f| f.over(&uni)).collect();
                let tb: Vec<TT> = b.iter().map(|f| f.over(&uni)).collect();
                let want = TT::count2_cmp(k, &ta, &tb, |x, y| cmp_by(kind, x, y));
                let got = plain::table_usize(&r, &uni).map_err(|e| v(e))?;
                if got != want {
                    return Err(v(format!(
                        "count_{}(|a|={}, |b|={}): table {} but comparing the two counts gives {}",
                        kind,
                        a.len(),
                        b.len(),
                        got.to_hex(),
                        want.to_hex()
                    )));
                }
            }
            Case::TextN { op, ops, digits } => {
                let n: i128 = digits
                    .parse::<u128>()
                    .map_err(|_| v("HARNESS: digits".into()))? as i128;
                let text = format!("{} {} {}", list_text(ops, &uni, &names, digits.len() % 2 == 0), op, digits);
                let (r, _pf) = front::eval_text(&text, None).map_err(|e| front::rejection(&text, &format!("`{}`", text), &e, &cj))?;
                let tabs: Vec<TT> = ops.iter().map(|f| f.over(&uni)).collect();
                let want = TT::count_cmp(k, &tabs, |cnt| cmp_by(op, cnt, n));
                let got = front::table_by_name(&r, &names).map_err(|e| v(e))?;
                if got != want {
                    return Err(v(format!(
                        "`{}`: table {} but counting gives {}",
                        text,
                        got.to_hex(),
                        want.to_hex()
                    ))
                    .sig(if n > i64::MAX as i128 { "constant-above-i64-max" } else { "" }));
                }
            }
            Case::Text2 { op, a, b } => {
                let text = format!(
                    "{} {} {}",
                    list_text(a, &uni, &names, false),
                    op,
                    list_text(b, &uni, &names, true)
                );
                let (r, _pf) = front::eval_text(&text, None).map_err(|e| v(format!("`{}` rejected: {}", text, e)))?;
                let ta: Vec<TT> = a.iter().map(|f| f.over(&uni)).collect();
                let tb: Vec<TT> = b.iter().map(|f| f.over(&uni)).collect();
                let want = TT::count2_cmp(k, &ta, &tb, |x, y| cmp_by(op, x, y));
                let got = front::table_by_name(&r, &names).map_err(|e| v(e))?;
                if got != want {
                    return Err(v(format!(
                        "`{}`: table {} but comparing counts gives {}",
                        text,
                        got.to_hex(),
                        want.to_hex()
                    )));
                }
            }
        }
        Ok(())
    })
}

fn record(c: &Case, st: &mut Stats) {
    st.eval();
    let (name, lists, bound): (String, Vec<&Vec<Fun>>, Option<(i128, usize)>) = match c {
        Case::ApiN { kind, ops, n } => (format!("api:{}", kind), vec![ops], Some((*n as i128, ops.len()))),
        Case::Api2 { kind, a, b } => (format!("api:count_{}", kind), vec![a, b], None),
        Case::TextN { op, ops, digits } => (
            format!("text:[..]{}n", op),
            vec![ops],
            Some((digits.parse::<u128>().unwrap_or(0) as i128, ops.len())),
        ),
        Case::Text2 { op, a, b } => (format!("text:[..]{}[..]", op), vec![a, b], None),
    };
    st.class(&name);
    let mut nt = false;
    for l in &lists {
        st.class(&format!("list-len:{}", std::cmp::min(l.len(), 6)));
        let repeated = (0..l.len()).any(|i| (0..i).any(|j| l[i] == l[j]));
        let compound = l.iter().any(|f| f.tt.support().len() >= 2);
        if repeated {
            st.class("repeated-operand");
        }
        if compound {
            st.class("compound-operand");
        }
        if l.iter().any(|f| f.tt.is_const()) {
            st.class("constant-operand");
        }
        if l.len() >= 2 && (repeated || compound) {
            nt = true;
        }
    }
    if let Some((n, len)) = bound {
        if n < 0 {
            st.class("n:negative");
            nt = true;
        } else if n > len as i128 {
            st.class("n:above-length");
            nt = true;
            if n > i64::MAX as i128 {
                st.class("n:above-i64-max");
            } else if n > (1i128 << 31) {
                st.class("n:huge");
            }
        } else {
            st.class("n:within-0..len");
        }
    }
    let j = c.to_json();
    if nt {
        if st.nontrivial(fnv_str(&j.to_string())) {
            st.nt_sample(|| j.clone());
        }
    } else if st.want_sample() {
        st.sample(j);
    }
}

const TEXT_OPS: [&str; 5] = ["=", "<=", ">=", "<", ">"];
const API_N: [&str; 3] = ["aln", "amn", "exn"];
const API_2: [&str; 5] = ["leq", "lt", "geq", "gt", "eq"];

fn api_bounds(len: usize) -> Vec<i64> {
    let l = len as i64;
    let mut v: Vec<i64> = (-3..=l + 3).collect();
    v.extend([i64::MIN, i64::MIN + 1, i64::MIN + l, i64::MIN + l + 1, i64::MAX - 1, i64::MAX]);
    v
}

fn text_bounds(len: usize) -> Vec<String> {
    let mut v: Vec<String> = (0..=len + 2).map(|n| n.to_string()).collect();
    v.extend(
        [
            "00", "01", "007", "2147483648", "4294967296", "9223372036854775806", "9223372036854775807",
            "9223372036854775808", "18446744073709551614", "18446744073709551615", "000000000000000000000000000002",
        ]
        .iter()
        .map(|s| s.to_string()),
    );
    v
}

fn gen_list(t: &mut Tape, maxlen: usize, pool: &mut Vec<Fun>) -> Vec<Fun> {
    let n = t.choose(maxlen + 1);
    (0..n)
        .map(|_| {
            if !pool.is_empty() && t.chance(70) {
                pool[t.choose(pool.len())].clone()
            } else {
                let f = gen_fun(t, 3, 5);
                pool.push(f.clone());
                f
            }
        })
        .collect()
}

pub fn run(ctx: &mut Ctx) -> Result<(), Violation> {
    ctx.rule = "cases = (counting form, operand lists as truth-table functions on ids, bound). Exhaustive: every list of <= 3 operands drawn from the 16 functions of 2 variables (ids {0,1}) x every API bound in {-3..len+3, i64::MIN, i64::MIN+1, i64::MIN+len, i64::MIN+len+1, i64::MAX-1, i64::MAX} x aln/amn/exn; \
                every pair of lists of <= 2 such operands x the five list-vs-list forms; the same lists through `[..] op n` text for the five operators with n in {0..len+2} plus leading-zero, 2^31, 2^32, 2^63-2, 2^63-1, 2^63, 2^64-2, 2^64-1 constants. \
                Random: lists of <= 6 operands of <= 3 variables over ids 0..4 with repeated operands. Oracle: per assignment, the number of true operands (i128) compared with the bound / the other count. \
                Non-trivial = a list of >= 2 operands with a repeated or compound (>= 2 variable) operand, or a bound outside 0..len; distinct by serialized case. Operand provenance: created in the environment through mk_choice (default), or - in a share of the random cases and in dedicated stages - plain values that belong to no environment / nodes of another environment (what BDD::<usize>::from(named) and the repository's own parser tests produce)."
        .to_string();
    ctx.rule.push_str(" Wide texts: ");
    ctx.rule.push_str(crate::widetext::RULE);
    ctx.rule.push_str(" Wide stage: ");
    ctx.rule.push_str(crate::wide::RULE);
    ctx.rule.push_str(" Long lists: up to 13 (thorough 16) operands - literals, short cubes / clauses, small functions, repeated entries - with bounds at -1, 0, 1, len-1, len, len+1, i64::MIN, i64::MAX; list-vs-list forms when both lists together have <= 14 operands.");
    ctx.assume("API bounds are restricted to n with n +/- len inside i64 (the property's domain)");
    ctx.assume("language constants are restricted to values the syntax accepts (<= usize::MAX)");

    // all lists of <= 3 operands from the 16 two-variable functions
    let mut lists: Vec<Vec<u64>> = vec![vec![]];
    for a in 0..16u64 {
        lists.push(vec![a]);
        for b in 0..16u64 {
            lists.push(vec![a, b]);
            for c in 0..16u64 {
                lists.push(vec![a, b, c]);
            }
        }
    }
    let mk = |l: &Vec<u64>| -> Vec<Fun> {
        l.iter().map(|b| Fun::new(TT::from_bits(2, *b), vec![0, 1])).collect()
    };
    let r = par_exhaustive(ctx, lists.len() as u64, |i, st| {
        let l = &lists[i as usize];
        let ops = mk(l);
        for kind in API_N {
            for n in api_bounds(ops.len()) {
                let c = Case::ApiN {
                    kind: kind.to_string(),
                    ops: ops.clone(),
                    n,
                };
                record(&c, st);
                check_case(&c)?;
            }
        }
        Ok(())
    });
    ctx.stage("api-lists<=3-of-16-functions-all-bounds", true, r)?;

    let small: Vec<Vec<u64>> = lists.iter().filter(|l| l.len() <= 2).cloned().collect();
    let n2 = (small.len() * small.len()) as u64;
    let r = par_exhaustive(ctx, n2, |i, st| {
        let a = mk(&small[i as usize % small.len()]);
        let b = mk(&small[i as usize / small.len()]);
        for kind in API_2 {
            let c = Case::Api2 {
                kind: kind.to_string(),
                a: a.clone(),
                b: b.clone(),
            };
            record(&c, st);
            check_case(&c)?;
        }
        if i % 97 == 0 {
            for op in TEXT_OPS {
                let c = Case::Text2 {
                    op: op.to_string(),
                    a: a.clone(),
                    b: b.clone(),
                };
                record(&c, st);
                check_case(&c)?;
            }
        }
        Ok(())
    });
    ctx.stage("api-list-vs-list<=2x<=2", true, r)?;

    let tl: Vec<Vec<u64>> = lists
        .iter()
        .filter(|l| l.len() <= 2 || (l.len() == 3 && ctx.tier == Tier::Thorough))
        .cloned()
        .collect();
    let r = par_exhaustive(ctx, tl.len() as u64, |i, st| {
        let ops = mk(&tl[i as usize]);
        for op in TEXT_OPS {
            for d in text_bounds(ops.len()) {
                let c = Case::TextN {
                    op: op.to_string(),
                    ops: ops.clone(),
                    digits: d,
                };
                record(&c, st);
                check_case(&c)?;
            }
        }
        Ok(())
    });
    ctx.stage("text-lists-all-operators-all-constants", true, r)?;

    let cases = ctx.tier.cases(100_000, 8_000_000);
    let r = par_random(ctx, "random", cases, 160, |tape, st| {
        let mut t = Tape::new(tape);
        let mut pool = Vec::new();
        let c = match t.choose(4) {
            0 => {
                let ops = gen_list(&mut t, 6, &mut pool);
                let b = api_bounds(ops.len());
                let n = b[t.choose(b.len())];
                Case::ApiN {
                    kind: API_N[t.choose(3)].to_string(),
                    ops,
                    n,
                }
            }
            1 => Case::Api2 {
                kind: API_2[t.choose(5)].to_string(),
                a: gen_list(&mut t, 4, &mut pool),
                b: gen_list(&mut t, 4, &mut pool),
            },
            2 => {
                let ops = gen_list(&mut t, 5, &mut pool);
                let b = text_bounds(ops.len());
                let d = b[t.choose(b.len())].clone();
                Case::TextN {
                    op: TEXT_OPS[t.choose(5)].to_string(),
                    ops,
                    digits: d,
                }
            }
            _ => Case::Text2 {
                op: TEXT_OPS[t.choose(5)].to_string(),
                a: gen_list(&mut t, 4, &mut pool),
                b: gen_list(&mut t, 4, &mut pool),
            },
        };
        let mode = crate::fun::gen_operands(&mut t);
        record(&c, st);
        st.class(&format!("operands:{}", mode.name()));
        crate::fun::with_operands(mode, || check_case(&c))
    });
    ctx.stage("random-lists", false, r)?;
    let wc = ctx.tier.cases(3_000, 30_000);
    crate::wide::stage_count(ctx, "wide-long-lists", wc)?;
    crate::wide::fuzz_kind(ctx, "count", replay)?;
    let wc = ctx.tier.cases(100, 1000);
    crate::widetext::stage_long_lists(ctx, "text-lists-of-14-to-21-literals", wc)?;
    Ok(())
}

pub fn replay(case: &Value) -> Check {
    if let Some(r) = crate::widetext::replay(case) {
        return r;
    }
    if let Some(r) = crate::wide::replay(case) {
        return r;
    }
    match Case::from_json(case) {
        Some(c) => crate::fun::with_operands(crate::fun::case_operands(case), || check_case(&c)),
        None => Err(Violation::new("unreadable replay case", case.clone())),
    }
}
