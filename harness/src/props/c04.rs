//! C04 — quantifiers eliminate exactly the listed variables.

use crate::engine::*;
use crate::front;
use crate::fun::{gen_fun, universe, Fun};
use crate::plain;
use crate::tt::TT;
use crate::util::{fnv_str, Tape};
use rsbdd::bdd::BDDEnv;
use serde_json::{json, Value};
use std::rc::Rc;

#[derive(Clone, Debug)]
pub struct Case {
    pub f: Fun,
    pub vars: Vec<usize>,
    /// also run the same quantification through the formula language
    pub text: bool,
}

impl Case {
    pub fn to_json(&self) -> Value {
        json!({"kind": "quant", "f": self.f.to_json(), "vars": self.vars, "text": self.text})
    }
    pub fn from_json(v: &Value) -> Option<Case> {
        Some(Case {
            f: Fun::from_json(&v["f"])?,
            vars: v["vars"]
                .as_array()?
                .iter()
                .map(|x| x.as_u64().map(|u| u as usize))
                .collect::<Option<Vec<_>>>()?,
            text: v["text"].as_bool().unwrap_or(false),
        })
    }
}

fn pos_in(uni: &[usize], id: usize) -> usize {
    uni.iter().position(|u| *u == id).expect("id in universe")
}

fn viol(msg: String, c: &Value) -> Violation {
    Violation::new(msg, c.clone())
}

pub fn check_case(c: &Case) -> Check {
    let cj = c.to_json();
    guarded(&cj.clone(), || {
        let env: BDDEnv<usize> = BDDEnv::new();
        let uni = universe(&[&c.f], &c.vars);
        let k = uni.len();
        let ft = c.f.over(&uni);
        let hf = c.f.intern(&env);
        let snap = plain::deep_clone(&hf);

        let want_ex = c.vars.iter().fold(ft.clone(), |t, v| t.exists(pos_in(&uni, *v)));
        let want_all = c.vars.iter().fold(ft.clone(), |t, v| t.forall(pos_in(&uni, *v)));

        let rex = env.exists(c.vars.clone(), Rc::clone(&hf));
        let rall = env.all(c.vars.clone(), Rc::clone(&hf));
        for (name, r, want) in [("exists", &rex, &want_ex), ("all", &rall, &want_all)] {
            let got = plain::table_usize(r, &uni).map_err(|e| viol(format!("{}: {}", name, e), &cj))?;
            if &got != want {
                return Err(viol(
                    format!(
                        "{}({:?}, f): table {} differs from the quantifier oracle {} over ids {:?}",
                        name,
                        c.vars,
                        got.to_hex(),
                        want.to_hex(),
                        uni
                    ),
                    &cj,
                ));
            }
            let sup = plain::support_syms(r);
            if let Some(v) = c.vars.iter().find(|v| sup.contains(v)) {
                return Err(viol(
                    format!("{}({:?}, f): the result still tests quantified variable {}", name, c.vars, v),
                    &cj,
                ));
            }
        }
        // operand untouched
        if hf.as_ref() != snap.as_ref() {
            return Err(viol("quantification changed its operand".into(), &cj));
        }
        // order and repetition of V are irrelevant (structurally)
        let mut rev = c.vars.clone();
        rev.reverse();
        let mut rot = c.vars.clone();
        if !rot.is_empty() {
            rot.rotate_left(1);
        }
        let mut dup = c.vars.clone();
        dup.extend(c.vars.iter().copied());
        let mut dedup = c.vars.clone();
        dedup.sort();
        dedup.dedup();
        for (tag, vs) in [("reversed", &rev), ("rotated", &rot), ("doubled", &dup), ("sorted-dedup", &dedup)] {
            if env.exists(vs.clone(), Rc::clone(&hf)) != rex {
                return Err(viol(format!("exists over the {} list differs from exists({:?})", tag, c.vars), &cj));
            }
            if env.all(vs.clone(), Rc::clone(&hf)) != rall {
                return Err(viol(format!("all over the {} list differs from all({:?})", tag, c.vars), &cj));
            }
        }
        // empty / disjoint list: the result is f itself
        let fsup = c.f.support_ids();
        if c.vars.iter().all(|v| !fsup.contains(v)) {
            if rex != hf || rall != hf {
                return Err(viol(
                    format!("quantifying {:?}, which f does not depend on, changed f", c.vars),
                    &cj,
                ));
            }
        }
        // single-variable primitive
        for v in &dedup {
            let r = env.exists(vec![*v], Rc::clone(&hf));
            let got = plain::table_usize(&r, &uni).map_err(|e| viol(format!("exists([v]): {}", e), &cj))?;
            if got != ft.exists(pos_in(&uni, *v)) {
                return Err(viol(format!("exists([{}], f) is not the or of the two cofactors", v), &cj));
            }
            if plain::support_syms(&r).contains(v) {
                return Err(viol(format!("exists([{}], f) still tests {}", v, v), &cj));
            }
        }
        // duality as a consequence, checked against tables
        let dual = env.not(env.exists(c.vars.clone(), env.not(Rc::clone(&hf))));
        if dual != rall {
            return Err(viol("all(V,f) differs from not(exists(V, not f))".into(), &cj));
        }
        let _ = k;

        if c.text {
            // the same through the language: names n<id>, ordering by id so that table
            // positions line up; body = DNF text of f
            let names: Vec<String> = uni.iter().map(|i| format!("n{}", i)).collect();
            let body = front::dnf_text(&ft, &names);
            for (kw, want) in [("exists", &want_ex), ("forall", &want_all), ("any", &want_ex), ("all", &want_all)] {
                let list: Vec<String> = c.vars.iter().map(|v| format!("n{}", v)).collect();
                let text = format!("{} {} # {}", kw, list.join(", "), body);
                let (r, pf) = front::eval_text(&text, None)
                    .map_err(|e| viol(format!("`{}` rejected: {}", text, e), &cj))?;
                let got = front::table_by_name(&r, &names)
                    .map_err(|e| viol(format!("`{}`: {}", text, e), &cj))?;
                if &got != want {
                    return Err(viol(
                        format!("`{}` evaluates to table {} but the oracle is {}", text, got.to_hex(), want.to_hex()),
                        &cj,
                    ));
                }
                let sup: Vec<String> = plain::support_syms(&r).iter().map(|s| s.name.as_ref().clone()).collect();
                if let Some(v) = list.iter().find(|n| sup.contains(n)) {
                    return Err(viol(format!("`{}`: answer depends on quantified {}", text, v), &cj));
                }
                drop(pf);
            }
            // the quantified formula E inside other constructs, with the oracle still known: a counting
            // list, an if-then-else, a double negation, and a fixed point ON ONE OF THE QUANTIFIED NAMES
            // whose body lists that name next to E (lfp v # [v, E] >= 1 = E, gfp v # [v, E] >= 2 = E:
            // the inner quantifier shadows v, so E does not change during the iteration)
            if let Some(v0) = c.vars.first() {
                let list: Vec<String> = c.vars.iter().map(|v| format!("n{}", v)).collect();
                for (kw, want) in [("exists", &want_ex), ("forall", &want_all)] {
                    let e = format!("({} {} # {})", kw, list.join(", "), body);
                    let fp = c.f.fingerprint() as usize + c.vars.len();
                    for (ti, text) in [
                        format!("[{}] >= 1", e),
                        format!("[{}, false] = 1", e),
                        format!("if {} then true else false", e),
                        format!("-(-{})", e),
                        format!("lfp n{} # [n{}, {}] >= 1", v0, v0, e),
                        format!("gfp n{} # [n{}, {}] >= 2", v0, v0, e),
                        format!("lfp n{} # (n{} | {})", v0, v0, e),
                        format!("gfp n{} # [{}, n{}] > [false, true]", v0, e, v0),
                    ]
                    .into_iter()
                    .enumerate()
                    {
                        // a quarter of the templates per case (which ones depends on the case)
                        if (fp + ti) % 4 != 0 {
                            continue;
                        }
                        let (r, pf) = front::eval_text(&text, None).map_err(|e| viol(format!("`{}` rejected: {}", text, e), &cj))?;
                        let got = front::table_by_name(&r, &names).map_err(|e| viol(format!("`{}`: {}", text, e), &cj))?;
                        if &got != want {
                            return Err(viol(
                                format!("`{}` (a quantifier inside another construct) evaluates to table {} but the oracle is {}", text, got.to_hex(), want.to_hex()),
                                &cj,
                            ));
                        }
                        drop(pf);
                    }
                }
            }
            // the quantifier applied to a value the body reaches only through a fixed-point
            // variable: lfp X # (f | exists V # X) = f | exists V f, gfp X # (f & forall V # X) =
            // f & forall V f (X0=false, X1=f, X2=f|exists V f, stable; dually)
            let list: Vec<String> = c.vars.iter().map(|v| format!("n{}", v)).collect();
            if !list.is_empty() {
                let want_l = ft.or(&want_ex);
                let want_g = ft.and(&want_all);
                for (text, want) in [
                    (format!("lfp X # (({}) | (exists {} # X))", body, list.join(", ")), &want_l),
                    (format!("gfp X # (({}) & (forall {} # X))", body, list.join(", ")), &want_g),
                ] {
                    let (r, pf) = front::eval_text(&text, None)
                        .map_err(|e| viol(format!("`{}` rejected: {}", text, e), &cj))?;
                    let got = front::table_by_name(&r, &names)
                        .map_err(|e| viol(format!("`{}`: {}", text, e), &cj))?;
                    if &got != want {
                        return Err(viol(
                            format!(
                                "`{}` (a quantifier over the current value of a fixed point) evaluates to table {} but the oracle is {}",
                                text,
                                got.to_hex(),
                                want.to_hex()
                            ),
                            &cj,
                        ));
                    }
                    drop(pf);
                }
            }
        }
        Ok(())
    })
}

fn record(c: &Case, st: &mut Stats) {
    st.eval();
    let sup = c.f.support_ids();
    let hit = c.vars.iter().filter(|v| sup.contains(v)).count();
    let mut d = c.vars.clone();
    d.sort();
    d.dedup();
    let repeated = d.len() != c.vars.len();
    let absent = c.vars.iter().any(|v| !sup.contains(v));
    if c.vars.is_empty() {
        st.class("V:empty");
    } else if c.vars.len() == 1 {
        st.class("V:singleton");
    } else {
        st.class("V:several");
    }
    if repeated {
        st.class("V:repeated");
    }
    if absent {
        st.class("V:has-variable-f-does-not-depend-on");
    }
    if let (Some(lo), Some(hi)) = (sup.first(), sup.last()) {
        if c.vars.iter().any(|v| v < lo) {
            st.class("V:above-support");
        }
        if c.vars.iter().any(|v| v > hi) {
            st.class("V:below-support");
        }
        if c.vars.iter().any(|v| v > lo && v < hi && sup.contains(v)) {
            st.class("V:middle-of-support");
        }
        if c.vars.contains(hi) {
            st.class("V:bottom-variable");
        }
    }
    if c.text {
        st.class("through-language");
    }
    let uni = universe(&[&c.f], &c.vars);
    let ex = c.vars.iter().fold(c.f.over(&uni), |t, v| t.exists(pos_in(&uni, *v)));
    let nt = hit > 0 && (!ex.is_const() || repeated || absent);
    let j = c.to_json();
    if nt {
        if st.nontrivial(fnv_str(&j.to_string())) {
            st.nt_sample(|| j.clone());
        }
    } else if st.want_sample() {
        st.sample(j);
    }
}

fn lists_upto(cands: &[usize], maxlen: usize) -> Vec<Vec<usize>> {
    let mut out: Vec<Vec<usize>> = vec![vec![]];
    let mut frontier: Vec<Vec<usize>> = vec![vec![]];
    for _ in 0..maxlen {
        let mut next = Vec::new();
        for l in &frontier {
            for c in cands {
                let mut n = l.clone();
                n.push(*c);
                next.push(n);
            }
        }
        out.extend(next.iter().cloned());
        frontier = next;
    }
    out
}

pub fn run(ctx: &mut Ctx) -> Result<(), Violation> {
    ctx.rule = "cases = (function f as a truth table on concrete ids, variable list V). Exhaustive: all 256 functions of 3 variables on ids {1,2,3} x all lists of length <= 3 over candidates {0 (above), 1,2,3 (inside), 4 (below/absent)}; \
                thorough adds all 65536 functions of 4 variables on ids {1,2,4,5} x all lists of length <= 2 over {0..6}. Random: f of up to 6 variables with ids in 0..10, V of length 0..5. \
                Checked per case: exists/all tables against cofactor or/and, support disjoint from V, invariance under reversing/rotating/doubling/deduplicating V, identity when V misses the support, single-variable elimination, duality, and (sampled) the same through `exists|any|forall|all V # dnf(f)` text. \
                Non-trivial = V meets the support of f and (the result is non-constant, or V has a repeated or absent variable); distinct by serialized case. Operand provenance: created in the environment through mk_choice (default), or - in a share of the random cases and in dedicated stages - plain values that belong to no environment / nodes of another environment (what BDD::<usize>::from(named) and the repository's own parser tests produce)."
        .to_string();
    ctx.rule.push_str(" Wide texts: ");
    ctx.rule.push_str(crate::widetext::RULE);
    ctx.rule.push_str(" Wide stage: ");
    ctx.rule.push_str(crate::wide::RULE);
    ctx.assume("operands interned via mk_choice; oracle = or/and of the two cofactors on truth tables");

    let cands = [0usize, 1, 2, 3, 4];
    let lists = lists_upto(&cands, 3);
    let n = 256 * lists.len() as u64;
    let r = par_exhaustive(ctx, n, |i, st| {
        let f = Fun::new(TT::from_bits(3, i % 256), vec![1, 2, 3]);
        let l = &lists[(i / 256) as usize];
        let c = Case {
            f,
            vars: l.clone(),
            text: i % 61 == 0,
        };
        record(&c, st);
        check_case(&c)
    });
    ctx.stage("all-3var-functions-x-lists<=3", true, r)?;

    if ctx.tier == Tier::Thorough {
        let cands = [0usize, 1, 2, 3, 4, 5, 6];
        let lists = lists_upto(&cands, 2);
        let n = 65536 * lists.len() as u64;
        let r = par_exhaustive(ctx, n, |i, st| {
            let f = Fun::new(TT::from_bits(4, i % 65536), vec![1, 2, 4, 5]);
            let l = &lists[(i / 65536) as usize];
            let c = Case {
                f,
                vars: l.clone(),
                text: i % 4099 == 0,
            };
            record(&c, st);
            check_case(&c)
        });
        ctx.stage("all-4var-functions-x-lists<=2", true, r)?;
    }

    let cases = ctx.tier.cases(100_000, 5_000_000);
    let r = par_random(ctx, "random", cases, 100, |tape, st| {
        let mut t = Tape::new(tape);
        let f = gen_fun(&mut t, 6, 10);
        let n = t.choose(6);
        let vars: Vec<usize> = (0..n)
            .map(|_| {
                if !f.ids.is_empty() && t.flag() {
                    f.ids[t.choose(f.ids.len())]
                } else {
                    t.choose(11)
                }
            })
            .collect();
        let text = t.chance(40);
        let c = Case { f, vars, text };
        let mode = crate::fun::gen_operands(&mut t);
        record(&c, st);
        st.class(&format!("operands:{}", mode.name()));
        crate::fun::with_operands(mode, || check_case(&c))
    });
    ctx.stage("random-functions-and-lists", false, r)?;
    let wc = ctx.tier.cases(6_000, 200_000);
    crate::wide::stage_quant(ctx, "wide-functions-and-long-lists", wc)?;
    crate::wide::stage_collisions(ctx, "operands-with-equal-hash-sub-diagrams", "quant")?;
    crate::wide::fuzz_kind(ctx, "quant", replay)?;
    let wc = ctx.tier.cases(1_200, 60_000);
    crate::widetext::stage_padded(ctx, "quantifiers-on-variables-beyond-64-128-256-names", wc, true)?;
    Ok(())
}

pub fn replay(case: &Value) -> Check {
    if let Some(r) = crate::widetext::replay(case) {
        return r;
    }
    if let Some(r) = crate::wide::replay(case) {
        return r;
    }
    match Case::from_json(case) {
        Some(c) => crate::fun::with_operands(crate::fun::case_operands(case), || check_case(&c)),
        None => Err(Violation::new("unreadable replay case", case.clone())),
    }
}
