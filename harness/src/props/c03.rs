//! C03 — connectives compute the pointwise Boolean operation of their operands.

use crate::engine::*;
use crate::fun::{gen_fun, universe, Fun};
use crate::plain;
use crate::tt::TT;
use crate::util::{fnv_str, Tape};
use rsbdd::bdd::{BDDEnv, BDD};
use serde_json::{json, Value};
use std::rc::Rc;

pub const BINOPS: [&str; 7] = ["and", "or", "implies", "eq", "xor", "nor", "nand"];

pub fn tt_binop(op: &str, a: &TT, b: &TT) -> TT {
    match op {
        "and" => a.and(b),
        "or" => a.or(b),
        "implies" => a.implies(b),
        "eq" => a.iff(b),
        "xor" => a.xor(b),
        "nor" => a.nor(b),
        "nand" => a.nand(b),
        _ => panic!("harness: unknown op {}", op),
    }
}

pub fn env_binop(
    env: &BDDEnv<usize>,
    op: &str,
    a: Rc<BDD<usize>>,
    b: Rc<BDD<usize>>,
) -> Rc<BDD<usize>> {
    match op {
        "and" => env.and(a, b),
        "or" => env.or(a, b),
        "implies" => env.implies(a, b),
        "eq" => env.eq(a, b),
        "xor" => env.xor(a, b),
        "nor" => env.nor(a, b),
        "nand" => env.nand(a, b),
        _ => panic!("harness: unknown op {}", op),
    }
}

#[derive(Clone, Debug)]
pub enum Case {
    Bin { op: String, a: Fun, b: Fun, alias: bool },
    Not { a: Fun },
    Ite { c: Fun, t: Fun, e: Fun },
    Var { id: usize },
    Const { b: bool },
    /// every connective, one after the other, on the SAME two handles of ONE environment
    /// (order of the connectives rotated by `rot`), each result against its own oracle
    AllOps { a: Fun, b: Fun, rot: usize },
}

impl Case {
    pub fn to_json(&self) -> Value {
        match self {
            Case::Bin { op, a, b, alias } => {
                json!({"kind": "bin", "op": op, "a": a.to_json(), "b": b.to_json(), "alias": alias})
            }
            Case::Not { a } => json!({"kind": "not", "a": a.to_json()}),
            Case::Ite { c, t, e } => {
                json!({"kind": "ite", "c": c.to_json(), "t": t.to_json(), "e": e.to_json()})
            }
            Case::AllOps { a, b, rot } => json!({"kind": "all-ops", "a": a.to_json(), "b": b.to_json(), "rot": rot}),
            Case::Var { id } => json!({"kind": "var", "id": id}),
            Case::Const { b } => json!({"kind": "const", "b": b}),
        }
    }
    pub fn from_json(v: &Value) -> Option<Case> {
        Some(match v["kind"].as_str()? {
            "bin" => Case::Bin {
                op: v["op"].as_str()?.to_string(),
                a: Fun::from_json(&v["a"])?,
                b: Fun::from_json(&v["b"])?,
                alias: v["alias"].as_bool().unwrap_or(false),
            },
            "not" => Case::Not {
                a: Fun::from_json(&v["a"])?,
            },
            "ite" => Case::Ite {
                c: Fun::from_json(&v["c"])?,
                t: Fun::from_json(&v["t"])?,
                e: Fun::from_json(&v["e"])?,
            },
            "all-ops" => Case::AllOps {
                a: Fun::from_json(&v["a"])?,
                b: Fun::from_json(&v["b"])?,
                rot: v["rot"].as_u64().unwrap_or(0) as usize,
            },
            "var" => Case::Var {
                id: v["id"].as_u64()? as usize,
            },
            "const" => Case::Const { b: v["b"].as_bool()? },
            _ => return None,
        })
    }
}

fn operand_unchanged(
    what: &str,
    f: &Fun,
    handle: &Rc<BDD<usize>>,
    snapshot: &Rc<BDD<usize>>,
    case: &Value,
) -> Check {
    if handle.as_ref() != snapshot.as_ref() {
        return Err(Violation::new(
            format!("operand {} changed structurally by the operation", what),
            case.clone(),
        ));
    }
    let t = plain::table_usize(handle, &f.ids).map_err(|e| Violation::new(e, case.clone()))?;
    if t != f.tt {
        return Err(Violation::new(
            format!("operand {} no longer denotes its function", what),
            case.clone(),
        ));
    }
    Ok(())
}

fn expect_table(r: &Rc<BDD<usize>>, uni: &[usize], want: &TT, what: &str, case: &Value) -> Check {
    let got = plain::table_usize(r, uni)
        .map_err(|e| Violation::new(format!("{}: {}", what, e), case.clone()))?;
    if &got != want {
        return Err(Violation::new(
            format!(
                "{}: result table {} differs from pointwise oracle {} over ids {:?}",
                what,
                got.to_hex(),
                want.to_hex(),
                uni
            ),
            case.clone(),
        ));
    }
    Ok(())
}

pub fn check_case(c: &Case) -> Check {
    let cj = c.to_json();
    guarded(&cj.clone(), || {
        let env: BDDEnv<usize> = BDDEnv::new();
        match c {
            Case::Bin { op, a, b, alias } => {
                if *alias {
                    // the same handle in both argument positions
                    let uni = universe(&[a], &[]);
                    let ha = a.intern(&env);
                    let snap = plain::deep_clone(&ha);
                    let r = env_binop(&env, op, Rc::clone(&ha), Rc::clone(&ha));
                    let ta = a.over(&uni);
                    expect_table(&r, &uni, &tt_binop(op, &ta, &ta), op, &cj)?;
                    operand_unchanged("a", a, &ha, &snap, &cj)?;
                } else {
                    let uni = universe(&[a, b], &[]);
                    let ha = a.intern(&env);
                    let hb = b.intern(&env);
                    let sa = plain::deep_clone(&ha);
                    let sb = plain::deep_clone(&hb);
                    let r = env_binop(&env, op, Rc::clone(&ha), Rc::clone(&hb));
                    let want = tt_binop(op, &a.over(&uni), &b.over(&uni));
                    expect_table(&r, &uni, &want, op, &cj)?;
                    operand_unchanged("a", a, &ha, &sa, &cj)?;
                    operand_unchanged("b", b, &hb, &sb, &cj)?;
                }
            }
            Case::Not { a } => {
                let ha = a.intern(&env);
                let sa = plain::deep_clone(&ha);
                let r = env.not(Rc::clone(&ha));
                expect_table(&r, &a.ids_sorted(), &a.over(&a.ids_sorted()).not(), "not", &cj)?;
                operand_unchanged("a", a, &ha, &sa, &cj)?;
            }
            Case::Ite { c, t, e } => {
                let uni = universe(&[c, t, e], &[]);
                let hc = c.intern(&env);
                let ht = t.intern(&env);
                let he = e.intern(&env);
                let (sc, st, se) = (
                    plain::deep_clone(&hc),
                    plain::deep_clone(&ht),
                    plain::deep_clone(&he),
                );
                let r = env.ite(Rc::clone(&hc), Rc::clone(&ht), Rc::clone(&he));
                let want = c.over(&uni).ite(&t.over(&uni), &e.over(&uni));
                expect_table(&r, &uni, &want, "ite", &cj)?;
                operand_unchanged("c", c, &hc, &sc, &cj)?;
                operand_unchanged("t", t, &ht, &st, &cj)?;
                operand_unchanged("e", e, &he, &se, &cj)?;
            }
            Case::AllOps { a, b, rot } => {
                let uni = universe(&[a, b], &[]);
                let ha = a.intern(&env);
                let hb = b.intern(&env);
                let (ta, tb) = (a.over(&uni), b.over(&uni));
                for round in 0..2 {
                    for k in 0..BINOPS.len() {
                        let op = BINOPS[(k + rot + round * 3) % BINOPS.len()];
                        let r = env_binop(&env, op, Rc::clone(&ha), Rc::clone(&hb));
                        expect_table(&r, &uni, &tt_binop(op, &ta, &tb), &format!("{} (after other connectives on the same operands)", op), &cj)?;
                        let r2 = env_binop(&env, op, Rc::clone(&hb), Rc::clone(&ha));
                        expect_table(&r2, &uni, &tt_binop(op, &tb, &ta), &format!("{} swapped (after other connectives on the same operands)", op), &cj)?;
                    }
                    let n = env.not(Rc::clone(&ha));
                    expect_table(&n, &uni, &ta.not(), "not (after connectives)", &cj)?;
                    let i = env.ite(Rc::clone(&ha), Rc::clone(&hb), Rc::clone(&ha));
                    expect_table(&i, &uni, &ta.ite(&tb, &ta), "ite (after connectives)", &cj)?;
                }
            }
            Case::Var { id } => {
                let r = env.var(*id);
                // projection: check against a universe with neighbours
                let mut uni = vec![*id];
                if *id > 0 {
                    uni.push(id - 1);
                }
                uni.push(id + 1);
                uni.sort();
                let p = uni.iter().position(|x| x == id).unwrap();
                expect_table(&r, &uni, &TT::var(uni.len(), p), "var", &cj)?;
            }
            Case::Const { b } => {
                let r = env.mk_const(*b);
                expect_table(&r, &[0, 1], &TT::konst(2, *b), "const", &cj)?;
                let ok = if *b { r.is_true() } else { r.is_false() };
                if !ok {
                    return Err(Violation::new("mk_const is not the leaf", cj.clone()));
                }
            }
        }
        Ok(())
    })
}

impl Fun {
    pub fn ids_sorted(&self) -> Vec<usize> {
        let mut v = self.ids.clone();
        v.sort();
        v
    }
}

fn nontrivial(c: &Case) -> bool {
    match c {
        Case::Bin { a, b, alias, .. } => {
            !*alias && !a.tt.is_const() && !b.tt.is_const() && a.support_ids() != b.support_ids()
        }
        Case::Ite { c, t, e } => {
            !c.tt.is_const() && !t.tt.is_const() && !e.tt.is_const() && t != e
        }
        Case::Not { a } => a.tt.support().len() >= 2,
        Case::AllOps { a, b, .. } => !a.tt.is_const() && !b.tt.is_const() && a != b,
        _ => false,
    }
}

fn record(c: &Case, st: &mut Stats) {
    st.eval();
    let j = c.to_json();
    match c {
        Case::Bin { op, a, b, alias } => {
            st.class(&format!("op:{}", op));
            if *alias {
                st.class("aliased-operand");
            } else {
                let (sa, sb) = (a.support_ids(), b.support_ids());
                let inter = sa.iter().filter(|x| sb.contains(x)).count();
                let cls = if sa.is_empty() || sb.is_empty() {
                    "support:constant-operand"
                } else if sa == sb {
                    "support:equal"
                } else if inter == 0 {
                    let interleaved = sa.iter().any(|x| sb.iter().any(|y| y < x))
                        && sb.iter().any(|x| sa.iter().any(|y| y < x))
                        && !(sa.last() < sb.first() || sb.last() < sa.first());
                    if interleaved {
                        "support:disjoint-interleaved"
                    } else {
                        "support:disjoint-separated"
                    }
                } else if inter == sa.len() || inter == sb.len() {
                    "support:nested"
                } else {
                    "support:overlapping"
                };
                st.class(cls);
            }
        }
        Case::Not { .. } => st.class("op:not"),
        Case::AllOps { .. } => st.class("all-connectives-on-the-same-handles"),
        Case::Ite { .. } => st.class("op:ite"),
        Case::Var { .. } => st.class("op:var"),
        Case::Const { .. } => st.class("op:const"),
    }
    if nontrivial(c) {
        let fresh = st.nontrivial(fnv_str(&j.to_string()));
        if fresh {
            st.nt_sample(|| j.clone());
        }
    } else if st.want_sample() {
        st.sample(j);
    }
}

pub fn layouts2() -> Vec<(Vec<usize>, Vec<usize>)> {
    vec![
        (vec![0, 1], vec![0, 1]),
        (vec![0, 1], vec![1, 2]),
        (vec![0, 1], vec![2, 3]),
        (vec![0, 2], vec![1, 3]),
        (vec![0, 4], vec![2, 4]),
        (vec![3, 7], vec![1, 3]),
        (vec![5, 2], vec![9, 0]),
    ]
}

pub fn layouts3() -> Vec<(Vec<usize>, Vec<usize>)> {
    vec![
        (vec![0, 1, 2], vec![0, 1, 2]),
        (vec![0, 4, 7], vec![2, 4, 9]),
        (vec![0, 2, 4], vec![1, 3, 5]),
        (vec![1, 2, 3], vec![3, 4, 5]),
    ]
}

fn gen_case(t: &mut Tape) -> Case {
    match t.choose(14) {
        12 | 13 => Case::AllOps {
            a: gen_fun(t, 5, 9),
            b: gen_fun(t, 5, 9),
            rot: t.choose(7),
        },
        0 => Case::Const { b: t.flag() },
        1 => Case::Var { id: t.choose(40) },
        2 => Case::Not {
            a: gen_fun(t, 6, 10),
        },
        3 | 4 => Case::Ite {
            c: gen_fun(t, 4, 9),
            t: gen_fun(t, 4, 9),
            e: gen_fun(t, 4, 9),
        },
        5 => {
            let op = BINOPS[t.choose(7)].to_string();
            let a = gen_fun(t, 5, 9);
            Case::Bin {
                op,
                b: a.clone(),
                a,
                alias: true,
            }
        }
        _ => {
            let op = BINOPS[t.choose(7)].to_string();
            Case::Bin {
                op,
                a: gen_fun(t, 5, 9),
                b: gen_fun(t, 5, 9),
                alias: false,
            }
        }
    }
}

pub fn run(ctx: &mut Ctx) -> Result<(), Violation> {
    ctx.rule = "cases = (operation, operand functions as truth tables placed on concrete variable ids, argument position); \
                exhaustive stages enumerate all pairs of functions of 2 (and, thorough, 3) variables under several id layouts \
                (equal, nested, overlapping, disjoint, interleaved, gapped, reversed-position) for every connective, plus not/var/const; \
                random stages draw operands of up to 5 variables with ids from 0..9. Non-trivial = binary case with both operands \
                non-constant and different supports, ite with three non-constant operands, not over >= 2 variables; distinct by the serialized case. Operand provenance: created in the environment through mk_choice (default), or - in a share of the random cases and in dedicated stages - plain values that belong to no environment / nodes of another environment (what BDD::<usize>::from(named) and the repository's own parser tests produce)."
        .to_string();
    ctx.rule.push_str(" Wide stage: ");
    ctx.rule.push_str(crate::wide::RULE);
    ctx.assume("operands are created in the environment through mk_choice/mk_const (plain::intern), never by the operation under test");
    ctx.assume("oracle: pointwise bit operations on 2^k-bit truth tables (harness code)");

    // stage 1: all pairs of 2-variable functions x ops x layouts (+ alias, not)
    let l2 = layouts2();
    let n = 16u64 * 16 * 7 * l2.len() as u64;
    let r = par_exhaustive(ctx, n, |i, st| {
        let mut i = i as usize;
        let fa = i % 16;
        i /= 16;
        let fb = i % 16;
        i /= 16;
        let op = BINOPS[i % 7];
        i /= 7;
        let (ia, ib) = &l2[i];
        let c = Case::Bin {
            op: op.to_string(),
            a: Fun::new(TT::from_bits(2, fa as u64), ia.clone()),
            b: Fun::new(TT::from_bits(2, fb as u64), ib.clone()),
            alias: false,
        };
        record(&c, st);
        check_case(&c)
    });
    ctx.stage("pairs-2var-all-ops-layouts", true, r)?;
    for mode in [crate::fun::Operands::Plain, crate::fun::Operands::OtherEnv] {
        let r = par_exhaustive(ctx, n, |i, st| {
            let mut i = i as usize;
            let fa = i % 16;
            i /= 16;
            let fb = i % 16;
            i /= 16;
            let op = BINOPS[i % 7];
            i /= 7;
            let (ia, ib) = &l2[i];
            let c = Case::Bin {
                op: op.to_string(),
                a: Fun::new(TT::from_bits(2, fa as u64), ia.clone()),
                b: Fun::new(TT::from_bits(2, fb as u64), ib.clone()),
                alias: false,
            };
            st.eval();
            st.class(&format!("operands:{}", mode.name()));
            crate::fun::with_operands(mode, || check_case(&c))
        });
        ctx.stage(&format!("pairs-2var-all-ops-layouts-operands-{}", mode.name()), true, r)?;
    }

    // stage 1b: all connectives in sequence on the same handles of one environment
    let n = 16u64 * 16 * l2.len() as u64;
    let r = par_exhaustive(ctx, n, |i, st| {
        let mut i = i as usize;
        let fa = i % 16;
        i /= 16;
        let fb = i % 16;
        i /= 16;
        let (ia, ib) = &l2[i];
        let c = Case::AllOps {
            a: Fun::new(TT::from_bits(2, fa as u64), ia.clone()),
            b: Fun::new(TT::from_bits(2, fb as u64), ib.clone()),
            rot: (fa + fb) % 7,
        };
        st.evals(15);
        record(&c, st);
        check_case(&c)
    });
    ctx.stage("all-connectives-in-sequence-2var-pairs", true, r)?;

    // stage 2: unary / alias / var / const exhaustive over 3-variable functions
    let r = par_exhaustive(ctx, 256, |i, st| {
        for ids in [vec![0usize, 1, 2], vec![2, 5, 9], vec![7, 3, 4]] {
            let f = Fun::new(TT::from_bits(3, i), ids);
            let c = Case::Not { a: f.clone() };
            record(&c, st);
            check_case(&c)?;
            for op in BINOPS {
                let c = Case::Bin {
                    op: op.to_string(),
                    a: f.clone(),
                    b: f.clone(),
                    alias: true,
                };
                record(&c, st);
                check_case(&c)?;
            }
        }
        if i < 64 {
            let c = Case::Var { id: i as usize };
            record(&c, st);
            check_case(&c)?;
        }
        if i < 2 {
            let c = Case::Const { b: i == 1 };
            record(&c, st);
            check_case(&c)?;
        }
        Ok(())
    });
    ctx.stage("unary-alias-var-const-3var", true, r)?;

    // stage 3: ite over all triples of 2-variable functions on an overlapping layout
    let r = par_exhaustive(ctx, 16 * 16 * 16, |i, st| {
        let (a, b, c) = (i % 16, (i / 16) % 16, i / 256);
        for (ic, it, ie) in [
            (vec![0usize, 1], vec![1usize, 2], vec![0usize, 2]),
            (vec![4, 6], vec![1, 9], vec![6, 9]),
        ] {
            let case = Case::Ite {
                c: Fun::new(TT::from_bits(2, a), ic),
                t: Fun::new(TT::from_bits(2, b), it),
                e: Fun::new(TT::from_bits(2, c), ie),
            };
            record(&case, st);
            check_case(&case)?;
        }
        Ok(())
    });
    ctx.stage("ite-triples-2var", true, r)?;

    {
        let l3: Vec<(Vec<usize>, Vec<usize>)> = if ctx.tier == Tier::Quick { layouts3().into_iter().skip(1).take(1).collect() } else { layouts3() };
        let n = 256u64 * 256 * l3.len() as u64;
        let r = par_exhaustive(ctx, n, |i, st| {
            let mut i = i as usize;
            let fa = i % 256;
            i /= 256;
            let fb = i % 256;
            i /= 256;
            let (ia, ib) = &l3[i];
            for op in BINOPS {
                let c = Case::Bin {
                    op: op.to_string(),
                    a: Fun::new(TT::from_bits(3, fa as u64), ia.clone()),
                    b: Fun::new(TT::from_bits(3, fb as u64), ib.clone()),
                    alias: false,
                };
                record(&c, st);
                check_case(&c)?;
            }
            Ok(())
        });
        ctx.stage("pairs-3var-all-ops-layouts", true, r)?;
    }

    let cases = ctx.tier.cases(100_000, 12_000_000);
    let r = par_random(ctx, "random-operands", cases, 120, |tape, st| {
        let mut t = Tape::new(tape);
        let c = gen_case(&mut t);
        let mode = crate::fun::gen_operands(&mut t);
        record(&c, st);
        st.class(&format!("operands:{}", mode.name()));
        crate::fun::with_operands(mode, || check_case(&c))
    });
    ctx.stage("random-operands", false, r)?;
    let wc = ctx.tier.cases(6_000, 200_000);
    crate::wide::stage_conn(ctx, "wide-operands", false, wc)?;
    crate::wide::stage_collisions(ctx, "operands-with-equal-hash-sub-diagrams", "conn")?;
    crate::wide::fuzz_kind(ctx, "conn", replay)?;
    Ok(())
}

pub fn replay(case: &Value) -> Check {
    if let Some(r) = crate::wide::replay(case) {
        return r;
    }
    match Case::from_json(case) {
        Some(c) => crate::fun::with_operands(crate::fun::case_operands(case), || check_case(&c)),
        None => Err(Violation::new("unreadable replay case", case.clone())),
    }
}
