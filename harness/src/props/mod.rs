//! One module per property.
use crate::engine::{Check, Ctx, Violation};
use serde_json::Value;

pub mod c02;
pub mod c03;

pub struct Prop {
    pub id: &'static str,
    pub run: fn(&mut Ctx) -> Result<(), Violation>,
    pub replay: fn(&Value) -> Check,
}

pub fn registry() -> Vec<Prop> {
    vec![
        Prop { id: "C02", run: c02::run, replay: c02::replay },
        Prop { id: "C03", run: c03::run, replay: c03::replay },
    ]
}
