//! C09 — free-variable analysis is exact and bound names never leak into results.

use crate::engine::*;
use crate::front::{self, Run};
use crate::gen::{self, Cfg};
use crate::rast::RAst;
use crate::rlex;
use crate::rparse;
use crate::rprint;
use crate::util::{fnv_str, Tape};
use rsbdd::NamedSymbol;
use serde_json::{json, Value};
use std::collections::BTreeSet;

/// ordering as (name, id) pairs with distinct names and distinct ids
pub type Ordering = Vec<(String, usize)>;

pub fn ordering_json(o: &Option<Ordering>) -> Value {
    match o {
        None => Value::Null,
        Some(v) => Value::Array(v.iter().map(|(n, i)| json!([n, i])).collect()),
    }
}

pub fn ordering_from(v: &Value) -> Option<Option<Ordering>> {
    if v.is_null() {
        return Some(None);
    }
    let a = v.as_array()?;
    let mut out = Vec::new();
    for e in a {
        let p = e.as_array()?;
        out.push((p.first()?.as_str()?.to_string(), p.get(1)?.as_u64()? as usize));
    }
    Some(Some(out))
}

pub fn to_symbols(o: &Option<Ordering>) -> Option<Vec<NamedSymbol>> {
    o.as_ref().map(|v| v.iter().map(|(n, i)| front::sym(n, *i)).collect())
}

/// expected (name, id) for every identifier of the text: listed names keep their ids,
/// the others are numbered after the largest listed id in order of first appearance
pub fn expected_ids(identifiers: &[String], o: &Option<Ordering>) -> Vec<(String, usize)> {
    let mut next = 0usize;
    let empty = Vec::new();
    let listed = o.as_ref().unwrap_or(&empty);
    for (_, i) in listed {
        if *i >= next {
            next = i + 1;
        }
    }
    let mut out = Vec::new();
    for n in identifiers {
        if let Some((_, i)) = listed.iter().find(|(m, _)| m == n) {
            out.push((n.clone(), *i));
        } else {
            out.push((n.clone(), next));
            next += 1;
        }
    }
    out.sort_by_key(|(_, i)| *i);
    out
}

pub fn check(text: &str, ordering: &Option<Ordering>) -> Check {
    let cj = json!({"kind": "freevars", "text": text, "ordering": ordering_json(ordering)});
    let v = |m: String| Violation::new(m, cj.clone());
    let parsed = rparse::parse_text(text.as_bytes()).map_err(|e| v(format!("HARNESS: reference parser: {}", e)))?;
    if parsed.ast.has_ref() {
        return Err(v("HARNESS: references are outside C09".into()));
    }
    let idents = rlex::identifiers(&parsed.tokens);
    let fv: BTreeSet<String> = parsed.ast.free_vars();
    let limit = (1usize << std::cmp::min(idents.len(), 16)) + 2;
    guarded(&cj.clone(), || {
        let (r, pf) = match front::run_text(text.as_bytes(), to_symbols(ordering), Some(limit)) {
            Run::ParseErr(e) => return Err(front::rejection(text, "well-formed formula", &e, &cj)),
            Run::ParsePanic(p) => return Err(v(format!("parser panicked: {}", p))),
            Run::EvalPanic(p, _) => return Err(v(format!("evaluation panicked: {}", p))),
            Run::Ok(r, pf) => (r, pf),
        };
        let got_vars: Vec<(String, usize)> = pf.vars.iter().map(|s| (s.name.as_ref().clone(), s.id)).collect();
        // every identifier of the text exactly once, in variable (id) order, ids distinct
        let mut got_names: Vec<&String> = got_vars.iter().map(|x| &x.0).collect();
        got_names.sort();
        let mut want_names: Vec<&String> = idents.iter().collect();
        want_names.sort();
        if got_names != want_names {
            return Err(v(format!(
                "full variable list {:?} is not every identifier of the text exactly once ({:?})",
                got_vars, idents
            )));
        }
        if got_vars.windows(2).any(|w| w[0].1 >= w[1].1) {
            return Err(v(format!("full variable list {:?} is not in strictly increasing variable order", got_vars)));
        }
        // names listed in the ordering carry exactly the ids the caller gave them
        if let Some(o) = ordering {
            for (n, id) in o {
                if let Some((_, got)) = got_vars.iter().find(|(m, _)| m == n) {
                    if got != id {
                        return Err(v(format!("`{}` is listed with id {} in the ordering but carries id {}", n, id, got)));
                    }
                }
            }
        }
        let got_free: Vec<(String, usize)> = pf.free_vars.iter().map(|s| (s.name.as_ref().clone(), s.id)).collect();
        let want_free: Vec<(String, usize)> = got_vars.iter().filter(|(n, _)| fv.contains(n)).cloned().collect();
        if got_free != want_free {
            return Err(v(format!(
                "reported free variables {:?} but the variables with an occurrence outside every binder of their name are, in variable order, {:?}",
                got_free, want_free
            )));
        }
        let want_vars = got_vars.clone();
        // the answer depends on free variables only
        for n in front::support_names(&r) {
            if !fv.contains(&n) {
                return Err(v(format!("the answer tests `{}`, which is not a free variable", n)));
            }
        }
        // every node symbol's id must be the expected id of its name
        for node in crate::plain::reachable(&r) {
            if let rsbdd::bdd::BDD::Choice(_, s, _) = node.as_ref() {
                let want = want_vars.iter().find(|(n, _)| n == s.name.as_ref()).map(|x| x.1);
                if want != Some(s.id) {
                    return Err(v(format!("answer node `{}` carries id {} instead of {:?}", s.name, s.id, want)));
                }
            }
        }
        // id -> column mapping
        for (col, s) in pf.free_vars.iter().enumerate() {
            let got = pf.to_free_index(s);
            if got != col {
                return Err(v(format!(
                    "to_free_index({}) = {} but `{}` is column {} of the free-variable list",
                    s.name, got, s.name, col
                ))
                .sig("raw2free-indexed-by-id"));
            }
        }
        Ok(())
    })
}

fn binder_only_names(a: &RAst) -> bool {
    fn occ(a: &RAst, out: &mut BTreeSet<String>) {
        if let RAst::Var(n) = a {
            out.insert(n.clone());
        }
        for c in a.children() {
            occ(c, out);
        }
    }
    let mut all = Vec::new();
    a.names_in_order(&mut all);
    let mut o = BTreeSet::new();
    occ(a, &mut o);
    all.iter().any(|n| !o.contains(n))
}

fn gen_ordering(t: &mut Tape, idents: &[String]) -> Option<Ordering> {
    if t.chance(110) {
        return None;
    }
    let mut names: Vec<String> = idents.to_vec();
    // subset
    if t.flag() {
        names.retain(|_| t.flag());
    }
    // superset: unused names before / between / after
    for extra in ["u0", "u1", "zz"] {
        if t.chance(60) {
            let at = t.choose(names.len() + 1);
            names.insert(at, extra.to_string());
        }
    }
    // permutation
    for i in (1..names.len()).rev() {
        let j = t.choose(i + 1);
        names.swap(i, j);
    }
    // ids: contiguous or with gaps
    let gaps = t.flag();
    let mut id = if gaps { t.choose(4) } else { 0 };
    let mut out = Vec::new();
    for n in names {
        out.push((n, id));
        id += 1 + if gaps { t.choose(4) } else { 0 };
    }
    Some(out)
}

pub fn run(ctx: &mut Ctx) -> Result<(), Violation> {
    ctx.rule = "cases = (reference-free formula text, optional ordering as NamedSymbol vector with distinct names and distinct, possibly non-contiguous ids: permutation / subset / superset with unused names). Generator biased to names occurring both bound and free, binders on absent names, nested binders on one name, binder-only names, repeated list entries (name pool of 2..5). \
                Oracle: textbook FV on the reference tree. Checked: .vars == every identifier of the text exactly once, ids strictly increasing, names listed in the ordering carry exactly the caller's ids (how unlisted names are numbered is not prescribed by the property and not judged); .free_vars == the FV members of .vars in the same order; support(eval()) within FV by name, node ids as expected; to_free_index(v) == position in free_vars. \
                Wide stage: conjunctions over 60..300 names (literals, small quantified / fixed-point clauses that bind names occurring free elsewhere, binder-only names), with and without a sparse ordering of the last names. \
                Non-trivial = a name is both bound and free, or a binder-only / vacuous binder exists, or an ordering with an unused or permuted name is supplied; distinct by (text, ordering)."
        .to_string();

    let mut st = Stats::default();
    for text in [
        "a & exists a # a",
        "exists a # b",
        "exists a, a # a & b",
        "forall x # exists x # x",
        "lfp X # a | X",
        "X & lfp X # (X | a)",
        "exists X # lfp X # X | b",
        "lfp X # exists X # X & a",
        "exists # a",
        "[a, exists a # a] >= [b]",
        "if a then exists b # b else b",
    ] {
        st.eval();
        st.class("hand-written-hard-case");
        check(text, &None)?;
    }
    ctx.stage("hand-written-hard-cases", true, (st, None))?;

    let cases = ctx.tier.cases(200_000, 12_000_000);
    let r = par_random(ctx, "random", cases, 260, |tape, st| {
        let mut t = Tape::new(tape);
        let mut cfg = Cfg::standard(2 + t.choose(4), 1 + t.choose(5));
        cfg.fix_names = vec!["X".into(), "a".into(), "b".into()];
        cfg.max_list = 3;
        cfg.big_consts = false;
        let ast = gen::formula(&mut t, &cfg);
        let text = if t.flag() { rprint::decorated(&ast, &mut t) } else { rprint::plain(&ast) };
        crate::props::c01::self_check(&ast, &text)?;
        let mut idents = Vec::new();
        ast.names_in_order(&mut idents);
        let ord = gen_ordering(&mut t, &idents);
        st.eval();
        let baf = crate::props::c01::bound_and_free(&ast);
        let bo = binder_only_names(&ast);
        if baf {
            st.class("name-both-bound-and-free");
        }
        if bo {
            st.class("binder-only-name");
        }
        if crate::props::c01::has_shadowing(&ast, &mut Vec::new()) {
            st.class("nested-binders-same-name");
        }
        match &ord {
            None => st.class("ordering:none"),
            Some(o) => {
                st.class("ordering:given");
                if o.iter().any(|(n, _)| !idents.contains(n)) {
                    st.class("ordering:has-unused-name");
                }
                if o.len() < idents.len() {
                    st.class("ordering:subset");
                }
            }
        }
        if baf || bo || ord.is_some() {
            let key = format!("{}|{}", rprint::plain(&ast), ordering_json(&ord));
            if st.nontrivial(fnv_str(&key)) {
                st.nt_sample(|| json!({"text": text, "ordering": ordering_json(&ord)}));
            }
        } else if st.want_sample() {
            st.sample(json!({"text": text}));
        }
        check(&text, &ord)
    });
    ctx.stage("random-formulas-and-orderings", false, r)?;

    // wide texts: 65..300 names (beyond any machine-word bitmask), the oracle is purely syntactic and
    // the diagrams stay linear (literals and small quantified clauses over neighbouring names)
    let cases = ctx.tier.cases(600, 40_000);
    let r = par_random(ctx, "wide", cases, 700, |tape, st| {
        let mut t = Tape::new(tape);
        let (text, n) = gen_wide_text(&mut t);
        st.eval();
        st.class(if n > 128 { "wide:more-than-128-names" } else if n > 64 { "wide:65..128-names" } else { "wide:up-to-64-names" });
        let ord = if t.chance(60) {
            // the last few names first, with sparse ids
            let k = 1 + t.choose(5);
            Some((0..k.min(n)).map(|j| (format!("w{}", n - 1 - j), 3 * j + 1)).collect::<Ordering>())
        } else {
            None
        };
        if st.nontrivial(fnv_str(&text)) && n <= 70 {
            st.nt_sample(|| json!({"text": text, "ordering": ordering_json(&ord)}));
        }
        check(&text, &ord)
    });
    ctx.stage("wide-texts", false, r)?;
    Ok(())
}

/// conjunction over names w0..w(n-1): literals, and small quantified clauses that bind names which
/// may also occur free elsewhere (so bound / free / both all occur at every position of the order)
fn gen_wide_text(t: &mut Tape) -> (String, usize) {
    const SIZES: [usize; 10] = [63, 64, 65, 66, 100, 127, 128, 129, 200, 300];
    let n = if t.chance(150) { SIZES[t.choose(SIZES.len())] } else { 60 + t.choose(120) };
    let w = |i: usize| format!("w{}", i);
    let mut parts: Vec<String> = Vec::new();
    let mut i = 0usize;
    while i < n {
        match t.choose(10) {
            0 if i + 2 < n => {
                // binds w(i+1); w(i) and w(i+2) stay free here
                let kw = ["exists", "forall", "any", "all"][t.choose(4)];
                parts.push(format!("({} {} # ({} | {} | -{}))", kw, w(i + 1), w(i), w(i + 1), w(i + 2)));
                i += 3;
            }
            1 if i + 1 < n => {
                // binder-only name w(i+1), vacuous
                parts.push(format!("(exists {} # {})", w(i + 1), w(i)));
                i += 2;
            }
            2 if i + 1 < n => {
                // bound here, free again later in the text
                parts.push(format!("(forall {} # ({} | {}))", w(i), w(i), w(i + 1)));
                parts.push(if t.flag() { w(i) } else { format!("-{}", w(i)) });
                i += 2;
            }
            3 if i + 1 < n => {
                parts.push(format!("(lfp {} # ({} | {}))", w(i), w(i), w(i + 1)));
                i += 2;
            }
            _ => {
                parts.push(if t.flag() { w(i) } else { format!("-{}", w(i)) });
                i += 1;
            }
        }
    }
    (parts.join(" & "), n)
}

pub fn replay(case: &Value) -> Check {
    match (case["text"].as_str(), ordering_from(&case["ordering"])) {
        (Some(t), Some(o)) => check(t, &o),
        _ => Err(Violation::new("unreadable replay case", case.clone())),
    }
}
