//! Reference semantics of the formula language on truth tables, written from README.md.
//!
//! All identifiers of the text (bound and free) share one position space, which gives
//! lexical scoping for free: a quantifier cofactors the table of its body on the bound
//! position, a fixed-point name is looked up in an environment `name -> table` that an
//! inner quantifier or fixed point on the same name removes.  The value of a
//! fixed-point name is a function of ALL variables, so a quantifier inside the body
//! also ranges over it.

use crate::rast::{BinOp, RAst};
use crate::tt::TT;

#[derive(Debug, Clone, PartialEq, Eq)]
pub enum SemError {
    /// a fixed point did not stabilise within the lattice height (non-monotone body)
    NonConvergent,
    UnknownName(String),
}

#[derive(Clone)]
struct Env<'a> {
    names: &'a [String],
    /// innermost last: (name, Some(table)) = fixed-point binding, None = shadowed by a quantifier
    binds: Vec<(String, Option<TT>)>,
    /// statistics: largest number of iterations any fixed point needed
    pub max_iters: usize,
}

impl<'a> Env<'a> {
    fn pos(&self, n: &str) -> Result<usize, SemError> {
        self.names
            .iter()
            .position(|x| x == n)
            .ok_or_else(|| SemError::UnknownName(n.to_string()))
    }
    fn lookup(&self, n: &str) -> Option<&TT> {
        for (name, v) in self.binds.iter().rev() {
            if name == n {
                return v.as_ref();
            }
        }
        None
    }
}

pub struct Outcome {
    pub table: TT,
    pub max_fix_iterations: usize,
}

/// Truth table of `ast` over `names` (position p = names[p]). `fix_env` supplies tables
/// for free fixed-point names (used by the Knaster-Tarski oracle to evaluate T[X:=r]).
pub fn table_with(ast: &RAst, names: &[String], fix_env: &[(String, TT)]) -> Result<Outcome, SemError> {
    let mut env = Env {
        names,
        binds: fix_env.iter().map(|(n, t)| (n.clone(), Some(t.clone()))).collect(),
        max_iters: 0,
    };
    let t = eval(ast, &mut env)?;
    Ok(Outcome {
        table: t,
        max_fix_iterations: env.max_iters,
    })
}

pub fn table(ast: &RAst, names: &[String]) -> Result<TT, SemError> {
    table_with(ast, names, &[]).map(|o| o.table)
}

fn eval(ast: &RAst, env: &mut Env) -> Result<TT, SemError> {
    let k = env.names.len();
    Ok(match ast {
        RAst::False => TT::konst(k, false),
        RAst::True => TT::konst(k, true),
        // an undefined reference denotes false
        RAst::Ref(_) => TT::konst(k, false),
        RAst::Var(n) => match env.lookup(n) {
            Some(t) => t.clone(),
            None => TT::var(k, env.pos(n)?),
        },
        RAst::Not(a) => eval(a, env)?.not(),
        RAst::Bin(op, a, b) => {
            let x = eval(a, env)?;
            let y = eval(b, env)?;
            match op {
                BinOp::And => x.and(&y),
                BinOp::Or => x.or(&y),
                BinOp::Xor => x.xor(&y),
                BinOp::Nor => x.nor(&y),
                BinOp::Nand => x.nand(&y),
                BinOp::Implies => x.implies(&y),
                BinOp::ImpliesInv => y.implies(&x),
                BinOp::Iff => x.iff(&y),
            }
        }
        RAst::Ite(c, t, e) => {
            let c = eval(c, env)?;
            let t = eval(t, env)?;
            let e = eval(e, env)?;
            c.ite(&t, &e)
        }
        RAst::Quant(ex, ns, body) => {
            let mark = env.binds.len();
            for n in ns {
                env.binds.push((n.clone(), None));
            }
            let r = eval(body, env);
            env.binds.truncate(mark);
            let mut t = r?;
            for n in ns {
                let p = env.pos(n)?;
                t = if *ex { t.exists(p) } else { t.forall(p) };
            }
            t
        }
        RAst::CountConst(op, l, n) => {
            let tabs: Vec<TT> = l.iter().map(|f| eval(f, env)).collect::<Result<_, _>>()?;
            let n = *n as i128;
            TT::count_cmp(k, &tabs, |c| op.holds(c, n))
        }
        RAst::CountList(op, l, r) => {
            let a: Vec<TT> = l.iter().map(|f| eval(f, env)).collect::<Result<_, _>>()?;
            let b: Vec<TT> = r.iter().map(|f| eval(f, env)).collect::<Result<_, _>>()?;
            TT::count2_cmp(k, &a, &b, |x, y| op.holds(x, y))
        }
        RAst::Fix(name, greatest, body) => {
            // Kleene iteration from bottom / top. The chain of a monotone body is strictly
            // monotone until it stabilises, so 2^(2^k) is a (huge) bound; the useful bound is
            // the lattice height 2^k + 1; we allow one more for the confirming iteration.
            let cap = (1usize << k) + 2;
            let mut cur = TT::konst(k, *greatest);
            let mut iters = 0usize;
            loop {
                iters += 1;
                if iters > cap {
                    return Err(SemError::NonConvergent);
                }
                env.binds.push((name.clone(), Some(cur.clone())));
                let next = eval(body, env);
                env.binds.pop();
                let next = next?;
                if next == cur {
                    break;
                }
                cur = next;
            }
            if iters > env.max_iters {
                env.max_iters = iters;
            }
            cur
        }
    })
}

/// Pointwise evaluation of a quantifier-free, fixed-point-free formula under a total
/// assignment (for formulas over hundreds of variables).
pub fn eval_at<F: Fn(&str) -> bool>(ast: &RAst, asg: &F) -> Result<bool, String> {
    Ok(match ast {
        RAst::False => false,
        RAst::True => true,
        RAst::Ref(_) => false,
        RAst::Var(n) => asg(n),
        RAst::Not(a) => !eval_at(a, asg)?,
        RAst::Bin(op, a, b) => {
            let x = eval_at(a, asg)?;
            let y = eval_at(b, asg)?;
            match op {
                BinOp::And => x && y,
                BinOp::Or => x || y,
                BinOp::Xor => x ^ y,
                BinOp::Nor => !(x || y),
                BinOp::Nand => !(x && y),
                BinOp::Implies => !x || y,
                BinOp::ImpliesInv => !y || x,
                BinOp::Iff => x == y,
            }
        }
        RAst::Ite(c, t, e) => {
            if eval_at(c, asg)? {
                eval_at(t, asg)?
            } else {
                eval_at(e, asg)?
            }
        }
        RAst::CountConst(op, l, n) => {
            let mut c = 0i128;
            for f in l {
                if eval_at(f, asg)? {
                    c += 1;
                }
            }
            op.holds(c, *n as i128)
        }
        RAst::CountList(op, l, r) => {
            let mut a = 0i128;
            for f in l {
                if eval_at(f, asg)? {
                    a += 1;
                }
            }
            let mut b = 0i128;
            for f in r {
                if eval_at(f, asg)? {
                    b += 1;
                }
            }
            op.holds(a, b)
        }
        RAst::Quant(..) | RAst::Fix(..) => return Err("eval_at: quantifier or fixed point".into()),
    })
}


// ---------------------------------------------------------------------------------------------
// The same semantics on reference diagrams (`refbdd::Ref`) instead of truth tables: no limit on
// the number of names, cost proportional to diagram sizes. Level of a name = its position in
// `names`. Written to mirror `eval` above clause by clause.

use crate::refbdd::{self, Ref};

struct DEnv<'a> {
    names: &'a [String],
    binds: Vec<(String, Option<refbdd::Id>)>,
    max_iters: usize,
    fix_cap: usize,
}

impl<'a> DEnv<'a> {
    fn pos(&self, n: &str) -> Result<usize, SemError> {
        self.names.iter().position(|x| x == n).ok_or_else(|| SemError::UnknownName(n.to_string()))
    }
    fn lookup(&self, n: &str) -> Option<refbdd::Id> {
        for (name, v) in self.binds.iter().rev() {
            if name == n {
                return *v;
            }
        }
        None
    }
}

pub struct DOutcome {
    pub id: refbdd::Id,
    pub max_fix_iterations: usize,
}

/// Reference diagram of `ast` in manager `m`; fixed points give up (NonConvergent) after `fix_cap` applications.
pub fn diagram(ast: &RAst, names: &[String], m: &mut Ref, fix_cap: usize) -> Result<DOutcome, SemError> {
    let mut env = DEnv { names, binds: Vec::new(), max_iters: 0, fix_cap };
    let id = deval(ast, &mut env, m)?;
    Ok(DOutcome { id, max_fix_iterations: env.max_iters })
}

fn deval(ast: &RAst, env: &mut DEnv, m: &mut Ref) -> Result<refbdd::Id, SemError> {
    Ok(match ast {
        RAst::False => refbdd::F,
        RAst::True => refbdd::T,
        RAst::Ref(_) => refbdd::F,
        RAst::Var(n) => match env.lookup(n) {
            Some(t) => t,
            None => {
                let p = env.pos(n)?;
                m.var(p)
            }
        },
        RAst::Not(a) => {
            let x = deval(a, env, m)?;
            m.not(x)
        }
        RAst::Bin(op, a, b) => {
            let x = deval(a, env, m)?;
            let y = deval(b, env, m)?;
            match op {
                BinOp::And => m.and(x, y),
                BinOp::Or => m.or(x, y),
                BinOp::Xor => m.xor(x, y),
                BinOp::Nor => m.apply(refbdd::OP_NOR, x, y),
                BinOp::Nand => m.apply(refbdd::OP_NAND, x, y),
                BinOp::Implies => m.imp(x, y),
                BinOp::ImpliesInv => m.imp(y, x),
                BinOp::Iff => m.iff(x, y),
            }
        }
        RAst::Ite(c, t, e) => {
            let c = deval(c, env, m)?;
            let t = deval(t, env, m)?;
            let e = deval(e, env, m)?;
            m.ite(c, t, e)
        }
        RAst::Quant(ex, ns, body) => {
            let mark = env.binds.len();
            for n in ns {
                env.binds.push((n.clone(), None));
            }
            let r = deval(body, env, m);
            env.binds.truncate(mark);
            let t = r?;
            let mut vs = std::collections::BTreeSet::new();
            for n in ns {
                vs.insert(env.pos(n)?);
            }
            m.quant(*ex, &vs, t)
        }
        RAst::CountConst(op, l, n) => {
            let mut ids = Vec::new();
            for f in l {
                ids.push(deval(f, env, m)?);
            }
            let n = *n as i128;
            m.count_cmp(&ids, |c| op.holds(c, n))
        }
        RAst::CountList(op, l, r) => {
            let mut a = Vec::new();
            for f in l {
                a.push(deval(f, env, m)?);
            }
            let mut b = Vec::new();
            for f in r {
                b.push(deval(f, env, m)?);
            }
            m.count2_cmp(&a, &b, |x, y| op.holds(x, y))
        }
        RAst::Fix(name, greatest, body) => {
            let mut cur = if *greatest { refbdd::T } else { refbdd::F };
            let mut iters = 0usize;
            loop {
                iters += 1;
                if iters > env.fix_cap {
                    return Err(SemError::NonConvergent);
                }
                env.binds.push((name.clone(), Some(cur)));
                let next = deval(body, env, m);
                env.binds.pop();
                let next = next?;
                if next == cur {
                    break;
                }
                cur = next;
            }
            if iters > env.max_iters {
                env.max_iters = iters;
            }
            cur
        }
    })
}

#[cfg(test)]
mod tests {
    use super::*;
    use crate::rparse;

    fn tab(text: &str) -> (TT, Vec<String>) {
        let p = rparse::parse_text(text.as_bytes()).unwrap();
        let names = crate::rlex::identifiers(&p.tokens);
        (table(&p.ast, &names).unwrap(), names)
    }

    #[test]
    fn readme_identities() {
        assert!(tab("gfp X # X").0.is_true());
        assert!(tab("lfp X # X").0.is_false());
        assert!(tab("(gfp X # a) <=> a").0.is_true());
        assert!(tab("(mu X # a) <=> a").0.is_true());
        assert!(tab("nu X # true").0.is_true());
        assert!(tab("mu X # false").0.is_false());
        assert!(tab("([a1,a2,a3,a4] >= [b1,b2,b3,b4] & [b1,b2,b3,b4] >= [c1,c2,c3,c4]) => [a1,a2,a3,a4] >= [c1,c2,c3,c4]").0.is_true());
        assert!(tab("(if a then b else c) <=> ((a => b) & ((!a) => c))").0.is_true());
        assert!(tab("forall a # true").0.is_true());
        // right associative, no precedence: a & b | c  ==  a & (b | c)
        assert!(tab("(a & b | c) <=> (a & (b | c))").0.is_true());
        assert!(!tab("(a & b | c) <=> ((a & b) | c)").0.is_true());
        // `<=` as connective is "implied by"
        assert!(tab("(a <= b) <=> (b => a)").0.is_true());
        // strict comparisons
        assert!(tab("([a, b] < 1) <=> (-a & -b)").0.is_true());
        assert!(tab("([a, b] > 1) <=> (a & b)").0.is_true());
        // the repository's fixed-point test: X collects a, then b, then c
        let (t, names) = tab("(mu X # (a | X) | (if (all a # a in X) then (X | b) else X) | (if (all b # b in X) then (X | c) else X)) <=> (a|b|c)");
        assert!(t.is_true(), "{:?} {:?}", t, names);
    }

    #[test]
    fn diagrams_agree_with_tables() {
        for text in [
            "a & b | c", "exists a # a ^ b", "forall a, b # (a | c) => b", "[a, b, c, a] >= 2", "[a, b] < [c, -a, b]",
            "lfp X # a | (b & X)", "gfp X # (a | X) & (exists a # X & b)", "if a then b else -c", "[a,b,c] = 1 nand c",
            "(mu X # (a | X) | (if (all a # a in X) then (X | b) else X) | (if (all b # b in X) then (X | c) else X))",
        ] {
            let p = rparse::parse_text(text.as_bytes()).unwrap();
            let names = crate::rlex::identifiers(&p.tokens);
            let t = table(&p.ast, &names).unwrap();
            let mut m = Ref::new();
            let d = diagram(&p.ast, &names, &mut m, 100).unwrap();
            let syms: Vec<usize> = (0..names.len()).collect();
            let pl = m.to_plain(d.id);
            assert_eq!(crate::plain::table_usize(&pl, &syms).unwrap(), t, "{}", text);
        }
    }
}
