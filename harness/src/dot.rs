//! A minimal reader for exactly the DOT text the `dot` crate emits:
//! `digraph NAME {`, `    ID[label="…"];`, `    A -> B[label="…"];`, `}`.

use std::collections::HashMap;

#[derive(Debug, Clone, Default)]
pub struct Graph {
    pub name: String,
    /// declaration order
    pub nodes: Vec<(String, String)>,
    pub edges: Vec<(String, String, String)>,
}

fn unescape(s: &str) -> Result<String, String> {
    let mut out = String::new();
    let mut it = s.chars().peekable();
    while let Some(c) = it.next() {
        if c != '\\' {
            out.push(c);
            continue;
        }
        match it.next() {
            Some('n') => out.push('\n'),
            Some('t') => out.push('\t'),
            Some('r') => out.push('\r'),
            Some('0') => out.push('\0'),
            Some('\'') => out.push('\''),
            Some('"') => out.push('"'),
            Some('\\') => out.push('\\'),
            Some('u') => {
                if it.next() != Some('{') {
                    return Err("bad \\u escape".into());
                }
                let mut hex = String::new();
                loop {
                    match it.next() {
                        Some('}') => break,
                        Some(h) => hex.push(h),
                        None => return Err("unterminated \\u escape".into()),
                    }
                }
                let cp = u32::from_str_radix(&hex, 16).map_err(|_| "bad \\u digits".to_string())?;
                out.push(char::from_u32(cp).ok_or("bad code point")?);
            }
            other => return Err(format!("unknown escape \\{:?}", other)),
        }
    }
    Ok(out)
}

pub fn parse(text: &str) -> Result<Graph, String> {
    let mut g = Graph::default();
    let mut lines = text.lines();
    let first = lines.next().ok_or("empty DOT text")?;
    let first = first.trim();
    let rest = first
        .strip_prefix("digraph ")
        .ok_or_else(|| format!("expected `digraph`, got {:?}", first))?;
    g.name = rest
        .strip_suffix(" {")
        .ok_or_else(|| format!("expected ` {{` at the end of {:?}", first))?
        .to_string();
    let mut closed = false;
    for line in lines {
        let l = line.trim();
        if l.is_empty() {
            continue;
        }
        if closed {
            return Err(format!("text after the closing brace: {:?}", l));
        }
        if l == "}" {
            closed = true;
            continue;
        }
        let split = l
            .find("[label=\"")
            .ok_or_else(|| format!("statement without label: {:?}", l))?;
        let head = &l[..split];
        let tail = &l[split + 8..];
        let label_raw = tail
            .strip_suffix("\"];")
            .ok_or_else(|| format!("statement does not end with `\"];`: {:?}", l))?;
        let label = unescape(label_raw)?;
        let ok_id = |s: &str| !s.is_empty() && s.chars().all(|c| c.is_ascii_alphanumeric() || c == '_');
        if let Some((a, b)) = head.split_once(" -> ") {
            if !ok_id(a) || !ok_id(b) {
                return Err(format!("malformed edge endpoints in {:?}", l));
            }
            g.edges.push((a.to_string(), label, b.to_string()));
        } else {
            if !ok_id(head) {
                return Err(format!("malformed node id in {:?}", l));
            }
            g.nodes.push((head.to_string(), label));
        }
    }
    if !closed {
        return Err("missing closing brace".into());
    }
    Ok(g)
}

impl Graph {
    /// each id declared exactly once; every edge endpoint declared
    pub fn well_formed(&self) -> Result<HashMap<String, String>, String> {
        let mut m = HashMap::new();
        for (id, label) in &self.nodes {
            if m.insert(id.clone(), label.clone()).is_some() {
                return Err(format!("node id {} declared more than once", id));
            }
        }
        for (a, _, b) in &self.edges {
            if !m.contains_key(a) {
                return Err(format!("edge source {} is not a declared node", a));
            }
            if !m.contains_key(b) {
                return Err(format!("edge target {} is not a declared node", b));
            }
        }
        Ok(m)
    }

    pub fn out_edges(&self, id: &str) -> Vec<(&str, &str)> {
        self.edges
            .iter()
            .filter(|(a, _, _)| a == id)
            .map(|(_, l, b)| (l.as_str(), b.as_str()))
            .collect()
    }

    pub fn roots(&self) -> Vec<&str> {
        self.nodes
            .iter()
            .map(|(id, _)| id.as_str())
            .filter(|id| !self.edges.iter().any(|(_, _, b)| b == id))
            .collect()
    }
}
