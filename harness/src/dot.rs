//! A reader for the DOT language as far as decision graphs, parse trees and edge lists need it
//! (no subgraphs, no HTML identifiers): the layout, quoting style, statement terminators and
//! comments of the text are free; only the graph it denotes is handed to the checks.

use std::collections::HashMap;

#[derive(Debug, Clone, Default)]
pub struct Graph {
    pub name: String,
    pub directed: bool,
    /// declaration order
    pub nodes: Vec<(String, String)>,
    pub edges: Vec<(String, String, String)>,
}

fn unescape(s: &str) -> Result<String, String> {
    let mut out = String::new();
    let mut it = s.chars().peekable();
    while let Some(c) = it.next() {
        if c != '\\' {
            out.push(c);
            continue;
        }
        match it.next() {
            Some('n') => out.push('\n'),
            Some('t') => out.push('\t'),
            Some('r') => out.push('\r'),
            Some('0') => out.push('\0'),
            Some('\'') => out.push('\''),
            Some('"') => out.push('"'),
            Some('\\') => out.push('\\'),
            Some('u') => {
                if it.next() != Some('{') {
                    return Err("bad \\u escape".into());
                }
                let mut hex = String::new();
                loop {
                    match it.next() {
                        Some('}') => break,
                        Some(h) => hex.push(h),
                        None => return Err("unterminated \\u escape".into()),
                    }
                }
                let cp = u32::from_str_radix(&hex, 16).map_err(|_| "bad \\u digits".to_string())?;
                out.push(char::from_u32(cp).ok_or("bad code point")?);
            }
            other => return Err(format!("unknown escape \\{:?}", other)),
        }
    }
    Ok(out)
}

#[derive(Debug, Clone, PartialEq)]
enum Tok {
    /// bare identifier or numeral
    Id(String),
    /// quoted string, raw content (escapes not yet interpreted)
    Quoted(String),
    LBrace,
    RBrace,
    LSq,
    RSq,
    Semi,
    Comma,
    Eq,
    Colon,
    Arrow,
    Dashes,
}

fn tokenize(text: &str) -> Result<Vec<Tok>, String> {
    let cs: Vec<char> = text.chars().collect();
    let mut out = Vec::new();
    let mut i = 0usize;
    let mut line_start = true;
    while i < cs.len() {
        let c = cs[i];
        if c == '\n' {
            line_start = true;
            i += 1;
            continue;
        }
        if c.is_whitespace() {
            i += 1;
            continue;
        }
        if c == '#' && line_start {
            while i < cs.len() && cs[i] != '\n' {
                i += 1;
            }
            continue;
        }
        line_start = false;
        if c == '/' && i + 1 < cs.len() && cs[i + 1] == '/' {
            while i < cs.len() && cs[i] != '\n' {
                i += 1;
            }
            continue;
        }
        if c == '/' && i + 1 < cs.len() && cs[i + 1] == '*' {
            let mut j = i + 2;
            loop {
                if j + 1 >= cs.len() {
                    return Err("unterminated /* comment".into());
                }
                if cs[j] == '*' && cs[j + 1] == '/' {
                    break;
                }
                j += 1;
            }
            i = j + 2;
            continue;
        }
        match c {
            '{' => out.push(Tok::LBrace),
            '}' => out.push(Tok::RBrace),
            '[' => out.push(Tok::LSq),
            ']' => out.push(Tok::RSq),
            ';' => out.push(Tok::Semi),
            ',' => out.push(Tok::Comma),
            '=' => out.push(Tok::Eq),
            ':' => out.push(Tok::Colon),
            _ => {
                if c == '"' {
                    let mut j = i + 1;
                    let mut raw = String::new();
                    loop {
                        if j >= cs.len() {
                            return Err("unterminated quoted string".into());
                        }
                        if cs[j] == '\\' {
                            raw.push(cs[j]);
                            if j + 1 < cs.len() {
                                raw.push(cs[j + 1]);
                            }
                            j += 2;
                            continue;
                        }
                        if cs[j] == '"' {
                            break;
                        }
                        raw.push(cs[j]);
                        j += 1;
                    }
                    out.push(Tok::Quoted(raw));
                    i = j + 1;
                    continue;
                }
                if c == '-' && i + 1 < cs.len() && cs[i + 1] == '>' {
                    out.push(Tok::Arrow);
                    i += 2;
                    continue;
                }
                if c == '-' && i + 1 < cs.len() && cs[i + 1] == '-' {
                    out.push(Tok::Dashes);
                    i += 2;
                    continue;
                }
                if c == '<' {
                    return Err("HTML-like DOT identifiers are not supported by this reader".into());
                }
                let word = |ch: char| ch.is_alphanumeric() || ch == '_' || (ch as u32) >= 0x80;
                if word(c) || c == '-' || c == '.' {
                    let numeral = c.is_ascii_digit() || c == '-' || c == '.';
                    let mut j = i + 1;
                    while j < cs.len() && (word(cs[j]) || (numeral && cs[j] == '.')) {
                        j += 1;
                    }
                    out.push(Tok::Id(cs[i..j].iter().collect()));
                    i = j;
                    continue;
                }
                return Err(format!("unexpected character {:?} in DOT text", c));
            }
        }
        i += 1;
    }
    Ok(out)
}

/// node / graph identifiers: only the escaped quote (and backslash) are interpreted
fn id_text(t: &Tok) -> Option<String> {
    match t {
        Tok::Id(s) => Some(s.clone()),
        Tok::Quoted(raw) => {
            let mut out = String::new();
            let mut it = raw.chars().peekable();
            while let Some(c) = it.next() {
                if c == '\\' {
                    match it.peek() {
                        Some('"') => {
                            out.push('"');
                            it.next();
                        }
                        Some('\\') => {
                            out.push('\\');
                            it.next();
                        }
                        _ => out.push(c),
                    }
                } else {
                    out.push(c);
                }
            }
            Some(out)
        }
        _ => None,
    }
}

struct P {
    t: Vec<Tok>,
    i: usize,
}

impl P {
    fn peek(&self) -> Option<&Tok> {
        self.t.get(self.i)
    }
    fn next(&mut self) -> Option<Tok> {
        let x = self.t.get(self.i).cloned();
        self.i += 1;
        x
    }
    fn eat(&mut self, t: &Tok) -> bool {
        if self.peek() == Some(t) {
            self.i += 1;
            true
        } else {
            false
        }
    }
    fn keyword(&self, k: &str) -> bool {
        matches!(self.peek(), Some(Tok::Id(s)) if s.eq_ignore_ascii_case(k))
    }
    /// zero or more `[ a = b (;|,)? ... ]`; returns the label attribute if present (escapes interpreted)
    fn attr_lists(&mut self) -> Result<Option<String>, String> {
        let mut label = None;
        while self.eat(&Tok::LSq) {
            loop {
                if self.eat(&Tok::RSq) {
                    break;
                }
                let k = self.next().ok_or("unterminated attribute list")?;
                let key = id_text(&k).ok_or_else(|| format!("attribute name expected, got {:?}", k))?;
                if !self.eat(&Tok::Eq) {
                    return Err(format!("`=` expected after attribute {:?}", key));
                }
                let vt = self.next().ok_or("attribute value missing")?;
                let val = match &vt {
                    Tok::Quoted(raw) => unescape(raw)?,
                    Tok::Id(s) => s.clone(),
                    other => return Err(format!("attribute value expected, got {:?}", other)),
                };
                if key.eq_ignore_ascii_case("label") {
                    label = Some(val);
                }
                let _ = self.eat(&Tok::Semi) || self.eat(&Tok::Comma);
            }
        }
        Ok(label)
    }
    fn node_id(&mut self) -> Result<String, String> {
        let t = self.next().ok_or("node identifier expected, got end of text")?;
        let id = id_text(&t).ok_or_else(|| format!("node identifier expected, got {:?}", t))?;
        // ports are accepted and ignored
        while self.eat(&Tok::Colon) {
            let p = self.next().ok_or("port expected")?;
            id_text(&p).ok_or("port expected")?;
        }
        Ok(id)
    }
}

/// Reads the DOT language (graph / digraph, node, edge and attribute statements, edge chains,
/// quoted / bare / numeric identifiers, comments, optional `;`); subgraphs and HTML identifiers
/// are not supported. Node label = its `label` attribute, by default its identifier.
pub fn parse(text: &str) -> Result<Graph, String> {
    let mut p = P { t: tokenize(text)?, i: 0 };
    let mut g = Graph::default();
    if p.keyword("strict") {
        p.next();
    }
    if p.keyword("digraph") {
        g.directed = true;
    } else if p.keyword("graph") {
        g.directed = false;
    } else {
        return Err(format!("expected `graph` or `digraph`, got {:?}", p.peek()));
    }
    p.next();
    if !matches!(p.peek(), Some(Tok::LBrace)) {
        let t = p.next().ok_or("graph name or `{` expected")?;
        g.name = id_text(&t).ok_or_else(|| format!("graph name expected, got {:?}", t))?;
    }
    if !p.eat(&Tok::LBrace) {
        return Err(format!("`{{` expected, got {:?}", p.peek()));
    }
    loop {
        if p.eat(&Tok::Semi) {
            continue;
        }
        if p.eat(&Tok::RBrace) {
            break;
        }
        if p.peek().is_none() {
            return Err("missing closing brace".into());
        }
        if p.keyword("subgraph") || matches!(p.peek(), Some(Tok::LBrace)) {
            return Err("subgraphs are not supported by this reader".into());
        }
        if (p.keyword("graph") || p.keyword("node") || p.keyword("edge")) && matches!(p.t.get(p.i + 1), Some(Tok::LSq)) {
            p.next();
            p.attr_lists()?;
            continue;
        }
        let first = p.node_id()?;
        if p.eat(&Tok::Eq) {
            // graph attribute `a = b`
            let t = p.next().ok_or("attribute value missing")?;
            id_text(&t).ok_or("attribute value expected")?;
            continue;
        }
        let mut chain = vec![first];
        loop {
            let op = match p.peek() {
                Some(Tok::Arrow) => true,
                Some(Tok::Dashes) => false,
                _ => break,
            };
            if op != g.directed {
                return Err(format!(
                    "edge operator {} in a {}",
                    if op { "->" } else { "--" },
                    if g.directed { "digraph" } else { "graph" }
                ));
            }
            p.next();
            chain.push(p.node_id()?);
        }
        let label = p.attr_lists()?;
        if chain.len() == 1 {
            let id = chain.pop().expect("one");
            let l = label.unwrap_or_else(|| id.clone());
            g.nodes.push((id, l));
        } else {
            for w in chain.windows(2) {
                g.edges.push((w[0].clone(), label.clone().unwrap_or_default(), w[1].clone()));
            }
        }
    }
    if p.peek().is_some() {
        return Err(format!("text after the closing brace: {:?}", p.peek()));
    }
    Ok(g)
}

impl Graph {
    /// each id declared exactly once; every edge endpoint declared
    pub fn well_formed(&self) -> Result<HashMap<String, String>, String> {
        let mut m = HashMap::new();
        for (id, label) in &self.nodes {
            if m.insert(id.clone(), label.clone()).is_some() {
                return Err(format!("node id {} declared more than once", id));
            }
        }
        for (a, _, b) in &self.edges {
            if !m.contains_key(a) {
                return Err(format!("edge source {} is not a declared node", a));
            }
            if !m.contains_key(b) {
                return Err(format!("edge target {} is not a declared node", b));
            }
        }
        Ok(m)
    }

    pub fn out_edges(&self, id: &str) -> Vec<(&str, &str)> {
        self.edges
            .iter()
            .filter(|(a, _, _)| a == id)
            .map(|(_, l, b)| (l.as_str(), b.as_str()))
            .collect()
    }

    pub fn roots(&self) -> Vec<&str> {
        self.nodes
            .iter()
            .map(|(id, _)| id.as_str())
            .filter(|id| !self.edges.iter().any(|(_, _, b)| b == id))
            .collect()
    }
}
