//! Small helpers: hashing, seeds, panic capture, byte tape.

use std::cell::RefCell;
use std::panic::{self, AssertUnwindSafe};
use std::sync::Once;

pub fn splitmix64(mut x: u64) -> u64 {
    x = x.wrapping_add(0x9E37_79B9_7F4A_7C15);
    let mut z = x;
    z = (z ^ (z >> 30)).wrapping_mul(0xBF58_476D_1CE4_E5B9);
    z = (z ^ (z >> 27)).wrapping_mul(0x94D0_49BB_1331_11EB);
    z ^ (z >> 31)
}

pub fn fnv(bytes: &[u8]) -> u64 {
    let mut h: u64 = 0xcbf2_9ce4_8422_2325;
    for &b in bytes {
        h ^= b as u64;
        h = h.wrapping_mul(0x0100_0000_01b3);
    }
    h
}

pub fn fnv_str(s: &str) -> u64 {
    fnv(s.as_bytes())
}

pub fn mix(a: u64, b: u64) -> u64 {
    splitmix64(a ^ splitmix64(b))
}

pub fn sub_seed(seed: u64, what: &str, worker: u64) -> u64 {
    splitmix64(seed ^ fnv_str(what) ^ worker.wrapping_mul(0x9E37_79B9_7F4A_7C15))
}

thread_local! {
    static LAST_PANIC: RefCell<Option<String>> = const { RefCell::new(None) };
}

static HOOK: Once = Once::new();

/// Install a silent panic hook that records message and location per thread.
pub fn install_panic_hook() {
    HOOK.call_once(|| {
        panic::set_hook(Box::new(|info| {
            let msg = if let Some(s) = info.payload().downcast_ref::<&str>() {
                (*s).to_string()
            } else if let Some(s) = info.payload().downcast_ref::<String>() {
                s.clone()
            } else {
                "<non-string panic payload>".to_string()
            };
            let loc = info
                .location()
                .map(|l| format!("{}:{}", l.file(), l.line()))
                .unwrap_or_default();
            LAST_PANIC.with(|p| *p.borrow_mut() = Some(format!("{} @ {}", msg, loc)));
        }));
    });
}

/// Run `f`; a panic becomes `Err(message @ location)`.
pub fn catch<T, F: FnOnce() -> T>(f: F) -> Result<T, String> {
    install_panic_hook();
    LAST_PANIC.with(|p| *p.borrow_mut() = None);
    match panic::catch_unwind(AssertUnwindSafe(f)) {
        Ok(v) => Ok(v),
        Err(_) => Err(LAST_PANIC
            .with(|p| p.borrow_mut().take())
            .unwrap_or_else(|| "<panic>".to_string())),
    }
}

/// Deterministic byte tape: an exhausted tape yields zeros, small bytes decode to
/// simple constructs, so shorter/smaller tapes are simpler cases.
pub struct Tape<'a> {
    data: &'a [u8],
    pos: usize,
}

impl<'a> Tape<'a> {
    pub fn new(data: &'a [u8]) -> Self {
        Tape { data, pos: 0 }
    }

    pub fn exhausted(&self) -> bool {
        self.pos >= self.data.len()
    }

    pub fn remaining(&self) -> usize {
        self.data.len().saturating_sub(self.pos)
    }

    pub fn byte(&mut self) -> u8 {
        let b = self.data.get(self.pos).copied().unwrap_or(0);
        self.pos += 1;
        b
    }

    /// value in 0..n, monotone in the byte
    pub fn choose(&mut self, n: usize) -> usize {
        if n <= 1 {
            // still consume, so that tapes stay aligned across alternatives
            let _ = self.byte();
            return 0;
        }
        if n <= 256 {
            (self.byte() as usize * n) >> 8
        } else {
            let v = ((self.byte() as usize) << 8) | self.byte() as usize;
            (v * n) >> 16
        }
    }

    pub fn flag(&mut self) -> bool {
        self.byte() >= 128
    }

    /// true with probability about num/256
    pub fn chance(&mut self, num: u8) -> bool {
        let b = self.byte();
        b > 255 - num
    }

    pub fn u16(&mut self) -> u16 {
        ((self.byte() as u16) << 8) | self.byte() as u16
    }

    pub fn u64(&mut self) -> u64 {
        let mut v = 0u64;
        for _ in 0..8 {
            v = (v << 8) | self.byte() as u64;
        }
        v
    }
}

/// Tiny deterministic PRNG for places where a tape is inconvenient (derived from the seed only).
pub struct Rng(pub u64);

impl Rng {
    pub fn new(seed: u64) -> Self {
        Rng(splitmix64(seed))
    }
    pub fn next(&mut self) -> u64 {
        self.0 = self.0.wrapping_add(0x9E37_79B9_7F4A_7C15);
        let mut z = self.0;
        z = (z ^ (z >> 30)).wrapping_mul(0xBF58_476D_1CE4_E5B9);
        z = (z ^ (z >> 27)).wrapping_mul(0x94D0_49BB_1331_11EB);
        z ^ (z >> 31)
    }
    pub fn below(&mut self, n: usize) -> usize {
        if n == 0 {
            0
        } else {
            (self.next() % n as u64) as usize
        }
    }
    pub fn flag(&mut self) -> bool {
        self.next() & 1 == 1
    }
    pub fn bytes(&mut self, n: usize) -> Vec<u8> {
        (0..n).map(|_| self.next() as u8).collect()
    }
}
