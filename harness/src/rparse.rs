//! Reference LL(1) recursive-descent parser for the grammar
//!
//! ```text
//! formula := sub EOF
//! sub     := simple (binop sub)?                      -- right-assoc, no precedence
//! simple  := '(' sub ')' | count | 'true' | 'false' | REF | VAR | NOT simple
//!          | (EXISTS|FORALL) varlist '#' sub | (LFP|GFP) VAR '#' sub
//!          | IF sub THEN sub ELSE sub
//! varlist := ε | VAR (',' VAR)* ','?
//! count   := flist cop (flist | NUM)     cop := = | <= | >= | < | >
//! flist   := '[' ( ε | sub (',' sub)* ','? ) ']'
//! ```
//! No back-tracking, no fail-over. Records the maximum nesting depth.

use crate::rast::{BinOp, CntOp, RAst};
use crate::rlex::{self, Tok};

pub struct Parser<'a> {
    toks: &'a [Tok],
    pos: usize,
    depth: usize,
    pub max_depth: usize,
}

#[derive(Debug, Clone)]
pub struct Parsed {
    pub ast: RAst,
    pub max_depth: usize,
    pub tokens: Vec<Tok>,
}

impl<'a> Parser<'a> {
    pub fn new(toks: &'a [Tok]) -> Self {
        Parser {
            toks,
            pos: 0,
            depth: 0,
            max_depth: 0,
        }
    }

    /// number of tokens consumed so far
    pub fn position(&self) -> usize {
        self.pos
    }

    fn peek(&self) -> &Tok {
        self.toks.get(self.pos).unwrap_or(&Tok::Eof)
    }

    fn next(&mut self) -> Tok {
        let t = self.peek().clone();
        if self.pos < self.toks.len() {
            self.pos += 1;
        }
        t
    }

    fn expect(&mut self, t: Tok) -> Result<(), String> {
        let got = self.next();
        if got == t {
            Ok(())
        } else {
            Err(format!("expected {:?}, got {:?} at token {}", t, got, self.pos))
        }
    }

    fn enter(&mut self) {
        self.depth += 1;
        if self.depth > self.max_depth {
            self.max_depth = self.depth;
        }
    }

    fn leave(&mut self) {
        self.depth -= 1;
    }

    pub fn formula(&mut self) -> Result<RAst, String> {
        let f = self.sub()?;
        self.expect(Tok::Eof)?;
        Ok(f)
    }

    fn binop(t: &Tok) -> Option<BinOp> {
        Some(match t {
            Tok::And => BinOp::And,
            Tok::Or => BinOp::Or,
            Tok::Xor => BinOp::Xor,
            Tok::Nor => BinOp::Nor,
            Tok::Nand => BinOp::Nand,
            Tok::Implies => BinOp::Implies,
            Tok::ImpliesInv => BinOp::ImpliesInv,
            Tok::Iff => BinOp::Iff,
            _ => return None,
        })
    }

    fn sub(&mut self) -> Result<RAst, String> {
        self.enter();
        let left = self.simple()?;
        let r = if let Some(op) = Self::binop(self.peek()) {
            self.next();
            let right = self.sub()?;
            RAst::Bin(op, Box::new(left), Box::new(right))
        } else {
            left
        };
        self.leave();
        Ok(r)
    }

    fn simple(&mut self) -> Result<RAst, String> {
        self.enter();
        let r = match self.peek().clone() {
            Tok::LParen => {
                self.next();
                let f = self.sub()?;
                self.expect(Tok::RParen)?;
                f
            }
            Tok::LSq => self.count()?,
            Tok::False => {
                self.next();
                RAst::False
            }
            Tok::True => {
                self.next();
                RAst::True
            }
            Tok::Ref(n) => {
                self.next();
                RAst::Ref(n)
            }
            Tok::Var(n) => {
                self.next();
                RAst::Var(n)
            }
            Tok::Not => {
                self.next();
                RAst::Not(Box::new(self.simple()?))
            }
            Tok::Exists | Tok::Forall => {
                let ex = self.next() == Tok::Exists;
                let vars = self.varlist()?;
                self.expect(Tok::Hash)?;
                let body = self.sub()?;
                RAst::Quant(ex, vars, Box::new(body))
            }
            Tok::Gfp | Tok::Lfp => {
                let g = self.next() == Tok::Gfp;
                let name = match self.next() {
                    Tok::Var(n) => n,
                    other => return Err(format!("expected variable after fixed-point keyword, got {:?}", other)),
                };
                self.expect(Tok::Hash)?;
                let body = self.sub()?;
                RAst::Fix(name, g, Box::new(body))
            }
            Tok::If => {
                self.next();
                let c = self.sub()?;
                self.expect(Tok::Then)?;
                let t = self.sub()?;
                self.expect(Tok::Else)?;
                let e = self.sub()?;
                RAst::Ite(Box::new(c), Box::new(t), Box::new(e))
            }
            other => return Err(format!("unexpected token {:?} at {}", other, self.pos)),
        };
        self.leave();
        Ok(r)
    }

    fn varlist(&mut self) -> Result<Vec<String>, String> {
        let mut vars = Vec::new();
        loop {
            if *self.peek() == Tok::Hash {
                break;
            }
            match self.next() {
                Tok::Var(n) => vars.push(n),
                other => return Err(format!("expected variable in binder list, got {:?}", other)),
            }
            if *self.peek() == Tok::Comma {
                self.next();
            } else {
                break;
            }
        }
        Ok(vars)
    }

    fn flist(&mut self) -> Result<Vec<RAst>, String> {
        self.expect(Tok::LSq)?;
        let mut v = Vec::new();
        loop {
            if *self.peek() == Tok::RSq {
                break;
            }
            v.push(self.sub()?);
            if *self.peek() == Tok::Comma {
                self.next();
            } else {
                break;
            }
        }
        self.expect(Tok::RSq)?;
        Ok(v)
    }

    fn count(&mut self) -> Result<RAst, String> {
        let left = self.flist()?;
        let op = match self.next() {
            Tok::Eq => CntOp::Exactly,
            Tok::ImpliesInv => CntOp::AtMost,
            Tok::Geq => CntOp::AtLeast,
            Tok::Lt => CntOp::LessThan,
            Tok::Gt => CntOp::MoreThan,
            other => return Err(format!("expected counting operator, got {:?}", other)),
        };
        if *self.peek() == Tok::LSq {
            let right = self.flist()?;
            Ok(RAst::CountList(op, left, right))
        } else {
            match self.next() {
                Tok::Num(n) => Ok(RAst::CountConst(op, left, n)),
                other => Err(format!("expected number, got {:?}", other)),
            }
        }
    }
}

pub fn parse_tokens(toks: &[Tok]) -> Result<(RAst, usize), String> {
    let mut p = Parser::new(toks);
    let ast = p.formula()?;
    Ok((ast, p.max_depth))
}

/// lex + parse a text (bytes that are not UTF-8 are rejected)
pub fn parse_text(text: &[u8]) -> Result<Parsed, String> {
    let s = std::str::from_utf8(text).map_err(|_| "input is not valid UTF-8".to_string())?;
    let tokens = rlex::lex(s)?;
    let (ast, max_depth) = parse_tokens(&tokens)?;
    Ok(Parsed {
        ast,
        max_depth,
        tokens,
    })
}

/// bracket / construct nesting depth of a token sequence without parsing it
/// (used to bound the domain of C12 for texts the grammar rejects as well)
pub fn token_nesting(toks: &[Tok]) -> usize {
    let mut d = 0usize;
    let mut max = 0usize;
    let mut chain = 0usize;
    for t in toks {
        match t {
            Tok::LParen | Tok::LSq => {
                d += 1;
            }
            Tok::RParen | Tok::RSq => {
                d = d.saturating_sub(1);
            }
            _ => {}
        }
        // every operator / prefix keyword opens one more recursion level
        match t {
            Tok::Not | Tok::Exists | Tok::Forall | Tok::Lfp | Tok::Gfp | Tok::If | Tok::Then | Tok::Else | Tok::And
            | Tok::Or | Tok::Xor | Tok::Nor | Tok::Nand | Tok::Implies | Tok::ImpliesInv | Tok::Iff | Tok::LParen
            | Tok::LSq => chain += 1,
            _ => {}
        }
        max = max.max(d);
    }
    max.max(chain)
}
