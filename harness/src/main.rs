//! vcheck <ID> quick|thorough        run the check for one property
//! vcheck <ID> --replay <file>       re-run one saved case through the same oracle
//!
//! exit 0: held on everything explored; exit 1: VIOLATION line printed;
//! exit 2: harness error / inconclusive.

use serde_json::Value;
use std::path::{Path, PathBuf};
use verif_core::engine::*;
use verif_core::props;

fn verif_dir() -> PathBuf {
    std::env::var("VERIF_DIR")
        .map(PathBuf::from)
        .unwrap_or_else(|_| PathBuf::from("/verif"))
}

fn load_case(path: &Path) -> Result<Value, String> {
    let s = std::fs::read_to_string(path).map_err(|e| format!("{}: {}", path.display(), e))?;
    let v: Value = serde_json::from_str(&s).map_err(|e| format!("{}: {}", path.display(), e))?;
    if v.get("case").is_some() {
        Ok(v["case"].clone())
    } else {
        Ok(v)
    }
}

fn real_main() -> i32 {
    let args: Vec<String> = std::env::args().collect();
    if args.len() < 3 {
        eprintln!("usage: vcheck <ID> quick|thorough | vcheck <ID> --replay <file>");
        return 2;
    }
    let id = args[1].as_str();
    let reg = props::registry();
    let prop = match reg.iter().find(|p| p.id == id) {
        Some(p) => p,
        None => {
            eprintln!("unknown property {}", id);
            return 2;
        }
    };
    let vdir = verif_dir();
    if args[2] == "--replay" {
        if args.len() < 4 {
            eprintln!("--replay needs a file");
            return 2;
        }
        let path = PathBuf::from(&args[3]);
        let case = match load_case(&path) {
            Ok(c) => c,
            Err(e) => {
                eprintln!("{}", e);
                return 2;
            }
        };
        return match (prop.replay)(&case) {
            Err(v) if v.message.starts_with("SKIP:") || is_timeout(&v.message) => {
                println!("replay declined ({}): property={} case={}", v.message, id, path.display());
                0
            }
            Ok(()) => {
                println!("replay passed: property={} case={}", id, path.display());
                0
            }
            Err(v) if v.message.starts_with("HARNESS:") => {
                eprintln!("{}", v.message);
                2
            }
            Err(v) => {
                println!("{}", v.message);
                println!("VIOLATION property={} replay={}", id, path.display());
                1
            }
        };
    }
    let tier = match args[2].as_str() {
        "quick" => Tier::Quick,
        "thorough" => Tier::Thorough,
        other => {
            eprintln!("unknown tier {}", other);
            return 2;
        }
    };
    let seed: u64 = std::env::var("VERIF_SEED")
        .ok()
        .and_then(|s| s.trim().parse::<i128>().ok())
        .map(|v| v as u64)
        .unwrap_or(0);
    let mut ctx = Ctx::new(id, tier, seed, &vdir);

    // 1. committed regression cases (seconds-long replay tier)
    let rdir = vdir.join("regressions").join(id);
    let mut regs: Vec<PathBuf> = std::fs::read_dir(&rdir)
        .map(|d| d.filter_map(|e| e.ok().map(|e| e.path())).collect())
        .unwrap_or_default();
    regs.retain(|p| p.extension().map(|e| e == "json").unwrap_or(false));
    regs.sort();
    let mut st = Stats::default();
    for p in &regs {
        let case = match load_case(p) {
            Ok(c) => c,
            Err(e) => {
                eprintln!("harness error: {}", e);
                return 2;
            }
        };
        st.eval();
        st.class("regression-replay");
        if let Err(v) = (prop.replay)(&case) {
            if v.message.starts_with("SKIP:") || is_timeout(&v.message) {
                st.discarded += 1;
                st.class(&v.message);
                continue;
            }
            if v.message.starts_with("HARNESS:") {
                // the harness could not judge the case: inconclusive, never a violation
                eprintln!("{}", v.message);
                eprintln!("case: {}", v.case);
                return 2;
            }
            // a regression of a *known* finding is reported as such
            if !v.signature.is_empty() {
                if let Some(f) = ctx.known(&v.signature) {
                    println!("KNOWN-FINDING: property={} {}", id, f.what);
                    continue;
                }
            }
            ctx.stats.merge(st);
            write_evidence(&ctx, 1);
            println!("{}", v.message);
            println!("VIOLATION property={} replay={}", id, p.display());
            return 1;
        }
    }
    ctx.stats.merge(st);

    // 2. the property's own exploration
    let res = (prop.run)(&mut ctx);
    match res {
        Ok(()) => {
            write_evidence(&ctx, 0);
            println!(
                "OK property={} tier={} seed={} evaluations={} distinct_nontrivial={} wall_s={:.1}",
                id,
                tier.name(),
                seed,
                ctx.stats.evaluations,
                ctx.stats.nontrivial.len(),
                ctx.start.elapsed().as_secs_f64()
            );
            0
        }
        Err(v) => {
            if v.message.starts_with("HARNESS:") {
                eprintln!("{}", v.message);
                eprintln!("case: {}", v.case);
                return 2;
            }
            let path = write_replay(&ctx, &v);
            write_evidence(&ctx, 1);
            println!("{}", v.message);
            println!("case: {}", v.case);
            println!("VIOLATION property={} replay={}", id, path.display());
            1
        }
    }
}

fn main() {
    // run on a big stack: recursive walkers over deep diagrams
    let h = std::thread::Builder::new()
        .stack_size(STACK)
        .spawn(real_main)
        .expect("spawn main");
    let code = h.join().unwrap_or(2);
    std::process::exit(code);
}
