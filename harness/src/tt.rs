//! Truth tables: a Boolean function of k <= 20 variables as a 2^k-bit set.
//!
//! Position `p` of an assignment index `idx` is bit `p` of `idx`
//! (`(idx >> p) & 1 == 1` means "variable at position p is true").
//! Shares no code with rsbdd.

use std::fmt;

#[derive(Clone, PartialEq, Eq, Hash, PartialOrd, Ord)]
pub struct TT {
    pub k: usize,
    pub w: Vec<u64>,
}

fn words(k: usize) -> usize {
    if k >= 6 {
        1usize << (k - 6)
    } else {
        1
    }
}

fn mask(k: usize) -> u64 {
    if k >= 6 {
        !0u64
    } else {
        (1u64 << (1usize << k)) - 1
    }
}

const VARMASK: [u64; 6] = [
    0xAAAA_AAAA_AAAA_AAAA,
    0xCCCC_CCCC_CCCC_CCCC,
    0xF0F0_F0F0_F0F0_F0F0,
    0xFF00_FF00_FF00_FF00,
    0xFFFF_0000_FFFF_0000,
    0xFFFF_FFFF_0000_0000,
];

impl TT {
    pub fn konst(k: usize, b: bool) -> TT {
        assert!(k <= 24);
        let m = mask(k);
        TT {
            k,
            w: vec![if b { m } else { 0 }; words(k)],
        }
    }

    pub fn var(k: usize, p: usize) -> TT {
        assert!(p < k, "position {} out of {}", p, k);
        let n = words(k);
        let mut w = vec![0u64; n];
        if p < 6 {
            for x in w.iter_mut() {
                *x = VARMASK[p] & mask(k);
            }
        } else {
            let stride = 1usize << (p - 6);
            for (i, x) in w.iter_mut().enumerate() {
                if (i / stride) & 1 == 1 {
                    *x = !0;
                }
            }
        }
        TT { k, w }
    }

    /// Build from an integer whose bit `idx` is the value on assignment `idx` (k <= 6).
    pub fn from_bits(k: usize, bits: u64) -> TT {
        assert!(k <= 6);
        TT {
            k,
            w: vec![bits & mask(k)],
        }
    }

    pub fn bits(&self) -> u64 {
        assert!(self.k <= 6);
        self.w[0]
    }

    pub fn from_fn<F: FnMut(usize) -> bool>(k: usize, mut f: F) -> TT {
        let mut t = TT::konst(k, false);
        for idx in 0..(1usize << k) {
            if f(idx) {
                t.set(idx, true);
            }
        }
        t
    }

    pub fn len(&self) -> usize {
        1usize << self.k
    }

    pub fn get(&self, idx: usize) -> bool {
        (self.w[idx >> 6] >> (idx & 63)) & 1 == 1
    }

    pub fn set(&mut self, idx: usize, b: bool) {
        if b {
            self.w[idx >> 6] |= 1u64 << (idx & 63);
        } else {
            self.w[idx >> 6] &= !(1u64 << (idx & 63));
        }
    }

    pub fn is_true(&self) -> bool {
        let m = mask(self.k);
        self.w.iter().all(|&x| x == m)
    }

    pub fn is_false(&self) -> bool {
        self.w.iter().all(|&x| x == 0)
    }

    pub fn is_const(&self) -> bool {
        self.is_true() || self.is_false()
    }

    pub fn count_ones(&self) -> u64 {
        self.w.iter().map(|x| x.count_ones() as u64).sum()
    }

    pub fn not(&self) -> TT {
        let m = mask(self.k);
        TT {
            k: self.k,
            w: self.w.iter().map(|x| !x & m).collect(),
        }
    }

    fn zip<F: Fn(u64, u64) -> u64>(&self, o: &TT, f: F) -> TT {
        assert_eq!(self.k, o.k);
        let m = mask(self.k);
        TT {
            k: self.k,
            w: self
                .w
                .iter()
                .zip(o.w.iter())
                .map(|(&a, &b)| f(a, b) & m)
                .collect(),
        }
    }

    pub fn and(&self, o: &TT) -> TT {
        self.zip(o, |a, b| a & b)
    }
    pub fn or(&self, o: &TT) -> TT {
        self.zip(o, |a, b| a | b)
    }
    pub fn xor(&self, o: &TT) -> TT {
        self.zip(o, |a, b| a ^ b)
    }
    pub fn iff(&self, o: &TT) -> TT {
        self.zip(o, |a, b| !(a ^ b))
    }
    pub fn implies(&self, o: &TT) -> TT {
        self.zip(o, |a, b| !a | b)
    }
    pub fn nor(&self, o: &TT) -> TT {
        self.zip(o, |a, b| !(a | b))
    }
    pub fn nand(&self, o: &TT) -> TT {
        self.zip(o, |a, b| !(a & b))
    }
    pub fn ite(&self, t: &TT, e: &TT) -> TT {
        assert_eq!(self.k, t.k);
        assert_eq!(self.k, e.k);
        let m = mask(self.k);
        TT {
            k: self.k,
            w: (0..self.w.len())
                .map(|i| ((self.w[i] & t.w[i]) | (!self.w[i] & e.w[i])) & m)
                .collect(),
        }
    }

    /// self <= o pointwise
    pub fn leq(&self, o: &TT) -> bool {
        assert_eq!(self.k, o.k);
        self.w.iter().zip(o.w.iter()).all(|(&a, &b)| a & !b == 0)
    }

    /// The function with position `p` fixed to `b` (still a function of k positions,
    /// no longer depending on p).
    pub fn cofactor(&self, p: usize, b: bool) -> TT {
        assert!(p < self.k);
        let n = self.w.len();
        let mut w = vec![0u64; n];
        if p < 6 {
            let sh = 1usize << p;
            let hi = VARMASK[p];
            for i in 0..n {
                let x = self.w[i];
                w[i] = if b {
                    let h = x & hi;
                    h | (h >> sh)
                } else {
                    let l = x & !hi;
                    l | (l << sh)
                };
            }
            let m = mask(self.k);
            for x in w.iter_mut() {
                *x &= m;
            }
        } else {
            let stride = 1usize << (p - 6);
            for i in 0..n {
                let base = if b { i | stride } else { i & !stride };
                w[i] = self.w[base];
            }
        }
        TT { k: self.k, w }
    }

    pub fn exists(&self, p: usize) -> TT {
        self.cofactor(p, false).or(&self.cofactor(p, true))
    }

    pub fn forall(&self, p: usize) -> TT {
        self.cofactor(p, false).and(&self.cofactor(p, true))
    }

    pub fn depends_on(&self, p: usize) -> bool {
        self.cofactor(p, false) != self.cofactor(p, true)
    }

    pub fn support(&self) -> Vec<usize> {
        (0..self.k).filter(|&p| self.depends_on(p)).collect()
    }

    /// Extend to k2 >= k positions (new positions are don't-care).
    pub fn extend(&self, k2: usize) -> TT {
        assert!(k2 >= self.k);
        let mut t = self.clone();
        while t.k < k2 {
            if t.k < 6 {
                let sh = 1usize << t.k;
                let x = t.w[0];
                t.w[0] = x | (x << sh);
                t.k += 1;
            } else {
                let mut w = t.w.clone();
                w.extend_from_slice(&t.w);
                t.w = w;
                t.k += 1;
            }
        }
        t
    }

    /// Re-index: result over `k2` positions where old position p is placed at map[p].
    pub fn remap(&self, k2: usize, map: &[usize]) -> TT {
        assert_eq!(map.len(), self.k);
        TT::from_fn(k2, |idx| {
            let mut old = 0usize;
            for (p, &q) in map.iter().enumerate() {
                if (idx >> q) & 1 == 1 {
                    old |= 1 << p;
                }
            }
            self.get(old)
        })
    }

    /// Is the satisfying set a single cube (conjunction of literals)?  Returns the
    /// literals (position, polarity) if so. The empty set is not a cube.
    pub fn as_cube(&self) -> Option<Vec<(usize, bool)>> {
        if self.is_false() {
            return None;
        }
        let mut lits = Vec::new();
        let mut cube = TT::konst(self.k, true);
        for p in 0..self.k {
            if !self.depends_on(p) {
                continue;
            }
            let c1 = self.cofactor(p, true);
            let c0 = self.cofactor(p, false);
            if c0.is_false() {
                lits.push((p, true));
                cube = cube.and(&TT::var(self.k, p));
            } else if c1.is_false() {
                lits.push((p, false));
                cube = cube.and(&TT::var(self.k, p).not());
            } else {
                return None;
            }
        }
        if &cube == self {
            Some(lits)
        } else {
            None
        }
    }

    /// Threshold counting: result[idx] = cmp(#ops true at idx)
    pub fn count_cmp<F: Fn(i128) -> bool>(k: usize, ops: &[TT], cmp: F) -> TT {
        TT::from_fn(k, |idx| {
            let c = ops.iter().filter(|o| o.get(idx)).count() as i128;
            cmp(c)
        })
    }

    pub fn count2_cmp<F: Fn(i128, i128) -> bool>(k: usize, a: &[TT], b: &[TT], cmp: F) -> TT {
        TT::from_fn(k, |idx| {
            let ca = a.iter().filter(|o| o.get(idx)).count() as i128;
            let cb = b.iter().filter(|o| o.get(idx)).count() as i128;
            cmp(ca, cb)
        })
    }

    pub fn to_hex(&self) -> String {
        let mut s = String::new();
        for x in self.w.iter().rev() {
            if self.k >= 6 {
                s.push_str(&format!("{:016x}", x));
            } else {
                let digits = std::cmp::max(1, (1usize << self.k) / 4);
                s.push_str(&format!("{:0width$x}", x, width = digits));
            }
        }
        format!("{}:{}", self.k, s)
    }

    pub fn from_hex(s: &str) -> Option<TT> {
        let (ks, hs) = s.split_once(':')?;
        let k: usize = ks.parse().ok()?;
        if k > 24 {
            return None;
        }
        let n = words(k);
        let mut w = vec![0u64; n];
        if k >= 6 {
            if hs.len() != n * 16 {
                return None;
            }
            for i in 0..n {
                let part = &hs[(n - 1 - i) * 16..(n - i) * 16];
                w[i] = u64::from_str_radix(part, 16).ok()?;
            }
        } else {
            w[0] = u64::from_str_radix(hs, 16).ok()? & mask(k);
        }
        Some(TT { k, w })
    }
}

impl fmt::Debug for TT {
    fn fmt(&self, f: &mut fmt::Formatter<'_>) -> fmt::Result {
        write!(f, "TT({})", self.to_hex())
    }
}

#[cfg(test)]
mod tests {
    use super::*;

    fn naive_cof(t: &TT, p: usize, b: bool) -> TT {
        TT::from_fn(t.k, |idx| {
            let j = if b { idx | (1 << p) } else { idx & !(1 << p) };
            t.get(j)
        })
    }

    #[test]
    fn var_and_cofactor() {
        for k in 1..=9 {
            for p in 0..k {
                let v = TT::var(k, p);
                for idx in 0..(1 << k) {
                    assert_eq!(v.get(idx), (idx >> p) & 1 == 1);
                }
                assert!(v.cofactor(p, true).is_true());
                assert!(v.cofactor(p, false).is_false());
            }
        }
        // pseudo-random functions
        let mut s = 12345u64;
        for k in 1..=9 {
            for _ in 0..20 {
                let t = TT::from_fn(k, |_| {
                    s = s.wrapping_mul(6364136223846793005).wrapping_add(1442695040888963407);
                    (s >> 33) & 1 == 1
                });
                for p in 0..k {
                    assert_eq!(t.cofactor(p, true), naive_cof(&t, p, true));
                    assert_eq!(t.cofactor(p, false), naive_cof(&t, p, false));
                }
                assert_eq!(TT::from_hex(&t.to_hex()).unwrap(), t);
                let e = t.extend(k + 2);
                for idx in 0..(1usize << (k + 2)) {
                    assert_eq!(e.get(idx), t.get(idx & ((1 << k) - 1)));
                }
            }
        }
    }

    #[test]
    fn cube() {
        let k = 3;
        let a = TT::var(k, 0);
        let c = TT::var(k, 2);
        assert_eq!(a.and(&c.not()).as_cube(), Some(vec![(0, true), (2, false)]));
        assert_eq!(a.or(&c).as_cube(), None);
        assert_eq!(TT::konst(k, true).as_cube(), Some(vec![]));
        assert_eq!(TT::konst(k, false).as_cube(), None);
    }
}
