//! The common engine: statistics, parallel exhaustive / random (proptest) drivers,
//! shrinking, replay files, known findings, evidence.

use crate::util::{self, sub_seed};
use proptest::collection::vec;
use proptest::prelude::*;
use proptest::test_runner::{Config, RngSeed, TestCaseError, TestError, TestRunner};
use serde_json::{json, Value};
use std::cell::{Cell, RefCell};
use std::collections::{BTreeMap, HashSet};
use std::path::{Path, PathBuf};
use std::sync::atomic::{AtomicBool, AtomicU64, Ordering};
use std::time::Instant;

pub const STACK: usize = 512 << 20;
const NT_CAP: usize = 4_000_000;

#[derive(Debug, Clone)]
pub struct Violation {
    pub message: String,
    /// generator-independent description of the failing case (replayable)
    pub case: Value,
    /// stable identification of the failing input class / call site (for known findings)
    pub signature: String,
}

impl Violation {
    pub fn new(message: impl Into<String>, case: Value) -> Self {
        Violation {
            message: message.into(),
            case,
            signature: String::new(),
        }
    }
    pub fn sig(mut self, s: impl Into<String>) -> Self {
        self.signature = s.into();
        self
    }
}

pub type Check = Result<(), Violation>;

#[derive(Default, Clone)]
pub struct Stats {
    pub evaluations: u64,
    pub nontrivial: HashSet<u64>,
    pub nt_overflow: u64,
    pub classes: BTreeMap<String, u64>,
    pub samples: Vec<Value>,
    pub nt_samples: Vec<Value>,
    pub discarded: u64,
    pub notes: Vec<String>,
}

impl Stats {
    pub fn eval(&mut self) {
        self.evaluations += 1;
    }
    pub fn evals(&mut self, n: u64) {
        self.evaluations += n;
    }
    /// record a non-trivial case by fingerprint
    pub fn nontrivial(&mut self, fp: u64) -> bool {
        if self.nontrivial.len() >= NT_CAP {
            self.nt_overflow += 1;
            false
        } else {
            self.nontrivial.insert(fp)
        }
    }
    pub fn class(&mut self, name: &str) {
        *self.classes.entry(name.to_string()).or_insert(0) += 1;
    }
    pub fn class_n(&mut self, name: &str, n: u64) {
        *self.classes.entry(name.to_string()).or_insert(0) += n;
    }
    pub fn want_sample(&self) -> bool {
        let e = self.evaluations;
        self.samples.len() < 6 && (e <= 2 || e == 10 || e == 100 || e == 1000 || e == 10_000)
    }
    pub fn sample(&mut self, v: Value) {
        if self.samples.len() < 6 {
            self.samples.push(v);
        }
    }
    pub fn nt_sample<F: FnOnce() -> Value>(&mut self, f: F) {
        if self.nt_samples.len() < 4 {
            self.nt_samples.push(f());
        }
    }
    pub fn note(&mut self, s: impl Into<String>) {
        if self.notes.len() < 20 {
            self.notes.push(s.into());
        }
    }
    pub fn merge(&mut self, o: Stats) {
        self.evaluations += o.evaluations;
        self.nt_overflow += o.nt_overflow;
        for fp in o.nontrivial {
            if self.nontrivial.len() < NT_CAP {
                self.nontrivial.insert(fp);
            } else {
                self.nt_overflow += 1;
            }
        }
        for (k, v) in o.classes {
            *self.classes.entry(k).or_insert(0) += v;
        }
        for s in o.samples {
            if self.samples.len() < 10 {
                self.samples.push(s);
            }
        }
        for s in o.nt_samples {
            if self.nt_samples.len() < 8 {
                self.nt_samples.push(s);
            }
        }
        self.discarded += o.discarded;
        for n in o.notes {
            self.note(n);
        }
    }
}

#[derive(Clone, Copy, PartialEq, Eq, Debug)]
pub enum Tier {
    Quick,
    Thorough,
}

impl Tier {
    pub fn name(self) -> &'static str {
        match self {
            Tier::Quick => "quick",
            Tier::Thorough => "thorough",
        }
    }
    pub fn pick<T>(self, q: T, t: T) -> T {
        match self {
            Tier::Quick => q,
            Tier::Thorough => t,
        }
    }
    /// Number of generated cases of a random stage. The quick figures in the property modules are
    /// the volumes at which every recorded breaking change was caught with VERIF_SEED=0; the quick
    /// tier runs three times that, as a margin for other seeds.
    pub fn cases(self, q: u64, t: u64) -> u64 {
        match self {
            Tier::Quick => q * QUICK_SCALE,
            Tier::Thorough => t,
        }
    }
}

pub const QUICK_SCALE: u64 = 3;

#[derive(Debug, Clone)]
pub struct Finding {
    pub status: String,
    pub property: String,
    pub signature: String,
    pub what: String,
    pub commit: String,
}

pub struct Ctx {
    pub property: String,
    pub tier: Tier,
    pub seed: u64,
    pub workers: usize,
    pub verif_dir: PathBuf,
    pub stats: Stats,
    pub stages: Vec<Value>,
    pub assumptions: Vec<String>,
    pub rule: String,
    pub findings: Vec<Finding>,
    pub known_hits: Vec<String>,
    pub start: Instant,
    pub exhaustive_all: Option<bool>,
    pub extra: BTreeMap<String, Value>,
}

impl Ctx {
    pub fn new(property: &str, tier: Tier, seed: u64, verif_dir: &Path) -> Ctx {
        let workers = std::env::var("VERIF_WORKERS")
            .ok()
            .and_then(|s| s.parse().ok())
            .unwrap_or_else(|| {
                std::thread::available_parallelism()
                    .map(|n| n.get())
                    .unwrap_or(4)
                    .min(16)
            });
        Ctx {
            property: property.to_string(),
            tier,
            seed,
            workers,
            verif_dir: verif_dir.to_path_buf(),
            stats: Stats::default(),
            stages: Vec::new(),
            assumptions: Vec::new(),
            rule: String::new(),
            findings: load_findings(verif_dir),
            known_hits: Vec::new(),
            start: Instant::now(),
            exhaustive_all: None,
            extra: BTreeMap::new(),
        }
    }

    pub fn assume(&mut self, s: &str) {
        self.assumptions.push(s.to_string());
    }

    pub fn known(&self, signature: &str) -> Option<&Finding> {
        self.findings.iter().find(|f| {
            f.status == "known" && f.property == self.property && f.signature == signature
        })
    }

    /// Finish a stage: merge its stats, record a stage summary. If the stage produced a
    /// violation that matches a known finding it is reported as KNOWN-FINDING and swallowed.
    pub fn stage(
        &mut self,
        name: &str,
        exhaustive: bool,
        res: (Stats, Option<Violation>),
    ) -> Result<(), Violation> {
        let (st, viol) = res;
        let t = self.start.elapsed().as_secs_f64();
        self.stages.push(json!({
            "stage": name,
            "evaluations": st.evaluations,
            "distinct_nontrivial": st.nontrivial.len(),
            "exhaustive": exhaustive,
            "discarded": st.discarded,
            "classes": st.classes,
            "finished_at_s": (t * 100.0).round() / 100.0,
            // up to two non-trivial cases of THIS stage (the merged sample list is dominated by the first stages)
            "samples": st.nt_samples.iter().chain(st.samples.iter()).take(2).map(|v| {
                let txt = v.to_string();
                if txt.len() > 1200 { json!(format!("{} ... ({} bytes)", txt.chars().take(1200).collect::<String>(), txt.len())) } else { v.clone() }
            }).collect::<Vec<_>>(),
        }));
        self.exhaustive_all = Some(self.exhaustive_all.unwrap_or(true) && exhaustive);
        eprintln!(
            "[{}] stage {:<28} evals={:<10} nontrivial={:<8} t={:.1}s{}",
            self.property,
            name,
            st.evaluations,
            st.nontrivial.len(),
            t,
            if viol.is_some() { "  VIOLATION" } else { "" }
        );
        self.stats.merge(st);
        if let Some(v) = viol {
            if !v.signature.is_empty() {
                if let Some(f) = self.known(&v.signature) {
                    let line = format!("KNOWN-FINDING: property={} {}", self.property, f.what);
                    if !self.known_hits.contains(&line) {
                        println!("{}", line);
                        self.known_hits.push(line);
                    }
                    return Ok(());
                }
            }
            return Err(v);
        }
        Ok(())
    }

    pub fn evidence(&self, violations: usize) -> Value {
        let mut samples: Vec<Value> = Vec::new();
        samples.extend(self.stats.nt_samples.iter().cloned());
        samples.extend(self.stats.samples.iter().cloned());
        samples.truncate(14);
        if samples.is_empty() {
            samples.push(json!("no case was executed"));
        }
        let mut cov = json!({
            "evaluations": self.stats.evaluations,
            "distinct_nontrivial": self.stats.nontrivial.len(),
            "rule": self.rule,
            "samples": samples,
            "exhaustive": self.exhaustive_all.unwrap_or(false),
            "classes": self.stats.classes,
            "stages": self.stages,
            "discarded_out_of_domain": self.stats.discarded,
            "nontrivial_not_counted_after_cap": self.stats.nt_overflow,
            "notes": self.stats.notes,
            "known_findings_hit": self.known_hits,
            "workers": self.workers,
        });
        for (k, v) in &self.extra {
            cov[k] = v.clone();
        }
        json!({
            "property_id": self.property,
            "tier": self.tier.name(),
            "seed": self.seed,
            "level": "exploration",
            "coverage": cov,
            "assumptions": self.assumptions,
            "wall_s": (self.start.elapsed().as_secs_f64() * 1000.0).round() / 1000.0,
            "violations": violations,
        })
    }
}

pub fn load_findings(verif_dir: &Path) -> Vec<Finding> {
    // known_findings.txt, one finding per line:
    //   known: property=<id> signature=<token> <what fails>
    //   fixed: property=<id> <commit> <what failed>          (suppresses nothing)
    let p = verif_dir.join("known_findings.txt");
    let mut out = Vec::new();
    if let Ok(s) = std::fs::read_to_string(&p) {
        for line in s.lines() {
            let line = line.trim();
            if line.is_empty() || line.starts_with('#') {
                continue;
            }
            let (status, rest) = match line.split_once(':') {
                Some((a, b)) => (a.trim(), b.trim()),
                None => continue,
            };
            if status != "known" && status != "fixed" {
                continue;
            }
            let mut property = String::new();
            let mut signature = String::new();
            let mut commit = String::new();
            let mut what: Vec<&str> = Vec::new();
            for (i, tok) in rest.split_whitespace().enumerate() {
                if let Some(v) = tok.strip_prefix("property=") {
                    property = v.to_string();
                } else if let Some(v) = tok.strip_prefix("signature=") {
                    signature = v.to_string();
                } else if status == "fixed" && i == 1 && commit.is_empty() {
                    commit = tok.to_string();
                } else {
                    what.push(tok);
                }
            }
            out.push(Finding {
                status: status.to_string(),
                property,
                signature,
                what: what.join(" "),
                commit,
            });
        }
    }
    out
}

fn spawn_scoped<'scope, 'env, T: Send + 'scope>(
    s: &'scope std::thread::Scope<'scope, 'env>,
    name: String,
    f: impl FnOnce() -> T + Send + 'scope,
) -> std::thread::ScopedJoinHandle<'scope, T> {
    std::thread::Builder::new()
        .name(name)
        .stack_size(STACK)
        .spawn_scoped(s, f)
        .expect("spawn worker")
}

/// Enumerate indices 0..n over the workers (interleaved blocks). `f` checks one index.
/// Returns merged stats and the violation with the smallest index, if any.
pub fn par_exhaustive<F>(ctx: &Ctx, n: u64, f: F) -> (Stats, Option<Violation>)
where
    F: Fn(u64, &mut Stats) -> Check + Sync,
{
    util::install_panic_hook();
    let workers = ctx.workers.max(1) as u64;
    let stop = AtomicBool::new(false);
    let next = AtomicU64::new(0);
    let block: u64 = std::cmp::max(1, std::cmp::min(4096, n / (workers * 8).max(1)));
    let results: Vec<(Stats, Option<(u64, Violation)>)> = std::thread::scope(|s| {
        let mut hs = Vec::new();
        for w in 0..workers {
            let f = &f;
            let stop = &stop;
            let next = &next;
            hs.push(spawn_scoped(s, format!("exh-{}", w), move || {
                let mut st = Stats::default();
                let mut viol: Option<(u64, Violation)> = None;
                'outer: loop {
                    if stop.load(Ordering::Relaxed) {
                        break;
                    }
                    let lo = next.fetch_add(block, Ordering::Relaxed);
                    if lo >= n {
                        break;
                    }
                    let hi = std::cmp::min(n, lo + block);
                    for i in lo..hi {
                        let r = match util::catch(|| f(i, &mut st)) {
                            Ok(r) => settle(r, &mut st),
                            Err(p) => Err(Violation::new(
                                format!("harness or library panic at enumeration index {}: {}", i, p),
                                json!({"kind": "panic-at-index", "index": i}),
                            )),
                        };
                        if let Err(v) = r {
                            viol = Some((i, v));
                            stop.store(true, Ordering::Relaxed);
                            break 'outer;
                        }
                    }
                }
                (st, viol)
            }));
        }
        hs.into_iter().map(|h| h.join().expect("worker")).collect()
    });
    let mut st = Stats::default();
    let mut best: Option<(u64, Violation)> = None;
    for (s, v) in results {
        st.merge(s);
        if let Some((i, v)) = v {
            if best.as_ref().map(|(bi, _)| i < *bi).unwrap_or(true) {
                best = Some((i, v));
            }
        }
    }
    (st, best.map(|x| x.1))
}

/// Random generation with proptest: `total_cases` byte tapes of length < `tape_len`,
/// spread over the workers, each with its own seeded `TestRunner`. proptest shrinks the
/// failing tape (shorter, then smaller bytes); the closure is re-run on the minimal tape
/// to obtain the minimal violation.
pub fn par_random<F>(
    ctx: &Ctx,
    stage: &str,
    total_cases: u64,
    tape_len: usize,
    f: F,
) -> (Stats, Option<Violation>)
where
    F: Fn(&[u8], &mut Stats) -> Check + Sync,
{
    util::install_panic_hook();
    let workers = (ctx.workers.max(1) as u64).min(total_cases.max(1));
    let per = total_cases.div_ceil(workers);
    let stop = AtomicBool::new(false);
    let results: Vec<(Stats, Option<Violation>)> = std::thread::scope(|s| {
        let mut hs = Vec::new();
        for w in 0..workers {
            let f = &f;
            let stop = &stop;
            let seed = sub_seed(ctx.seed, &format!("{}/{}", ctx.property, stage), w);
            hs.push(spawn_scoped(s, format!("rnd-{}", w), move || {
                let stats = RefCell::new(Stats::default());
                let scratch = RefCell::new(Stats::default());
                let failed = Cell::new(false);
                let config = Config {
                    cases: per as u32,
                    rng_seed: RngSeed::Fixed(seed),
                    failure_persistence: None,
                    max_shrink_iters: 4000,
                    max_shrink_time: 0,
                    verbose: 0,
                    source_file: None,
                    test_name: None,
                    ..Config::default()
                };
                let mut runner = TestRunner::new(config);
                let strat = vec(any::<u8>(), 0..tape_len.max(1));
                let res = runner.run(&strat, |tape| {
                    if stop.load(Ordering::Relaxed) && !failed.get() {
                        // another worker already failed: finish quickly
                        return Ok(());
                    }
                    let r = if failed.get() {
                        let mut sc = scratch.borrow_mut();
                        util::catch(|| f(&tape, &mut sc)).map(|r| settle(r, &mut sc))
                    } else {
                        let mut st = stats.borrow_mut();
                        util::catch(|| f(&tape, &mut st)).map(|r| settle(r, &mut st))
                    };
                    match r {
                        Ok(Ok(())) => Ok(()),
                        Ok(Err(v)) => {
                            failed.set(true);
                            stop.store(true, Ordering::Relaxed);
                            Err(TestCaseError::fail(v.message))
                        }
                        Err(p) => {
                            failed.set(true);
                            stop.store(true, Ordering::Relaxed);
                            Err(TestCaseError::fail(format!("panic: {}", p)))
                        }
                    }
                });
                let viol = match res {
                    Ok(()) => None,
                    Err(TestError::Fail(_, tape)) => {
                        let mut sc = Stats::default();
                        match util::catch(|| f(&tape, &mut sc)).map(|r| settle(r, &mut sc)) {
                            Ok(Err(v)) => Some(v),
                            Ok(Ok(())) => Some(Violation::new(
                                "failure did not reproduce on the shrunk tape (flaky oracle?)",
                                json!({"kind": "tape", "tape": tape}),
                            )),
                            Err(p) => Some(Violation::new(
                                format!("panic outside a guarded check: {}", p),
                                json!({"kind": "tape", "tape": tape}),
                            )),
                        }
                    }
                    Err(TestError::Abort(r)) => Some(Violation::new(
                        format!("proptest aborted: {}", r),
                        json!({"kind": "abort"}),
                    )),
                };
                (stats.into_inner(), viol)
            }));
        }
        hs.into_iter().map(|h| h.join().expect("worker")).collect()
    });
    let mut st = Stats::default();
    let mut first: Option<Violation> = None;
    for (s, v) in results {
        st.merge(s);
        if first.is_none() {
            first = v;
        }
    }
    (st, first)
}

/// Run a list of independent jobs (e.g. process spawns) over the workers.
pub fn par_jobs<J: Sync, F>(ctx: &Ctx, jobs: &[J], f: F) -> (Stats, Option<Violation>)
where
    F: Fn(&J, &mut Stats) -> Check + Sync,
{
    par_exhaustive(ctx, jobs.len() as u64, |i, st| f(&jobs[i as usize], st))
}

/// Run a check body guarding against panics of the code under test: a panic becomes a
/// violation carrying the case.
/// A check may decline a case whose outcome the property leaves to the implementation
/// (`Violation::skip`): it is counted as discarded under its reason, never as a violation.
pub fn settle(r: Check, st: &mut Stats) -> Check {
    match r {
        Err(v) if v.message.starts_with("SKIP:") => {
            st.discarded += 1;
            st.class(&v.message);
            Ok(())
        }
        // a child process that ran into its time limit is never a violation (a loaded machine, a
        // heavier but correct formula): the case is not judged
        Err(v) if is_timeout(&v.message) => {
            st.discarded += 1;
            st.class("time-out of a spawned tool (not judged)");
            Ok(())
        }
        other => other,
    }
}

pub fn is_timeout(message: &str) -> bool {
    message.contains("timed_out=true") || (message.contains("HARNESS:") && message.contains("timed out"))
}

pub fn guarded<F: FnOnce() -> Check>(case: &Value, f: F) -> Check {
    match util::catch(f) {
        Ok(r) => r,
        Err(p) => Err(Violation::new(format!("panic: {}", p), case.clone())),
    }
}

pub fn write_replay(ctx: &Ctx, v: &Violation) -> PathBuf {
    let dir = ctx.verif_dir.join("replays");
    let _ = std::fs::create_dir_all(&dir);
    let body = json!({
        "property": ctx.property,
        "message": v.message,
        "signature": v.signature,
        "seed": ctx.seed,
        "tier": ctx.tier.name(),
        "case": v.case,
    });
    let text = serde_json::to_string_pretty(&body).unwrap_or_default();
    let h = util::fnv(serde_json::to_string(&v.case).unwrap_or_default().as_bytes());
    let path = dir.join(format!("{}-{:016x}.json", ctx.property, h));
    let _ = std::fs::write(&path, text);
    path
}

pub fn write_evidence(ctx: &Ctx, violations: usize) {
    let dir = ctx.verif_dir.join("evidence");
    let _ = std::fs::create_dir_all(&dir);
    let path = dir.join(format!("{}.json", ctx.property));
    let text = serde_json::to_string_pretty(&ctx.evidence(violations)).unwrap_or_default();
    if let Err(e) = std::fs::write(&path, text) {
        eprintln!("cannot write evidence {}: {}", path.display(), e);
    }
}

/// Coverage-guided stage (thorough tier): run a cargo-fuzz / libFuzzer target that calls the
/// same oracle. `workers` independent processes, each `runs` executions from its own seed
/// and a fresh corpus seeded with `seeds`. A crash is re-validated by `replay` in this
/// (stable-built) process before it counts. Returns (stats, violation).
pub fn fuzz_stage(
    ctx: &Ctx,
    target: &str,
    runs: u64,
    max_len: usize,
    seeds: &[Vec<u8>],
    replay: fn(&Value) -> Check,
) -> (Stats, Option<Violation>) {
    let mut st = Stats::default();
    let bin = ctx
        .verif_dir
        .join("target/harness/x86_64-unknown-linux-gnu/release")
        .join(target);
    if !bin.exists() {
        st.note(format!("fuzz target {} not built (nightly / cargo-fuzz unavailable): stage skipped", target));
        return (st, None);
    }
    let base = ctx.verif_dir.join("work").join(format!("fuzz-{}-{}", target, std::process::id()));
    let _ = std::fs::remove_dir_all(&base);
    let out_dir = ctx.verif_dir.join("replays");
    let _ = std::fs::create_dir_all(&out_dir);
    let workers = ctx.workers.max(1);
    let mut children = Vec::new();
    for w in 0..workers {
        let corpus = base.join(format!("corpus{}", w));
        let _ = std::fs::create_dir_all(&corpus);
        for (i, s) in seeds.iter().enumerate() {
            let _ = std::fs::write(corpus.join(format!("seed{}", i)), s);
        }
        let art = base.join(format!("art{}/", w));
        let _ = std::fs::create_dir_all(&art);
        let seed = (sub_seed(ctx.seed, target, w as u64) % 0x7fff_fffe) + 1;
        // stderr goes to a file: libFuzzer is chatty and a full pipe would block the worker
        let log_path = base.join(format!("worker{}.log", w));
        let log = match std::fs::File::create(&log_path) {
            Ok(f) => f,
            Err(e) => {
                st.note(format!("cannot create fuzz log: {}", e));
                continue;
            }
        };
        let child = std::process::Command::new(&bin)
            .arg(&corpus)
            .arg(format!("-runs={}", runs))
            .arg(format!("-seed={}", seed))
            .arg("-len_control=0")
            .arg(format!("-max_len={}", max_len))
            .arg(format!("-artifact_prefix={}", art.display()))
            .arg("-print_final_stats=1")
            // safety valve only: the stage is sized by -runs; a worker that meets slow inputs
            // stops after 20 minutes with fewer executions (reported), never with a verdict
            .arg("-max_total_time=1200")
            // a single input running longer than this is reported by libFuzzer (and noted below)
            .arg("-timeout=120")
            .env("VERIF_FUZZ_OUT", &out_dir)
            .env("RUST_BACKTRACE", "0")
            .stdin(std::process::Stdio::null())
            .stdout(std::process::Stdio::null())
            .stderr(std::process::Stdio::from(log))
            .spawn();
        match child {
            Ok(c) => children.push((c, log_path)),
            Err(e) => st.note(format!("cannot start fuzz worker: {}", e)),
        }
    }
    let mut viol: Option<Violation> = None;
    for (mut c, log_path) in children {
        let status = match c.wait() {
            Ok(o) => o,
            Err(_) => continue,
        };
        let err = std::fs::read(&log_path).map(|b| String::from_utf8_lossy(&b).into_owned()).unwrap_or_default();
        let mut executed = 0u64;
        for l in err.lines() {
            if let Some(r) = l.strip_prefix("stat::number_of_executed_units:") {
                executed = r.trim().parse().unwrap_or(0);
            }
        }
        if executed == 0 {
            // crashed runs do not always print the final stats: take the last progress line
            for l in err.lines().rev() {
                if l.starts_with('#') {
                    executed = l[1..].split_whitespace().next().and_then(|x| x.parse().ok()).unwrap_or(0);
                    break;
                }
            }
        }
        st.evals(executed);
        st.class_n(&format!("libfuzzer-executions:{}", target), executed);
        if let Some(l) = err.lines().find(|l| l.starts_with("FUZZ-VIOLATION")) {
            let path = l.split("replay=").nth(1).unwrap_or("").trim().to_string();
            if viol.is_none() {
                match std::fs::read_to_string(&path).ok().and_then(|s| serde_json::from_str::<Value>(&s).ok()) {
                    Some(v) => match replay(&v["case"]) {
                        Err(mut real) => {
                            real.message = format!("(found by libFuzzer target {}) {}", target, real.message);
                            viol = Some(real);
                        }
                        Ok(()) => st.note(format!("a libFuzzer report did not reproduce in the stable harness: {}", path)),
                    },
                    None => st.note(format!("unreadable fuzz report {}", path)),
                }
            }
        } else if !status.success() {
            let tail: Vec<&str> = err.lines().rev().take(6).collect();
            st.note(format!("fuzz worker for {} ended with {:?}: {}", target, status.code(), tail.join(" | ")));
        }
    }
    // count corpus growth as the distinct non-trivial inputs of this stage
    let mut corpus_files = 0u64;
    for w in 0..workers {
        if let Ok(rd) = std::fs::read_dir(base.join(format!("corpus{}", w))) {
            for e in rd.flatten() {
                if let Ok(b) = std::fs::read(e.path()) {
                    corpus_files += 1;
                    st.nontrivial(util::fnv(&b));
                    if st.nt_samples.len() < 2 && b.len() < 120 {
                        let s = String::from_utf8_lossy(&b).into_owned();
                        st.nt_sample(|| json!({"libfuzzer_corpus_entry": s, "target": target}));
                    }
                }
            }
        }
    }
    st.class_n(&format!("libfuzzer-corpus-entries:{}", target), corpus_files);
    let _ = std::fs::remove_dir_all(&base);
    (st, viol)
}
