//! Reference syntax tree of the rsbdd formula language (variables by NAME) and the
//! conversion from the implementation's `SymbolicBDD` for structural comparison.

use rsbdd::parser::{BinaryOperator, CountableOperator, QuantifierType, SymbolicBDD};
use std::collections::BTreeSet;

#[derive(Clone, Copy, Debug, PartialEq, Eq, Hash, PartialOrd, Ord)]
pub enum BinOp {
    And,
    Or,
    Xor,
    Nor,
    Nand,
    Implies,
    ImpliesInv,
    Iff,
}

pub const BINOPS: [BinOp; 8] = [
    BinOp::And,
    BinOp::Or,
    BinOp::Xor,
    BinOp::Nor,
    BinOp::Nand,
    BinOp::Implies,
    BinOp::ImpliesInv,
    BinOp::Iff,
];

#[derive(Clone, Copy, Debug, PartialEq, Eq, Hash, PartialOrd, Ord)]
pub enum CntOp {
    AtMost,
    LessThan,
    AtLeast,
    MoreThan,
    Exactly,
}

pub const CNTOPS: [CntOp; 5] = [
    CntOp::AtMost,
    CntOp::LessThan,
    CntOp::AtLeast,
    CntOp::MoreThan,
    CntOp::Exactly,
];

impl CntOp {
    pub fn symbol(self) -> &'static str {
        match self {
            CntOp::AtMost => "<=",
            CntOp::LessThan => "<",
            CntOp::AtLeast => ">=",
            CntOp::MoreThan => ">",
            CntOp::Exactly => "=",
        }
    }
    pub fn holds(self, count: i128, bound: i128) -> bool {
        match self {
            CntOp::AtMost => count <= bound,
            CntOp::LessThan => count < bound,
            CntOp::AtLeast => count >= bound,
            CntOp::MoreThan => count > bound,
            CntOp::Exactly => count == bound,
        }
    }
}

#[derive(Clone, Debug, PartialEq, Eq, Hash)]
pub enum RAst {
    False,
    True,
    Var(String),
    Ref(String),
    Not(Box<RAst>),
    /// (is_exists, bound names in source order with repetitions, body)
    Quant(bool, Vec<String>, Box<RAst>),
    CountConst(CntOp, Vec<RAst>, u64),
    CountList(CntOp, Vec<RAst>, Vec<RAst>),
    /// (name, greatest?, body)
    Fix(String, bool, Box<RAst>),
    Ite(Box<RAst>, Box<RAst>, Box<RAst>),
    Bin(BinOp, Box<RAst>, Box<RAst>),
}

impl RAst {
    pub fn not(a: RAst) -> RAst {
        RAst::Not(Box::new(a))
    }
    pub fn bin(op: BinOp, a: RAst, b: RAst) -> RAst {
        RAst::Bin(op, Box::new(a), Box::new(b))
    }
    pub fn var(s: &str) -> RAst {
        RAst::Var(s.to_string())
    }

    pub fn children(&self) -> Vec<&RAst> {
        match self {
            RAst::False | RAst::True | RAst::Var(_) | RAst::Ref(_) => vec![],
            RAst::Not(a) | RAst::Quant(_, _, a) | RAst::Fix(_, _, a) => vec![a],
            RAst::CountConst(_, l, _) => l.iter().collect(),
            RAst::CountList(_, l, r) => l.iter().chain(r.iter()).collect(),
            RAst::Ite(a, b, c) => vec![a, b, c],
            RAst::Bin(_, a, b) => vec![a, b],
        }
    }

    pub fn size(&self) -> usize {
        1 + self.children().iter().map(|c| c.size()).sum::<usize>()
    }

    pub fn depth(&self) -> usize {
        1 + self.children().iter().map(|c| c.depth()).max().unwrap_or(0)
    }

    pub fn kind(&self) -> &'static str {
        match self {
            RAst::False | RAst::True => "const",
            RAst::Var(_) => "var",
            RAst::Ref(_) => "ref",
            RAst::Not(_) => "not",
            RAst::Quant(true, ..) => "exists",
            RAst::Quant(false, ..) => "forall",
            RAst::CountConst(..) => "count-const",
            RAst::CountList(..) => "count-list",
            RAst::Fix(_, true, _) => "gfp",
            RAst::Fix(_, false, _) => "lfp",
            RAst::Ite(..) => "ite",
            RAst::Bin(op, ..) => match op {
                BinOp::And => "and",
                BinOp::Or => "or",
                BinOp::Xor => "xor",
                BinOp::Nor => "nor",
                BinOp::Nand => "nand",
                BinOp::Implies => "implies",
                BinOp::ImpliesInv => "implied-by",
                BinOp::Iff => "iff",
            },
        }
    }

    pub fn kinds(&self, out: &mut BTreeSet<&'static str>) {
        out.insert(self.kind());
        for c in self.children() {
            c.kinds(out);
        }
    }

    /// every identifier of the tree (variables and binder names), first appearance in
    /// SOURCE order (binder lists before bodies, left to right)
    pub fn names_in_order(&self, out: &mut Vec<String>) {
        let push = |s: &String, out: &mut Vec<String>| {
            if !out.contains(s) {
                out.push(s.clone());
            }
        };
        match self {
            RAst::Var(n) => push(n, out),
            RAst::Quant(_, ns, b) => {
                for n in ns {
                    push(n, out);
                }
                b.names_in_order(out);
            }
            RAst::Fix(n, _, b) => {
                push(n, out);
                b.names_in_order(out);
            }
            _ => {
                for c in self.children() {
                    c.names_in_order(out);
                }
            }
        }
    }

    /// textbook free variables
    pub fn free_vars(&self) -> BTreeSet<String> {
        match self {
            RAst::Var(n) => [n.clone()].into_iter().collect(),
            RAst::Quant(_, ns, b) => {
                let mut f = b.free_vars();
                for n in ns {
                    f.remove(n);
                }
                f
            }
            RAst::Fix(n, _, b) => {
                let mut f = b.free_vars();
                f.remove(n);
                f
            }
            _ => {
                let mut f = BTreeSet::new();
                for c in self.children() {
                    f.extend(c.free_vars());
                }
                f
            }
        }
    }

    pub fn has_ref(&self) -> bool {
        matches!(self, RAst::Ref(_)) || self.children().iter().any(|c| c.has_ref())
    }

    pub fn has_fix(&self) -> bool {
        matches!(self, RAst::Fix(..)) || self.children().iter().any(|c| c.has_fix())
    }

    pub fn max_list(&self) -> usize {
        let own = match self {
            RAst::CountConst(_, l, _) => l.len(),
            RAst::CountList(_, l, r) => l.len() + r.len(),
            _ => 0,
        };
        std::cmp::max(own, self.children().iter().map(|c| c.max_list()).max().unwrap_or(0))
    }
}

fn binop(op: &BinaryOperator) -> BinOp {
    match op {
        BinaryOperator::And => BinOp::And,
        BinaryOperator::Or => BinOp::Or,
        BinaryOperator::Xor => BinOp::Xor,
        BinaryOperator::Nor => BinOp::Nor,
        BinaryOperator::Nand => BinOp::Nand,
        BinaryOperator::Implies => BinOp::Implies,
        BinaryOperator::ImpliesInv => BinOp::ImpliesInv,
        BinaryOperator::Iff => BinOp::Iff,
    }
}

fn cntop(op: &CountableOperator) -> CntOp {
    match op {
        CountableOperator::AtMost => CntOp::AtMost,
        CountableOperator::LessThan => CntOp::LessThan,
        CountableOperator::AtLeast => CntOp::AtLeast,
        CountableOperator::MoreThan => CntOp::MoreThan,
        CountableOperator::Exactly => CntOp::Exactly,
    }
}

/// Convert the implementation's tree (variables by name).
pub fn from_symbolic(s: &SymbolicBDD) -> Result<RAst, String> {
    Ok(match s {
        SymbolicBDD::False => RAst::False,
        SymbolicBDD::True => RAst::True,
        SymbolicBDD::Var(v) => RAst::Var(v.name.as_ref().clone()),
        SymbolicBDD::Reference(n) => RAst::Ref(n.clone()),
        SymbolicBDD::Not(a) => RAst::Not(Box::new(from_symbolic(a)?)),
        SymbolicBDD::Quantifier(q, vs, b) => RAst::Quant(
            matches!(q, QuantifierType::Exists),
            vs.iter().map(|v| v.name.as_ref().clone()).collect(),
            Box::new(from_symbolic(b)?),
        ),
        SymbolicBDD::CountableConst(op, l, n) => RAst::CountConst(
            cntop(op),
            l.iter().map(from_symbolic).collect::<Result<_, _>>()?,
            *n as u64,
        ),
        SymbolicBDD::CountableVariable(op, l, r) => RAst::CountList(
            cntop(op),
            l.iter().map(from_symbolic).collect::<Result<_, _>>()?,
            r.iter().map(from_symbolic).collect::<Result<_, _>>()?,
        ),
        SymbolicBDD::FixedPoint(v, init, b) => {
            RAst::Fix(v.name.as_ref().clone(), *init, Box::new(from_symbolic(b)?))
        }
        SymbolicBDD::Ite(a, b, c) => RAst::Ite(
            Box::new(from_symbolic(a)?),
            Box::new(from_symbolic(b)?),
            Box::new(from_symbolic(c)?),
        ),
        SymbolicBDD::BinaryOp(op, a, b) => {
            RAst::Bin(binop(op), Box::new(from_symbolic(a)?), Box::new(from_symbolic(b)?))
        }
        SymbolicBDD::Subtree(_) => return Err("parsed tree contains a Subtree node".into()),
    })
}
