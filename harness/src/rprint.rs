//! Render a reference tree to formula text under a choice tape: operator spellings,
//! redundant parentheses, trailing commas, whitespace, comments and stray separator
//! characters. The rendered text is self-checked: the reference lexer must produce
//! exactly the intended token sequence, otherwise the plain single-space rendering is used.

use crate::rast::{BinOp, RAst};
use crate::rlex::{self, Tok};
use crate::util::Tape;

pub struct Style {
    /// 0 = canonical spellings and single spaces, no decoration
    pub decorate: bool,
}

struct Out {
    pieces: Vec<(String, Tok)>,
}

impl Out {
    fn push(&mut self, s: &str, t: Tok) {
        self.pieces.push((s.to_string(), t));
    }
}

fn spell_bin(op: BinOp, t: &mut Tape, deco: bool) -> (&'static str, Tok) {
    let c = if deco { t.choose(3) } else { 0 };
    match op {
        BinOp::And => (["&", "*", "and"][c], Tok::And),
        BinOp::Or => (["|", "+", "or"][c], Tok::Or),
        BinOp::Xor => (["^", "xor", "^"][c], Tok::Xor),
        BinOp::Nor => ("nor", Tok::Nor),
        BinOp::Nand => ("nand", Tok::Nand),
        BinOp::Implies => (["=>", "implies", "in"][c], Tok::Implies),
        BinOp::ImpliesInv => ("<=", Tok::ImpliesInv),
        BinOp::Iff => (["<=>", "iff", "eq"][c], Tok::Iff),
    }
}

/// closed = can stand as the left operand of a binary operator / operand of a negation
/// without parentheses and without swallowing what follows
fn closed(a: &RAst) -> bool {
    match a {
        RAst::False | RAst::True | RAst::Var(_) | RAst::Ref(_) | RAst::CountConst(..) | RAst::CountList(..) => true,
        RAst::Not(x) => closed(x),
        _ => false,
    }
}

fn is_simple(a: &RAst) -> bool {
    !matches!(a, RAst::Bin(..))
}

fn emit_paren(a: &RAst, o: &mut Out, t: &mut Tape, deco: bool) {
    o.push("(", Tok::LParen);
    emit(a, o, t, deco);
    o.push(")", Tok::RParen);
}

/// emit `a` in a position where the grammar wants a `sub` (anything goes)
fn emit(a: &RAst, o: &mut Out, t: &mut Tape, deco: bool) {
    if deco && t.chance(20) {
        emit_paren(a, o, t, deco);
        return;
    }
    match a {
        RAst::False => o.push("false", Tok::False),
        RAst::True => o.push("true", Tok::True),
        RAst::Var(n) => o.push(n, Tok::Var(n.clone())),
        RAst::Ref(n) => o.push(&format!("{{{}}}", n), Tok::Ref(n.clone())),
        RAst::Not(x) => {
            let c = if deco { t.choose(3) } else { 0 };
            o.push(["-", "!", "not"][c], Tok::Not);
            // operand must be a `simple`
            if is_simple(x) {
                emit_simple(x, o, t, deco);
            } else {
                emit_paren(x, o, t, deco);
            }
        }
        RAst::Bin(op, l, r) => {
            if closed(l) {
                emit_simple(l, o, t, deco);
            } else {
                emit_paren(l, o, t, deco);
            }
            let (s, tok) = spell_bin(*op, t, deco);
            o.push(s, tok);
            emit(r, o, t, deco);
        }
        RAst::Ite(c, th, e) => {
            o.push("if", Tok::If);
            emit(c, o, t, deco);
            o.push("then", Tok::Then);
            emit(th, o, t, deco);
            o.push("else", Tok::Else);
            emit(e, o, t, deco);
        }
        RAst::Quant(ex, ns, b) => {
            let alt = deco && t.flag();
            if *ex {
                o.push(if alt { "any" } else { "exists" }, Tok::Exists);
            } else {
                o.push(if alt { "all" } else { "forall" }, Tok::Forall);
            }
            for (i, n) in ns.iter().enumerate() {
                if i > 0 {
                    o.push(",", Tok::Comma);
                }
                o.push(n, Tok::Var(n.clone()));
            }
            if !ns.is_empty() && deco && t.chance(50) {
                o.push(",", Tok::Comma);
            }
            o.push("#", Tok::Hash);
            emit(b, o, t, deco);
        }
        RAst::Fix(n, g, b) => {
            let alt = deco && t.flag();
            if *g {
                o.push(if alt { "nu" } else { "gfp" }, Tok::Gfp);
            } else {
                o.push(if alt { "mu" } else { "lfp" }, Tok::Lfp);
            }
            o.push(n, Tok::Var(n.clone()));
            o.push("#", Tok::Hash);
            emit(b, o, t, deco);
        }
        RAst::CountConst(op, l, n) => {
            emit_list(l, o, t, deco);
            o.push(op.symbol(), cnt_tok(*op));
            let zeros = if deco && t.chance(30) { 1 + t.choose(3) } else { 0 };
            o.push(&format!("{}{}", "0".repeat(zeros), n), Tok::Num(*n));
        }
        RAst::CountList(op, l, r) => {
            emit_list(l, o, t, deco);
            o.push(op.symbol(), cnt_tok(*op));
            emit_list(r, o, t, deco);
        }
    }
}

fn cnt_tok(op: crate::rast::CntOp) -> Tok {
    use crate::rast::CntOp::*;
    match op {
        AtMost => Tok::ImpliesInv,
        LessThan => Tok::Lt,
        AtLeast => Tok::Geq,
        MoreThan => Tok::Gt,
        Exactly => Tok::Eq,
    }
}

/// emit `a` (which is not a Bin) where the grammar wants a `simple`
fn emit_simple(a: &RAst, o: &mut Out, t: &mut Tape, deco: bool) {
    debug_assert!(is_simple(a));
    // `emit` never wraps non-Bin nodes unless it decides to parenthesise, both are simple
    emit(a, o, t, deco);
}

fn emit_list(l: &[RAst], o: &mut Out, t: &mut Tape, deco: bool) {
    o.push("[", Tok::LSq);
    for (i, f) in l.iter().enumerate() {
        if i > 0 {
            o.push(",", Tok::Comma);
        }
        emit(f, o, t, deco);
    }
    if !l.is_empty() && deco && t.chance(60) {
        o.push(",", Tok::Comma);
    }
    o.push("]", Tok::RSq);
}

const STRAY: [&str; 14] = ["@", "$", ";", ".", ":", "~", "%", "?", "\\", "/", "`", "\u{20ac}", "\u{b2}", "\u{0}"];
const COMMENTS: [&str; 8] = [
    "\"back\\\"",
    "\"\\\"",
    "\"c\"",
    "\"\"",
    "\"a & b | true\"",
    "\"multi\nline\"",
    "\"[x] >= 3 {r} 'q'\"",
    "\"\u{e9}\u{20ac}\"",
];

fn joinable(a: &str, b: &str, ta: &Tok, tb: &Tok) -> bool {
    let s = format!("{}{}", a, b);
    match rlex::lex(&s) {
        Ok(v) => v.len() == 3 && &v[0] == ta && &v[1] == tb,
        Err(_) => false,
    }
}

fn separator(t: &mut Tape, can_join: bool) -> String {
    match t.choose(16) {
        0..=5 => {
            if can_join {
                String::new()
            } else {
                " ".into()
            }
        }
        6..=9 => " ".into(),
        10 => "  ".into(),
        11 => "\n".into(),
        12 => "\t".into(),
        13 => format!(" {} ", COMMENTS[t.choose(COMMENTS.len())]),
        14 => {
            if can_join {
                COMMENTS[t.choose(COMMENTS.len())].to_string()
            } else {
                format!(" {}", COMMENTS[t.choose(COMMENTS.len())])
            }
        }
        _ => format!(" {} ", STRAY[t.choose(STRAY.len())]),
    }
}

pub fn expected_tokens(ast: &RAst) -> Vec<Tok> {
    let mut o = Out { pieces: Vec::new() };
    emit(ast, &mut o, &mut Tape::new(&[]), false);
    let mut v: Vec<Tok> = o.pieces.into_iter().map(|p| p.1).collect();
    v.push(Tok::Eof);
    v
}

/// canonical rendering: first spellings, single spaces, minimal parentheses
pub fn plain(ast: &RAst) -> String {
    let mut o = Out { pieces: Vec::new() };
    emit(ast, &mut o, &mut Tape::new(&[]), false);
    o.pieces.iter().map(|p| p.0.as_str()).collect::<Vec<_>>().join(" ")
}

/// decorated rendering driven by the tape; falls back to a spaced rendering of the same
/// token spellings when the decorated text does not lex to the intended tokens
pub fn decorated(ast: &RAst, t: &mut Tape) -> String {
    let mut o = Out { pieces: Vec::new() };
    emit(ast, &mut o, t, true);
    let mut text = String::new();
    if t.chance(30) {
        text.push_str(&separator(t, true));
    }
    for i in 0..o.pieces.len() {
        text.push_str(&o.pieces[i].0);
        if i + 1 < o.pieces.len() {
            let (a, ta) = &o.pieces[i];
            let (b, tb) = &o.pieces[i + 1];
            let cj = joinable(a, b, ta, tb);
            text.push_str(&separator(t, cj));
        }
    }
    if t.chance(30) {
        text.push_str(&separator(t, true));
    }
    let mut want: Vec<Tok> = o.pieces.iter().map(|p| p.1.clone()).collect();
    want.push(Tok::Eof);
    match rlex::lex(&text) {
        Ok(got) if got == want => text,
        _ => o.pieces.iter().map(|p| p.0.as_str()).collect::<Vec<_>>().join(" "),
    }
}
