//! Tape decoder for reference syntax trees. Small bytes decode to simple constructs and
//! an exhausted tape to a leaf, so proptest's shrinking of the tape (shorter, then
//! smaller) shrinks the formula. Fixed points obey a polarity discipline that makes
//! every generated body syntactically monotone in its bound name.

use crate::rast::{BinOp, CntOp, RAst, BINOPS, CNTOPS};
use crate::util::Tape;

#[derive(Clone, Debug)]
pub struct Cfg {
    pub names: Vec<String>,
    pub fix_names: Vec<String>,
    pub max_depth: usize,
    pub max_list: usize,
    pub allow_quant: bool,
    pub allow_count: bool,
    pub allow_fix: bool,
    pub allow_ref: bool,
    pub big_consts: bool,
    pub max_fix_nest: usize,
    /// bias: percentage (0..=255 scale) of leaves inside a fixed-point body that are the bound name
    pub fix_var_bias: u8,
}

pub const NAME_POOL: [&str; 14] = [
    "a", "b", "c", "x", "y", "X", "a'", "_1", "\u{e9}", "v_a", "in_", "q2", "Z", "long_name_9",
];

impl Cfg {
    pub fn standard(nnames: usize, depth: usize) -> Cfg {
        Cfg {
            names: NAME_POOL.iter().take(nnames).map(|s| s.to_string()).collect(),
            fix_names: vec!["X".into(), "Y".into(), "a".into(), "F'".into()],
            max_depth: depth,
            max_list: 4,
            allow_quant: true,
            allow_count: true,
            allow_fix: true,
            allow_ref: false,
            big_consts: true,
            max_fix_nest: 2,
            fix_var_bias: 90,
        }
    }
}

#[derive(Clone, Copy, Debug, PartialEq, Eq)]
pub enum Pol {
    Pos,
    Neg,
    Blocked,
}

impl Pol {
    fn flip(self) -> Pol {
        match self {
            Pol::Pos => Pol::Neg,
            Pol::Neg => Pol::Pos,
            Pol::Blocked => Pol::Blocked,
        }
    }
}

#[derive(Clone, Debug)]
pub enum Binder {
    Quant(String),
    Fix(String, Pol),
}

#[derive(Clone, Debug, Default)]
pub struct Scope {
    binders: Vec<Binder>,
    fix_nest: usize,
}

impl Scope {
    fn flipped(&self) -> Scope {
        let mut s = self.clone();
        for b in s.binders.iter_mut() {
            if let Binder::Fix(_, p) = b {
                *p = p.flip();
            }
        }
        s
    }
    fn blocked(&self) -> Scope {
        let mut s = self.clone();
        for b in s.binders.iter_mut() {
            if let Binder::Fix(_, p) = b {
                *p = Pol::Blocked;
            }
        }
        s
    }
    /// may `name` be emitted as a variable occurrence here?
    fn usable(&self, name: &str) -> bool {
        for b in self.binders.iter().rev() {
            match b {
                Binder::Quant(n) if n == name => return true,
                Binder::Fix(n, p) if n == name => return *p == Pol::Pos,
                _ => {}
            }
        }
        true
    }
    /// fixed-point names that are visible (not shadowed) and positive here
    fn positive_fix_names(&self) -> Vec<String> {
        let mut out = Vec::new();
        let mut seen: Vec<&str> = Vec::new();
        for b in self.binders.iter().rev() {
            match b {
                Binder::Quant(n) => {
                    if !seen.contains(&n.as_str()) {
                        seen.push(n);
                    }
                }
                Binder::Fix(n, p) => {
                    if !seen.contains(&n.as_str()) {
                        seen.push(n);
                        if *p == Pol::Pos {
                            out.push(n.clone());
                        }
                    }
                }
            }
        }
        out
    }
}

fn leaf(t: &mut Tape, cfg: &Cfg, sc: &Scope) -> RAst {
    let pf = sc.positive_fix_names();
    if !pf.is_empty() && t.chance(cfg.fix_var_bias) {
        return RAst::Var(pf[t.choose(pf.len())].clone());
    }
    match t.choose(16) {
        15 => RAst::True,
        14 => RAst::False,
        13 if cfg.allow_ref => RAst::Ref(["r", "ref'1", "a"][t.choose(3)].to_string()),
        _ => {
            let n = cfg.names.len();
            if n == 0 {
                return RAst::True;
            }
            let start = t.choose(n);
            for off in 0..n {
                let name = &cfg.names[(start + off) % n];
                if sc.usable(name) {
                    return RAst::Var(name.clone());
                }
            }
            RAst::True
        }
    }
}

fn number(t: &mut Tape, cfg: &Cfg, len: usize) -> u64 {
    if cfg.big_consts && t.chance(16) {
        [
            1u64 << 31,
            (1u64 << 32) + 1,
            (1u64 << 63) - 1,
            1u64 << 63,
            u64::MAX - 1,
            u64::MAX,
        ][t.choose(6)]
    } else {
        t.choose(len + 3) as u64
    }
}

fn list(t: &mut Tape, cfg: &Cfg, depth: usize, sc: &Scope) -> Vec<RAst> {
    let n = t.choose(cfg.max_list + 1);
    (0..n).map(|_| node(t, cfg, depth, sc)).collect()
}

fn binder_name(t: &mut Tape, cfg: &Cfg) -> String {
    // mostly ordinary names (so that names are reused bound and free), sometimes a
    // fixed-point name (shadowing), sometimes a name that occurs nowhere else
    match t.choose(8) {
        0 => "unused_1".to_string(),
        1 if !cfg.fix_names.is_empty() => cfg.fix_names[t.choose(cfg.fix_names.len())].clone(),
        _ => {
            if cfg.names.is_empty() {
                "z".to_string()
            } else {
                cfg.names[t.choose(cfg.names.len())].clone()
            }
        }
    }
}

pub fn node(t: &mut Tape, cfg: &Cfg, depth: usize, sc: &Scope) -> RAst {
    if depth == 0 || t.exhausted() {
        return leaf(t, cfg, sc);
    }
    let d = depth - 1;
    match t.choose(32) {
        0..=5 => leaf(t, cfg, sc),
        6..=8 => RAst::Not(Box::new(node(t, cfg, d, &sc.flipped()))),
        9..=18 => {
            let op = BINOPS[t.choose(8)];
            let (ls, rs) = match op {
                BinOp::And | BinOp::Or => (sc.clone(), sc.clone()),
                BinOp::Implies => (sc.flipped(), sc.clone()),
                BinOp::ImpliesInv => (sc.clone(), sc.flipped()),
                BinOp::Nor | BinOp::Nand => (sc.flipped(), sc.flipped()),
                BinOp::Xor | BinOp::Iff => (sc.blocked(), sc.blocked()),
            };
            let l = node(t, cfg, d, &ls);
            let r = node(t, cfg, d, &rs);
            RAst::Bin(op, Box::new(l), Box::new(r))
        }
        19 | 20 => {
            let c = node(t, cfg, d, &sc.blocked());
            let th = node(t, cfg, d, sc);
            let el = node(t, cfg, d, sc);
            RAst::Ite(Box::new(c), Box::new(th), Box::new(el))
        }
        21..=23 if cfg.allow_quant => {
            let n = t.choose(4);
            let mut names: Vec<String> = (0..n).map(|_| binder_name(t, cfg)).collect();
            if n >= 2 && t.chance(40) {
                // repeated name
                names[n - 1] = names[0].clone();
            }
            let mut inner = sc.clone();
            for nm in &names {
                inner.binders.push(Binder::Quant(nm.clone()));
            }
            let body = node(t, cfg, d, &inner);
            RAst::Quant(t.flag(), names, Box::new(body))
        }
        24..=26 if cfg.allow_count => {
            let op = CNTOPS[t.choose(5)];
            let inner = match op {
                CntOp::AtLeast | CntOp::MoreThan => sc.clone(),
                CntOp::AtMost | CntOp::LessThan => sc.flipped(),
                CntOp::Exactly => sc.blocked(),
            };
            let l = list(t, cfg, d, &inner);
            let n = number(t, cfg, l.len());
            RAst::CountConst(op, l, n)
        }
        27 | 28 if cfg.allow_count => {
            let op = CNTOPS[t.choose(5)];
            let (ls, rs) = match op {
                CntOp::AtLeast | CntOp::MoreThan => (sc.clone(), sc.flipped()),
                CntOp::AtMost | CntOp::LessThan => (sc.flipped(), sc.clone()),
                CntOp::Exactly => (sc.blocked(), sc.blocked()),
            };
            let l = list(t, cfg, d, &ls);
            let r = list(t, cfg, d, &rs);
            RAst::CountList(op, l, r)
        }
        29..=31 if cfg.allow_fix && sc.fix_nest < cfg.max_fix_nest && !cfg.fix_names.is_empty() => {
            let name = cfg.fix_names[t.choose(cfg.fix_names.len())].clone();
            let mut inner = sc.clone();
            inner.fix_nest += 1;
            inner.binders.push(Binder::Fix(name.clone(), Pol::Pos));
            let body = node(t, cfg, d, &inner);
            RAst::Fix(name, t.flag(), Box::new(body))
        }
        _ => {
            let l = node(t, cfg, d, sc);
            let r = node(t, cfg, d, sc);
            RAst::Bin(if t.flag() { BinOp::And } else { BinOp::Or }, Box::new(l), Box::new(r))
        }
    }
}

pub fn formula(t: &mut Tape, cfg: &Cfg) -> RAst {
    node(t, cfg, cfg.max_depth, &Scope::default())
}

/// a fixed point at the root whose body is monotone in the bound name
pub fn fix_formula(t: &mut Tape, cfg: &Cfg) -> RAst {
    let name = cfg.fix_names[t.choose(cfg.fix_names.len())].clone();
    let mut sc = Scope::default();
    sc.fix_nest = 1;
    sc.binders.push(Binder::Fix(name.clone(), Pol::Pos));
    let body = node(t, cfg, cfg.max_depth, &sc);
    RAst::Fix(name, t.flag(), Box::new(body))
}

/// syntactic monotonicity check (independent of the generator's bookkeeping): is every
/// fixed-point body of `ast` monotone in its bound name by the polarity rules?
pub fn syntactically_monotone(ast: &RAst) -> bool {
    fn occurs_ok(a: &RAst, name: &str, pol: Pol) -> bool {
        match a {
            RAst::Var(n) => n != name || pol == Pol::Pos,
            RAst::False | RAst::True | RAst::Ref(_) => true,
            RAst::Not(x) => occurs_ok(x, name, pol.flip()),
            RAst::Bin(op, l, r) => {
                let (pl, pr) = match op {
                    BinOp::And | BinOp::Or => (pol, pol),
                    BinOp::Implies => (pol.flip(), pol),
                    BinOp::ImpliesInv => (pol, pol.flip()),
                    BinOp::Nor | BinOp::Nand => (pol.flip(), pol.flip()),
                    BinOp::Xor | BinOp::Iff => (Pol::Blocked, Pol::Blocked),
                };
                occurs_ok(l, name, pl) && occurs_ok(r, name, pr)
            }
            RAst::Ite(c, t, e) => occurs_ok(c, name, Pol::Blocked) && occurs_ok(t, name, pol) && occurs_ok(e, name, pol),
            RAst::Quant(_, ns, b) => ns.iter().any(|n| n == name) || occurs_ok(b, name, pol),
            RAst::Fix(n, _, b) => n == name || occurs_ok(b, name, pol),
            RAst::CountConst(op, l, _) => {
                let p = match op {
                    CntOp::AtLeast | CntOp::MoreThan => pol,
                    CntOp::AtMost | CntOp::LessThan => pol.flip(),
                    CntOp::Exactly => Pol::Blocked,
                };
                l.iter().all(|f| occurs_ok(f, name, p))
            }
            RAst::CountList(op, l, r) => {
                let (pl, pr) = match op {
                    CntOp::AtLeast | CntOp::MoreThan => (pol, pol.flip()),
                    CntOp::AtMost | CntOp::LessThan => (pol.flip(), pol),
                    CntOp::Exactly => (Pol::Blocked, Pol::Blocked),
                };
                l.iter().all(|f| occurs_ok(f, name, pl)) && r.iter().all(|f| occurs_ok(f, name, pr))
            }
        }
    }
    let own = match ast {
        RAst::Fix(n, _, b) => occurs_ok(b, n, Pol::Pos),
        _ => true,
    };
    own && ast.children().iter().all(|c| syntactically_monotone(c))
}

/// Monotone bodies whose Kleene chain is as long as the lattice allows (2^k steps over k
/// variables, far more than the number of names): the minterms m_0, m_1, .. of the variables are
/// visited along a random path,
/// `lfp X # m_0 | X | ((exists vars # X & m_0) & m_1) | ((exists vars # X & m_1) & m_2) | ..`
/// (`exists vars # X & m_i` = "m_i already belongs to X"); each application adds exactly one
/// minterm. `gfp` variants are the De Morgan duals.
pub fn path_chain_fix(t: &mut Tape, cfg: &Cfg) -> RAst {
    let name = cfg.fix_names[t.choose(cfg.fix_names.len())].clone();
    let vars: Vec<String> = cfg.names.iter().filter(|n| **n != name).cloned().collect();
    if vars.len() < 2 {
        return fix_formula(t, cfg);
    }
    let k = vars.len().min(4);
    let vars = &vars[..k];
    let n = 1usize << k;
    // a random path through the minterms
    let mut order: Vec<usize> = (0..n).collect();
    for i in (1..n).rev() {
        let j = t.choose(i + 1);
        order.swap(i, j);
    }
    let len = 2 + t.choose(n - 1); // 2..=n minterms on the path
    let minterm = |m: usize| -> RAst {
        let mut acc: Option<RAst> = None;
        for (p, v) in vars.iter().enumerate() {
            let lit = if (m >> p) & 1 == 1 { RAst::Var(v.clone()) } else { RAst::not(RAst::Var(v.clone())) };
            acc = Some(match acc {
                None => lit,
                Some(a) => RAst::bin(BinOp::And, a, lit),
            });
        }
        acc.expect("k >= 2")
    };
    let x = || RAst::Var(name.clone());
    let mut body = RAst::bin(BinOp::Or, minterm(order[0]), x());
    for i in 1..len {
        let reached = RAst::Quant(true, vars.to_vec(), Box::new(RAst::bin(BinOp::And, x(), minterm(order[i - 1]))));
        body = RAst::bin(BinOp::Or, body, RAst::bin(BinOp::And, reached, minterm(order[i])));
    }
    if t.flag() {
        RAst::Fix(name, false, Box::new(body))
    } else {
        // dual: gfp X # not T[X := not X]
        RAst::Fix(name.clone(), true, Box::new(RAst::not(subst_not_free(&body, &name))))
    }
}

/// T[X := not X] for the free occurrences of X
pub fn subst_not_free(a: &RAst, name: &str) -> RAst {
    match a {
        RAst::Var(n) if n == name => RAst::not(RAst::Var(n.clone())),
        RAst::Not(b) => RAst::not(subst_not_free(b, name)),
        RAst::Bin(op, l, r) => RAst::bin(*op, subst_not_free(l, name), subst_not_free(r, name)),
        RAst::Ite(c, th, e) => RAst::Ite(
            Box::new(subst_not_free(c, name)),
            Box::new(subst_not_free(th, name)),
            Box::new(subst_not_free(e, name)),
        ),
        RAst::Quant(ex, ns, b) => {
            if ns.iter().any(|n| n == name) {
                a.clone()
            } else {
                RAst::Quant(*ex, ns.clone(), Box::new(subst_not_free(b, name)))
            }
        }
        RAst::Fix(n, g, b) => {
            if n == name {
                a.clone()
            } else {
                RAst::Fix(n.clone(), *g, Box::new(subst_not_free(b, name)))
            }
        }
        RAst::CountConst(op, l, c) => RAst::CountConst(*op, l.iter().map(|f| subst_not_free(f, name)).collect(), *c),
        RAst::CountList(op, l, r) => RAst::CountList(
            *op,
            l.iter().map(|f| subst_not_free(f, name)).collect(),
            r.iter().map(|f| subst_not_free(f, name)).collect(),
        ),
        other => other.clone(),
    }
}

/// A constructed family of monotone bodies whose Kleene chain needs several steps:
/// `lfp X # s0 | X | ((all v0 # v0 => X) & v1) | ((all v1 # v1 => X) & v2) ...`
/// (each stage becomes true only after the previous variable has been absorbed), plus
/// random monotone noise; `gfp` variants are the De Morgan duals.
pub fn chain_fix(t: &mut Tape, cfg: &Cfg) -> RAst {
    let name = cfg.fix_names[t.choose(cfg.fix_names.len())].clone();
    let vars: Vec<String> = cfg.names.iter().filter(|n| **n != name).cloned().collect();
    if vars.len() < 2 {
        return fix_formula(t, cfg);
    }
    let x = || RAst::Var(name.clone());
    let stages = 1 + t.choose(std::cmp::min(vars.len() - 1, 4));
    let first = t.choose(vars.len());
    let v = |i: usize| vars[(first + i) % vars.len()].clone();
    let mut body = RAst::bin(BinOp::Or, RAst::Var(v(0)), x());
    for s in 0..stages {
        let guard = RAst::Quant(
            false,
            vec![v(s)],
            Box::new(match t.choose(3) {
                0 => RAst::bin(BinOp::Implies, RAst::Var(v(s)), x()),
                1 => RAst::bin(BinOp::ImpliesInv, x(), RAst::Var(v(s))),
                _ => RAst::bin(BinOp::Or, RAst::not(RAst::Var(v(s))), x()),
            }),
        );
        let stage = match t.choose(3) {
            0 => RAst::bin(BinOp::And, guard, RAst::Var(v(s + 1))),
            1 => RAst::Ite(Box::new(RAst::Var(v(s + 1))), Box::new(guard), Box::new(RAst::False)),
            _ => RAst::CountConst(CntOp::AtLeast, vec![guard, RAst::Var(v(s + 1))], 2),
        };
        body = RAst::bin(BinOp::Or, body, stage);
    }
    if t.chance(80) {
        // monotone noise
        let mut sc = Scope::default();
        sc.fix_nest = 1;
        sc.binders.push(Binder::Fix(name.clone(), Pol::Pos));
        let mut c2 = cfg.clone();
        c2.max_fix_nest = 1;
        let noise = node(t, &c2, 2, &sc);
        body = RAst::bin(if t.flag() { BinOp::Or } else { BinOp::And }, body, noise);
    }
    if t.flag() {
        RAst::Fix(name, false, Box::new(body))
    } else {
        // dual: gfp X # not T[X := not X]
        fn subst_not(a: &RAst, name: &str) -> RAst {
            match a {
                RAst::Var(n) if n == name => RAst::not(RAst::Var(n.clone())),
                RAst::Not(b) => RAst::not(subst_not(b, name)),
                RAst::Bin(op, l, r) => RAst::bin(*op, subst_not(l, name), subst_not(r, name)),
                RAst::Ite(c, th, e) => RAst::Ite(
                    Box::new(subst_not(c, name)),
                    Box::new(subst_not(th, name)),
                    Box::new(subst_not(e, name)),
                ),
                RAst::Quant(ex, ns, b) => {
                    if ns.iter().any(|n| n == name) {
                        a.clone()
                    } else {
                        RAst::Quant(*ex, ns.clone(), Box::new(subst_not(b, name)))
                    }
                }
                RAst::Fix(n, g, b) => {
                    if n == name {
                        a.clone()
                    } else {
                        RAst::Fix(n.clone(), *g, Box::new(subst_not(b, name)))
                    }
                }
                RAst::CountConst(op, l, n) => {
                    RAst::CountConst(*op, l.iter().map(|f| subst_not(f, name)).collect(), *n)
                }
                RAst::CountList(op, l, r) => RAst::CountList(
                    *op,
                    l.iter().map(|f| subst_not(f, name)).collect(),
                    r.iter().map(|f| subst_not(f, name)).collect(),
                ),
                _ => a.clone(),
            }
        }
        RAst::Fix(name.clone(), true, Box::new(RAst::not(subst_not(&body, &name))))
    }
}
