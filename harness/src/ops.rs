//! Operation histories over one `BDDEnv<usize>`: the `Op` vocabulary (every public
//! operation), a tape decoder, application to an environment and a truth-table oracle.
//! Used by C02 (routes), C13 (histories) and the `history` fuzz target.

use crate::tt::TT;
use crate::util::Tape;
use rsbdd::bdd::{BDDEnv, BDD};
use rsbdd::TruthTableEntry;
use serde_json::{json, Value};
use std::rc::Rc;

/// universe of variable ids used by histories: 0..K
pub const K: usize = 7;

pub const BINOPS: [&str; 7] = ["and", "or", "implies", "eq", "xor", "nor", "nand"];
pub const COUNTS: [&str; 5] = ["leq", "lt", "geq", "gt", "eq"];
pub const FPS: [&str; 5] = ["or-const", "and-const", "or-and", "closure-exists", "shrink-forall"];

#[derive(Clone, Debug, PartialEq, Eq)]
pub enum Op {
    Const(bool),
    Var(usize),
    Not(usize),
    Bin(String, usize, usize),
    Ite(usize, usize, usize),
    Exists(Vec<usize>, usize),
    All(Vec<usize>, usize),
    ExistsImpl(usize, usize),
    /// kind in aln|amn|exn
    CountN(String, Vec<usize>, i64),
    /// kind in COUNTS
    Count2(String, Vec<usize>, Vec<usize>),
    /// fp(init, t) with t from a fixed family of converging transformers
    Fp(String, usize, usize, usize, usize),
    Model(usize),
    /// filter: "t" | "f" | "a"
    Retain(String, usize),
    Clean(usize),
    Infer(usize, usize),
}

impl Op {
    pub fn to_json(&self) -> Value {
        match self {
            Op::Const(b) => json!(["const", b]),
            Op::Var(v) => json!(["var", v]),
            Op::Not(a) => json!(["not", a]),
            Op::Bin(o, a, b) => json!([o, a, b]),
            Op::Ite(a, b, c) => json!(["ite", a, b, c]),
            Op::Exists(v, a) => json!(["exists", v, a]),
            Op::All(v, a) => json!(["all", v, a]),
            Op::ExistsImpl(v, a) => json!(["exists1", v, a]),
            Op::CountN(k, l, n) => json!([k, l, n]),
            Op::Count2(k, a, b) => json!([format!("count_{}", k), a, b]),
            Op::Fp(k, init, p0, p1, v) => json!(["fp", k, init, p0, p1, v]),
            Op::Model(a) => json!(["model", a]),
            Op::Retain(f, a) => json!(["retain", f, a]),
            Op::Clean(a) => json!(["clean", a]),
            Op::Infer(a, v) => json!(["infer", a, v]),
        }
    }

    pub fn from_json(v: &Value) -> Option<Op> {
        let a = v.as_array()?;
        let name = a.first()?.as_str()?;
        let us = |i: usize| -> Option<usize> { a.get(i)?.as_u64().map(|x| x as usize) };
        let list = |i: usize| -> Option<Vec<usize>> {
            a.get(i)?
                .as_array()?
                .iter()
                .map(|x| x.as_u64().map(|u| u as usize))
                .collect()
        };
        Some(match name {
            "const" => Op::Const(a.get(1)?.as_bool()?),
            "var" => Op::Var(us(1)?),
            "not" => Op::Not(us(1)?),
            "ite" => Op::Ite(us(1)?, us(2)?, us(3)?),
            "exists" => Op::Exists(list(1)?, us(2)?),
            "all" => Op::All(list(1)?, us(2)?),
            "exists1" => Op::ExistsImpl(us(1)?, us(2)?),
            "aln" | "amn" | "exn" => Op::CountN(name.to_string(), list(1)?, a.get(2)?.as_i64()?),
            "fp" => Op::Fp(a.get(1)?.as_str()?.to_string(), us(2)?, us(3)?, us(4)?, us(5)?),
            "model" => Op::Model(us(1)?),
            "retain" => Op::Retain(a.get(1)?.as_str()?.to_string(), us(2)?),
            "clean" => Op::Clean(us(1)?),
            "infer" => Op::Infer(us(1)?, us(2)?),
            n if n.starts_with("count_") => {
                Op::Count2(n.trim_start_matches("count_").to_string(), list(1)?, list(2)?)
            }
            n if BINOPS.contains(&n) => Op::Bin(n.to_string(), us(1)?, us(2)?),
            _ => return None,
        })
    }

    pub fn name(&self) -> String {
        match self {
            Op::Const(_) => "const".into(),
            Op::Var(_) => "var".into(),
            Op::Not(_) => "not".into(),
            Op::Bin(o, _, _) => o.clone(),
            Op::Ite(..) => "ite".into(),
            Op::Exists(..) => "exists".into(),
            Op::All(..) => "all".into(),
            Op::ExistsImpl(..) => "exists1".into(),
            Op::CountN(k, ..) => k.clone(),
            Op::Count2(k, ..) => format!("count_{}", k),
            Op::Fp(..) => "fp".into(),
            Op::Model(_) => "model".into(),
            Op::Retain(..) => "retain".into(),
            Op::Clean(_) => "clean".into(),
            Op::Infer(..) => "infer".into(),
        }
    }

    /// indices of earlier results used as operands
    pub fn operands(&self) -> Vec<usize> {
        match self {
            Op::Const(_) | Op::Var(_) => vec![],
            Op::Not(a) | Op::Model(a) | Op::Clean(a) | Op::Retain(_, a) | Op::Infer(a, _) => {
                vec![*a]
            }
            Op::Exists(_, a) | Op::All(_, a) | Op::ExistsImpl(_, a) => vec![*a],
            Op::Bin(_, a, b) => vec![*a, *b],
            Op::Ite(a, b, c) => vec![*a, *b, *c],
            Op::CountN(_, l, _) => l.clone(),
            Op::Count2(_, a, b) => a.iter().chain(b.iter()).copied().collect(),
            Op::Fp(_, i, p0, p1, _) => vec![*i, *p0, *p1],
        }
    }
}

pub fn ops_to_json(ops: &[Op]) -> Value {
    Value::Array(ops.iter().map(|o| o.to_json()).collect())
}

pub fn ops_from_json(v: &Value) -> Option<Vec<Op>> {
    v.as_array()?.iter().map(Op::from_json).collect()
}

fn filter_of(s: &str) -> TruthTableEntry {
    match s {
        "t" => TruthTableEntry::True,
        "f" => TruthTableEntry::False,
        _ => TruthTableEntry::Any,
    }
}

struct FpLimit;
impl FpLimit {
    fn set(n: usize) -> FpLimit {
        rsbdd::bdd::verif_hooks::set_fp_iteration_limit(Some(n));
        FpLimit
    }
}
impl Drop for FpLimit {
    fn drop(&mut self) {
        rsbdd::bdd::verif_hooks::set_fp_iteration_limit(None);
    }
}

/// What an operation produced in the environment.
pub enum Out {
    Diagram(Rc<BDD<usize>>),
    Pair(bool, bool),
}

/// Apply `op` in `env`; `pool[i]` is the i-th earlier result (ops without diagram result
/// push a copy of their operand so that indices stay aligned).
pub fn apply(env: &BDDEnv<usize>, op: &Op, pool: &[Rc<BDD<usize>>]) -> Out {
    let g = |i: &usize| Rc::clone(&pool[*i]);
    let gl = |l: &Vec<usize>| -> Vec<Rc<BDD<usize>>> { l.iter().map(|i| Rc::clone(&pool[*i])).collect() };
    Out::Diagram(match op {
        Op::Const(b) => env.mk_const(*b),
        Op::Var(v) => env.var(*v),
        Op::Not(a) => env.not(g(a)),
        Op::Bin(o, a, b) => match o.as_str() {
            "and" => env.and(g(a), g(b)),
            "or" => env.or(g(a), g(b)),
            "implies" => env.implies(g(a), g(b)),
            "eq" => env.eq(g(a), g(b)),
            "xor" => env.xor(g(a), g(b)),
            "nor" => env.nor(g(a), g(b)),
            "nand" => env.nand(g(a), g(b)),
            _ => panic!("harness: op {}", o),
        },
        Op::Ite(a, b, c) => env.ite(g(a), g(b), g(c)),
        Op::Exists(v, a) => env.exists(v.clone(), g(a)),
        Op::All(v, a) => env.all(v.clone(), g(a)),
        // single-variable elimination through the documented entry point (the helper behind it
        // is an implementation detail whose signature may change)
        Op::ExistsImpl(v, a) => env.exists(vec![*v], g(a)),
        Op::CountN(k, l, n) => {
            let bs = gl(l);
            match k.as_str() {
                "aln" => env.aln(&bs, *n),
                "amn" => env.amn(&bs, *n),
                "exn" => env.exn(&bs, *n),
                _ => panic!("harness: count {}", k),
            }
        }
        Op::Count2(k, a, b) => {
            let (x, y) = (gl(a), gl(b));
            match k.as_str() {
                "leq" => env.count_leq(&x, &y),
                "lt" => env.count_lt(&x, &y),
                "geq" => env.count_geq(&x, &y),
                "gt" => env.count_gt(&x, &y),
                "eq" => env.count_eq(&x, &y),
                _ => panic!("harness: count2 {}", k),
            }
        }
        Op::Fp(k, init, p0, p1, v) => {
            let (p0, p1) = (g(p0), g(p1));
            let v = *v;
            // every transformer of the family is inflationary or deflationary: it stabilises
            // within the lattice height; the hook turns a runaway iteration into a panic
            let _guard = FpLimit::set((1usize << K) + 2);
            match k.as_str() {
                "or-const" => env.fp(g(init), |x| env.or(x, Rc::clone(&p0))),
                "and-const" => env.fp(g(init), |x| env.and(x, Rc::clone(&p0))),
                "or-and" => env.fp(g(init), |x| {
                    env.or(Rc::clone(&p0), env.and(Rc::clone(&p1), x))
                }),
                "closure-exists" => env.fp(g(init), |x| {
                    env.or(
                        Rc::clone(&x),
                        env.exists(vec![v], env.and(x, Rc::clone(&p0))),
                    )
                }),
                "shrink-forall" => env.fp(g(init), |x| {
                    env.and(
                        Rc::clone(&x),
                        env.all(vec![v], env.or(x, Rc::clone(&p0))),
                    )
                }),
                _ => panic!("harness: fp {}", k),
            }
        }
        Op::Model(a) => env.model(g(a)),
        Op::Retain(f, a) => env.retain_choice_bottom_up(g(a), filter_of(f)),
        Op::Clean(a) => env.clean(g(a)),
        Op::Infer(a, v) => {
            let (x, y) = env.infer(g(a), *v);
            return Out::Pair(x, y);
        }
    })
}

/// The truth-table oracle for one operation.
pub enum Oracle {
    Exact(TT),
    /// a single cube implying the operand, False iff operand unsatisfiable, support within operand's
    ModelOf(TT),
    /// filter True: operand => result; False: result => operand; support within operand's
    RetainOf(String, TT),
    Pair(bool, bool),
}

fn fp_tt<F: Fn(&TT) -> TT>(init: &TT, t: F) -> TT {
    let mut s = init.clone();
    for _ in 0..(1usize << 12) {
        let n = t(&s);
        if n == s {
            return s;
        }
        s = n;
    }
    panic!("harness: fp oracle did not converge");
}

pub fn oracle(op: &Op, tabs: &[TT]) -> Oracle {
    let k = K;
    let g = |i: &usize| &tabs[*i];
    let gl = |l: &Vec<usize>| -> Vec<TT> { l.iter().map(|i| tabs[*i].clone()).collect() };
    Oracle::Exact(match op {
        Op::Const(b) => TT::konst(k, *b),
        Op::Var(v) => TT::var(k, *v),
        Op::Not(a) => g(a).not(),
        Op::Bin(o, a, b) => match o.as_str() {
            "and" => g(a).and(g(b)),
            "or" => g(a).or(g(b)),
            "implies" => g(a).implies(g(b)),
            "eq" => g(a).iff(g(b)),
            "xor" => g(a).xor(g(b)),
            "nor" => g(a).nor(g(b)),
            "nand" => g(a).nand(g(b)),
            _ => panic!("harness: op {}", o),
        },
        Op::Ite(a, b, c) => g(a).ite(g(b), g(c)),
        Op::Exists(v, a) => v.iter().fold(g(a).clone(), |f, p| f.exists(*p)),
        Op::All(v, a) => v.iter().fold(g(a).clone(), |f, p| f.forall(*p)),
        Op::ExistsImpl(v, a) => g(a).exists(*v),
        Op::CountN(kind, l, n) => {
            let n = *n as i128;
            let ops = gl(l);
            match kind.as_str() {
                "aln" => TT::count_cmp(k, &ops, |c| c >= n),
                "amn" => TT::count_cmp(k, &ops, |c| c <= n),
                "exn" => TT::count_cmp(k, &ops, |c| c == n),
                _ => panic!("harness: count {}", kind),
            }
        }
        Op::Count2(kind, a, b) => {
            let (x, y) = (gl(a), gl(b));
            match kind.as_str() {
                "leq" => TT::count2_cmp(k, &x, &y, |p, q| p <= q),
                "lt" => TT::count2_cmp(k, &x, &y, |p, q| p < q),
                "geq" => TT::count2_cmp(k, &x, &y, |p, q| p >= q),
                "gt" => TT::count2_cmp(k, &x, &y, |p, q| p > q),
                "eq" => TT::count2_cmp(k, &x, &y, |p, q| p == q),
                _ => panic!("harness: count2 {}", kind),
            }
        }
        Op::Fp(kind, init, p0, p1, v) => {
            let (p0, p1) = (g(p0), g(p1));
            match kind.as_str() {
                "or-const" => fp_tt(g(init), |x| x.or(p0)),
                "and-const" => fp_tt(g(init), |x| x.and(p0)),
                "or-and" => fp_tt(g(init), |x| p0.or(&p1.and(x))),
                "closure-exists" => fp_tt(g(init), |x| x.or(&x.and(p0).exists(*v))),
                "shrink-forall" => fp_tt(g(init), |x| x.and(&x.or(p0).forall(*v))),
                _ => panic!("harness: fp {}", kind),
            }
        }
        Op::Clean(a) => g(a).clone(),
        Op::Model(a) => return Oracle::ModelOf(g(a).clone()),
        Op::Retain(f, a) => {
            if f == "a" {
                g(a).clone()
            } else {
                return Oracle::RetainOf(f.clone(), g(a).clone());
            }
        }
        Op::Infer(a, v) => {
            let ff = g(a).implies(&TT::var(k, *v));
            return if ff.is_true() {
                Oracle::Pair(true, true)
            } else if ff.is_false() {
                Oracle::Pair(true, false)
            } else {
                Oracle::Pair(false, false)
            };
        }
    })
}

fn pick(t: &mut Tape, len: usize, recent_bias: bool) -> usize {
    // index among all earlier results; half of the time biased to old handles
    if len == 0 {
        return 0;
    }
    if recent_bias && t.flag() {
        let back = t.choose(std::cmp::min(len, 4));
        len - 1 - back
    } else {
        t.choose(len)
    }
}

fn pick_list(t: &mut Tape, len: usize, max: usize) -> Vec<usize> {
    let n = t.choose(max + 1);
    (0..n).map(|_| pick(t, len, true)).collect()
}

/// Decode a history of at most `max_ops` operations. The first results are always the
/// two constants and a few variables so that every index is valid.
pub fn gen_ops(t: &mut Tape, max_ops: usize) -> Vec<Op> {
    gen_ops_with(t, max_ops, 0)
}

/// `extra_clean` adds weight to `clean` (used by the handle-dropping histories)
pub fn gen_ops_with(t: &mut Tape, max_ops: usize, extra_clean: usize) -> Vec<Op> {
    let mut ops = vec![Op::Const(false), Op::Const(true)];
    let nv = 2 + t.choose(K - 1);
    for _ in 0..nv {
        ops.push(Op::Var(t.choose(K)));
    }
    let n = t.choose(max_ops + 1);
    for _ in 0..n {
        if t.exhausted() {
            break;
        }
        let len = ops.len();
        let op = match t.choose(32 + extra_clean) {
            0 => Op::Const(t.flag()),
            1 | 2 => Op::Var(t.choose(K)),
            3 | 4 => Op::Not(pick(t, len, true)),
            5..=13 => Op::Bin(
                BINOPS[t.choose(7)].to_string(),
                pick(t, len, true),
                pick(t, len, true),
            ),
            14 | 15 => Op::Ite(pick(t, len, true), pick(t, len, true), pick(t, len, true)),
            16 | 17 => {
                let nvars = t.choose(4);
                let vars = (0..nvars).map(|_| t.choose(K)).collect();
                Op::Exists(vars, pick(t, len, true))
            }
            18 | 19 => {
                let nvars = t.choose(4);
                let vars = (0..nvars).map(|_| t.choose(K)).collect();
                Op::All(vars, pick(t, len, true))
            }
            20 => Op::ExistsImpl(t.choose(K), pick(t, len, true)),
            21 | 22 => {
                let kind = ["aln", "amn", "exn"][t.choose(3)].to_string();
                let l = pick_list(t, len, 4);
                let n = t.choose(l.len() + 4) as i64 - 1;
                Op::CountN(kind, l, n)
            }
            23 | 24 => Op::Count2(
                COUNTS[t.choose(5)].to_string(),
                pick_list(t, len, 3),
                pick_list(t, len, 3),
            ),
            25 | 26 => Op::Fp(
                FPS[t.choose(FPS.len())].to_string(),
                pick(t, len, true),
                pick(t, len, true),
                pick(t, len, true),
                t.choose(K),
            ),
            27 | 28 => Op::Model(pick(t, len, true)),
            29 => Op::Retain(["t", "f", "a"][t.choose(3)].to_string(), pick(t, len, true)),
            30 => Op::Clean(pick(t, len, true)),
            31 => Op::Infer(pick(t, len, true), t.choose(K)),
            _ => Op::Clean(pick(t, len, true)),
        };
        ops.push(op);
    }
    ops
}

/// Is every operand index valid (for replay files that may have been hand-edited)?
pub fn well_formed(ops: &[Op]) -> bool {
    for (i, op) in ops.iter().enumerate() {
        if op.operands().iter().any(|&j| j >= i) {
            return false;
        }
        let vars_ok = match op {
            Op::Var(v) | Op::ExistsImpl(v, _) | Op::Infer(_, v) | Op::Fp(_, _, _, _, v) => *v < K,
            Op::Exists(vs, _) | Op::All(vs, _) => vs.iter().all(|v| *v < K),
            _ => true,
        };
        if !vars_ok {
            return false;
        }
    }
    true
}
