//! An independent reference ROBDD package (arena + unique table + memoised apply), written
//! for the harness only. It shares no code with rsbdd and - unlike rsbdd, whose operations
//! recurse over paths - works on nodes, so it serves as the oracle for functions over
//! hundreds of variables, where truth tables (<= 16 variables) cannot go.
//!
//! Variables are `usize` levels ordered by `<` (smallest on top), as in `BDDEnv<usize>`.
//! Under one order the reduced ordered diagram of a function is unique, so two functions are
//! equal iff their node ids in one manager are equal.

use rsbdd::bdd::BDD;
use std::collections::{BTreeSet, HashMap};
use std::rc::Rc;

pub type Id = u32;
pub const F: Id = 0;
pub const T: Id = 1;

/// binary operators as 4-bit tables: bit (a*2+b) is the result for operand values (a, b)
pub const OP_AND: u8 = 0b1000;
pub const OP_OR: u8 = 0b1110;
pub const OP_XOR: u8 = 0b0110;
pub const OP_IFF: u8 = 0b1001;
pub const OP_IMP: u8 = 0b1011; // a => b : false only for (1,0) = bit 2
pub const OP_NOR: u8 = 0b0001;
pub const OP_NAND: u8 = 0b0111;

#[derive(Default)]
pub struct Ref {
    nodes: Vec<(usize, Id, Id)>, // (var, hi, lo); entries 0 and 1 are the leaves
    uniq: HashMap<(usize, Id, Id), Id>,
    memo: HashMap<(u8, Id, Id), Id>,
}

impl Ref {
    pub fn new() -> Ref {
        Ref {
            nodes: vec![(usize::MAX, 0, 0), (usize::MAX, 1, 1)],
            uniq: HashMap::new(),
            memo: HashMap::new(),
        }
    }
    pub fn len(&self) -> usize {
        self.nodes.len()
    }
    pub fn is_empty(&self) -> bool {
        false
    }
    pub fn konst(&self, b: bool) -> Id {
        if b {
            T
        } else {
            F
        }
    }
    fn level(&self, n: Id) -> Option<usize> {
        if n <= 1 {
            None
        } else {
            Some(self.nodes[n as usize].0)
        }
    }
    pub fn node(&self, n: Id) -> Option<(usize, Id, Id)> {
        if n <= 1 {
            None
        } else {
            Some(self.nodes[n as usize])
        }
    }
    pub fn mk(&mut self, var: usize, hi: Id, lo: Id) -> Id {
        if hi == lo {
            return hi;
        }
        if let Some(&n) = self.uniq.get(&(var, hi, lo)) {
            return n;
        }
        let n = self.nodes.len() as Id;
        self.nodes.push((var, hi, lo));
        self.uniq.insert((var, hi, lo), n);
        n
    }
    pub fn var(&mut self, v: usize) -> Id {
        self.mk(v, T, F)
    }
    pub fn lit(&mut self, v: usize, pos: bool) -> Id {
        if pos {
            self.mk(v, T, F)
        } else {
            self.mk(v, F, T)
        }
    }
    pub fn apply(&mut self, op: u8, a: Id, b: Id) -> Id {
        if a <= 1 && b <= 1 {
            return ((op >> (a * 2 + b)) & 1) as Id;
        }
        if let Some(&r) = self.memo.get(&(op, a, b)) {
            return r;
        }
        let la = self.level(a);
        let lb = self.level(b);
        let top = match (la, lb) {
            (Some(x), Some(y)) => x.min(y),
            (Some(x), None) => x,
            (None, Some(y)) => y,
            (None, None) => unreachable!(),
        };
        let (ah, al) = if la == Some(top) {
            let (_, h, l) = self.nodes[a as usize];
            (h, l)
        } else {
            (a, a)
        };
        let (bh, bl) = if lb == Some(top) {
            let (_, h, l) = self.nodes[b as usize];
            (h, l)
        } else {
            (b, b)
        };
        let h = self.apply(op, ah, bh);
        let l = self.apply(op, al, bl);
        let r = self.mk(top, h, l);
        self.memo.insert((op, a, b), r);
        r
    }
    pub fn and(&mut self, a: Id, b: Id) -> Id {
        self.apply(OP_AND, a, b)
    }
    pub fn or(&mut self, a: Id, b: Id) -> Id {
        self.apply(OP_OR, a, b)
    }
    pub fn xor(&mut self, a: Id, b: Id) -> Id {
        self.apply(OP_XOR, a, b)
    }
    pub fn iff(&mut self, a: Id, b: Id) -> Id {
        self.apply(OP_IFF, a, b)
    }
    pub fn imp(&mut self, a: Id, b: Id) -> Id {
        self.apply(OP_IMP, a, b)
    }
    pub fn not(&mut self, a: Id) -> Id {
        self.apply(OP_XOR, a, T)
    }
    pub fn ite(&mut self, c: Id, t: Id, e: Id) -> Id {
        let nc = self.not(c);
        let x = self.and(c, t);
        let y = self.and(nc, e);
        self.or(x, y)
    }
    pub fn leq(&mut self, a: Id, b: Id) -> bool {
        self.imp(a, b) == T
    }
    /// cofactor on one variable
    pub fn restrict(&mut self, a: Id, v: usize, val: bool) -> Id {
        let mut memo = HashMap::new();
        self.restrict_rec(a, v, val, &mut memo)
    }
    fn restrict_rec(&mut self, a: Id, v: usize, val: bool, memo: &mut HashMap<Id, Id>) -> Id {
        let (x, h, l) = match self.node(a) {
            None => return a,
            Some(n) => n,
        };
        if x > v {
            return a;
        }
        if x == v {
            return if val { h } else { l };
        }
        if let Some(&r) = memo.get(&a) {
            return r;
        }
        let hh = self.restrict_rec(h, v, val, memo);
        let ll = self.restrict_rec(l, v, val, memo);
        let r = self.mk(x, hh, ll);
        memo.insert(a, r);
        r
    }
    /// exists / forall over a set of variables: or / and of the two cofactors, variable by variable
    pub fn quant(&mut self, exists: bool, vars: &BTreeSet<usize>, a: Id) -> Id {
        let mut cur = a;
        // bottom-most variable first keeps intermediate diagrams small
        for v in vars.iter().rev() {
            let h = self.restrict(cur, *v, true);
            let l = self.restrict(cur, *v, false);
            cur = if exists { self.or(h, l) } else { self.and(h, l) };
        }
        cur
    }
    /// `out[j]` = exactly j of the operands are true (j = 0..=ops.len())
    pub fn counts(&mut self, ops: &[Id]) -> Vec<Id> {
        let mut cur: Vec<Id> = vec![T];
        for &x in ops {
            let mut next = Vec::with_capacity(cur.len() + 1);
            for j in 0..=cur.len() {
                let stay = if j < cur.len() { cur[j] } else { F };
                let up = if j > 0 { cur[j - 1] } else { F };
                next.push(self.ite(x, up, stay));
            }
            cur = next;
        }
        cur
    }
    /// the function "cmp(#true among ops)"
    pub fn count_cmp<C: Fn(i128) -> bool>(&mut self, ops: &[Id], cmp: C) -> Id {
        let cs = self.counts(ops);
        let mut r = F;
        for (j, c) in cs.iter().enumerate() {
            if cmp(j as i128) {
                r = self.or(r, *c);
            }
        }
        r
    }
    /// the function "cmp(#true among a, #true among b)"
    pub fn count2_cmp<C: Fn(i128, i128) -> bool>(&mut self, a: &[Id], b: &[Id], cmp: C) -> Id {
        let ca = self.counts(a);
        let cb = self.counts(b);
        let mut r = F;
        for (i, x) in ca.iter().enumerate() {
            let mut inner = F;
            for (j, y) in cb.iter().enumerate() {
                if cmp(i as i128, j as i128) {
                    inner = self.or(inner, *y);
                }
            }
            let t = self.and(*x, inner);
            r = self.or(r, t);
        }
        r
    }
    pub fn eval<A: Fn(usize) -> bool>(&self, mut n: Id, asg: &A) -> bool {
        loop {
            match self.node(n) {
                None => return n == T,
                Some((v, h, l)) => n = if asg(v) { h } else { l },
            }
        }
    }
    pub fn support(&self, n: Id) -> BTreeSet<usize> {
        let mut seen = std::collections::HashSet::new();
        let mut out = BTreeSet::new();
        let mut stack = vec![n];
        while let Some(x) = stack.pop() {
            if let Some((v, h, l)) = self.node(x) {
                if seen.insert(x) {
                    out.insert(v);
                    stack.push(h);
                    stack.push(l);
                }
            }
        }
        out
    }
    /// number of distinct test nodes below n
    pub fn size(&self, n: Id) -> usize {
        let mut seen = std::collections::HashSet::new();
        let mut stack = vec![n];
        while let Some(x) = stack.pop() {
            if let Some((_, h, l)) = self.node(x) {
                if seen.insert(x) {
                    stack.push(h);
                    stack.push(l);
                }
            }
        }
        seen.len()
    }
    /// number of root-to-leaf paths (= size of the unfolded tree's leaf set), saturating.
    /// rsbdd's operations recurse over paths, so this bounds their cost.
    pub fn paths(&self, n: Id) -> u64 {
        let mut memo: HashMap<Id, u64> = HashMap::new();
        self.paths_rec(n, &mut memo)
    }
    fn paths_rec(&self, n: Id, memo: &mut HashMap<Id, u64>) -> u64 {
        match self.node(n) {
            None => 1,
            Some((_, h, l)) => {
                if let Some(&p) = memo.get(&n) {
                    return p;
                }
                let p = self.paths_rec(h, memo).saturating_add(self.paths_rec(l, memo));
                memo.insert(n, p);
                p
            }
        }
    }
    /// one satisfying total assignment restricted to the support (None if unsatisfiable)
    pub fn any_sat(&self, mut n: Id) -> Option<Vec<(usize, bool)>> {
        if n == F {
            return None;
        }
        let mut out = Vec::new();
        while let Some((v, h, l)) = self.node(n) {
            if h != F {
                out.push((v, true));
                n = h;
            } else {
                out.push((v, false));
                n = l;
            }
        }
        Some(out)
    }
    /// The diagram as plain rsbdd values (no environment); shared nodes stay shared.
    pub fn to_plain(&self, n: Id) -> Rc<BDD<usize>> {
        let mut memo: HashMap<Id, Rc<BDD<usize>>> = HashMap::new();
        self.to_plain_rec(n, &mut memo)
    }
    fn to_plain_rec(&self, n: Id, memo: &mut HashMap<Id, Rc<BDD<usize>>>) -> Rc<BDD<usize>> {
        if let Some(r) = memo.get(&n) {
            return Rc::clone(r);
        }
        let r = match self.node(n) {
            None => Rc::new(if n == T { BDD::True } else { BDD::False }),
            Some((v, h, l)) => {
                let hh = self.to_plain_rec(h, memo);
                let ll = self.to_plain_rec(l, memo);
                Rc::new(BDD::Choice(hh, v, ll))
            }
        };
        memo.insert(n, Rc::clone(&r));
        r
    }
    /// Read any decision diagram over symbols S as a function: `ite(var, hi, lo)` bottom-up, so the
    /// reading does not presuppose that the diagram is ordered or reduced. `level` maps a symbol
    /// to its reference level.
    pub fn read<S: rsbdd::BDDSymbol, L: Fn(&S) -> Option<usize>>(&mut self, b: &Rc<BDD<S>>, level: &L) -> Result<Id, String> {
        let mut memo: HashMap<*const BDD<S>, Id> = HashMap::new();
        self.read_rec(b, level, &mut memo)
    }
    fn read_rec<S: rsbdd::BDDSymbol, L: Fn(&S) -> Option<usize>>(
        &mut self,
        b: &Rc<BDD<S>>,
        level: &L,
        memo: &mut HashMap<*const BDD<S>, Id>,
    ) -> Result<Id, String> {
        match b.as_ref() {
            BDD::True => Ok(T),
            BDD::False => Ok(F),
            BDD::Choice(t, v, f) => {
                let key = Rc::as_ptr(b);
                if let Some(&r) = memo.get(&key) {
                    return Ok(r);
                }
                let lv = level(v).ok_or_else(|| format!("diagram tests unexpected symbol `{}`", v))?;
                let h = self.read_rec(t, level, memo)?;
                let l = self.read_rec(f, level, memo)?;
                let x = self.var(lv);
                let r = self.ite(x, h, l);
                memo.insert(key, r);
                Ok(r)
            }
        }
    }
    pub fn read_usize(&mut self, b: &Rc<BDD<usize>>) -> Id {
        self.read(b, &|s: &usize| Some(*s)).expect("total level map")
    }
    /// compact rendering of a (small) diagram for messages
    pub fn render(&self, n: Id) -> String {
        if self.paths(n) > 64 {
            return format!("<diagram: {} nodes, {} paths, support {:?}>", self.size(n), self.paths(n), self.support(n).iter().take(12).collect::<Vec<_>>());
        }
        match self.node(n) {
            None => (if n == T { "T" } else { "F" }).to_string(),
            Some((v, h, l)) => format!("({}?{}:{})", v, self.render(h), self.render(l)),
        }
    }
}

#[cfg(test)]
mod tests {
    use super::*;
    use crate::plain;
    use crate::tt::TT;

    #[test]
    fn agrees_with_truth_tables() {
        // all pairs of 3-variable functions, all operators, against TT
        let syms = [3usize, 7, 11];
        let mut r = Ref::new();
        let ids: Vec<Id> = (0..256u64).map(|b| { let p = plain::build(&TT::from_bits(3, b), &syms); r.read_usize(&p) }).collect();
        for a in (0..256u64).step_by(7) {
            for b in 0..256u64 {
                let ta = TT::from_bits(3, a);
                let tb = TT::from_bits(3, b);
                for (op, want) in [(OP_AND, ta.and(&tb)), (OP_OR, ta.or(&tb)), (OP_XOR, ta.xor(&tb)), (OP_IFF, ta.iff(&tb)), (OP_IMP, ta.implies(&tb)), (OP_NOR, ta.nor(&tb)), (OP_NAND, ta.nand(&tb))] {
                    let got = r.apply(op, ids[a as usize], ids[b as usize]);
                    assert_eq!(got, ids[want.bits() as usize], "op {:04b} {} {}", op, a, b);
                }
            }
            let ta = TT::from_bits(3, a);
            let mut vs = BTreeSet::new();
            vs.insert(7usize);
            assert_eq!(r.quant(true, &vs, ids[a as usize]), ids[ta.exists(1).bits() as usize]);
            assert_eq!(r.quant(false, &vs, ids[a as usize]), ids[ta.forall(1).bits() as usize]);
            let p = r.to_plain(ids[a as usize]);
            assert_eq!(plain::table_usize(&p, &syms).unwrap(), ta);
            assert_eq!(p.as_ref(), plain::build(&ta, &syms).as_ref());
        }
        // counting
        let ops = [ids[0xaa], ids[0xcc], ids[0xf0], ids[0xaa]];
        let tabs = [TT::from_bits(3, 0xaa), TT::from_bits(3, 0xcc), TT::from_bits(3, 0xf0), TT::from_bits(3, 0xaa)];
        for n in -1i128..6 {
            let got = r.count_cmp(&ops, |c| c >= n);
            let want = TT::count_cmp(3, &tabs, |c| c >= n);
            assert_eq!(got, ids[want.bits() as usize]);
        }
        let got = r.count2_cmp(&ops[..2], &ops[1..], |x, y| x < y);
        let want = TT::count2_cmp(3, &tabs[..2], &tabs[1..], |x, y| x < y);
        assert_eq!(got, ids[want.bits() as usize]);
    }
}
