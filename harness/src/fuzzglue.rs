//! Entry points of the cargo-fuzz targets: the same decoders and oracles as the
//! proptest-driven checks. On a violation the replayable case is written to
//! $VERIF_FUZZ_OUT (one JSON file) and the process aborts so that libFuzzer keeps the input.

use crate::engine::Violation;
use crate::gen::{self, Cfg};
use crate::ops;
use crate::props::{c01, c02, c08, c12, c13};
use crate::rprint;
use crate::util::{self, Tape};
use serde_json::json;

fn report(property: &str, v: Violation) {
    if v.message.starts_with("SKIP:") || crate::engine::is_timeout(&v.message) {
        // the check declined the case (outcome left to the implementation)
        return;
    }
    if v.message.starts_with("HARNESS:") {
        // a harness problem is not a finding of the fuzzer: still stop, but say so
        eprintln!("HARNESS problem in fuzz target: {}", v.message);
    }
    let dir = std::env::var("VERIF_FUZZ_OUT").unwrap_or_else(|_| "/verif/replays".to_string());
    let _ = std::fs::create_dir_all(&dir);
    let body = json!({"property": property, "message": v.message, "signature": v.signature, "case": v.case, "found_by": "libFuzzer"});
    let h = util::fnv(serde_json::to_string(&v.case).unwrap_or_default().as_bytes());
    let path = format!("{}/{}-fuzz-{:016x}.json", dir, property, h);
    let _ = std::fs::write(&path, serde_json::to_string_pretty(&body).unwrap_or_default());
    eprintln!("FUZZ-VIOLATION property={} replay={}", property, path);
    eprintln!("{}", v.message);
    std::process::abort();
}

pub fn sem(data: &[u8]) {
    util::install_panic_hook();
    let mut t = Tape::new(data);
    let nnames = 2 + t.choose(6);
    let depth = 1 + t.choose(6);
    let mut cfg = Cfg::standard(nnames, depth);
    cfg.max_list = 4;
    if t.chance(60) {
        cfg.allow_fix = false;
    }
    let ast = gen::formula(&mut t, &cfg);
    let text = rprint::decorated(&ast, &mut t);
    if let Err(v) = c01::self_check(&ast, &text) {
        report("C01", v);
    }
    if let Err(v) = c01::check_text(&text, false) {
        report("C01", v);
    }
}

pub fn parse_diff(data: &[u8]) {
    util::install_panic_hook();
    if data.len() > 4096 {
        return;
    }
    if let Err(v) = c08::diff_text(data) {
        report("C08", v);
    }
}

pub fn nopanic(data: &[u8]) {
    util::install_panic_hook();
    if data.len() > 4096 {
        return;
    }
    if let Err(v) = c12::check_inprocess(data, &None) {
        report("C12", v);
    }
}

pub fn history(data: &[u8]) {
    util::install_panic_hook();
    let mut t = Tape::new(data);
    let opsv = ops::gen_ops(&mut t, 60);
    if let Err(v) = c13::check_history(&opsv, None) {
        report("C13", v);
    }
    if let Err(v) = c02::check_history(&opsv, None) {
        report("C02", v);
    }
}

/// Wide cases under coverage guidance. The first byte selects the kind unless the stage that
/// started the fuzzer pinned it through VERIF_WIDE_KIND (so that a finding belongs to the
/// property whose check is running).
pub fn wide(data: &[u8]) {
    util::install_panic_hook();
    if data.is_empty() {
        return;
    }
    const KINDS: [(&str, &str); 7] = [("conn", "C03"), ("canon", "C02"), ("quant", "C04"), ("count", "C05"), ("model", "C07"), ("retain", "C20"), ("history", "C13")];
    let pinned = std::env::var("VERIF_WIDE_KIND").ok();
    let (kind, prop) = match &pinned {
        Some(k) => KINDS.iter().copied().find(|(n, _)| n == k).unwrap_or(KINDS[0]),
        None => KINDS[data[0] as usize % KINDS.len()],
    };
    let tape = &data[1..];
    let mut st = crate::engine::Stats::default();
    let r = match kind {
        "conn" => crate::wide::tape_conn(tape, false, false, &mut st),
        "canon" => crate::wide::tape_conn(tape, false, true, &mut st),
        "quant" => crate::wide::tape_quant(tape, false, &mut st),
        "count" => crate::wide::tape_count(tape, false, &mut st),
        "model" => crate::wide::tape_model(tape, false, &mut st),
        "retain" => crate::wide::tape_retain(tape, false, &mut st),
        _ => crate::wide::tape_history(tape, false, &mut st),
    };
    if let Err(v) = r {
        report(prop, v);
    }
}
