//! Spawning the repository's binaries (built from the working tree into
//! /verif/target/repo) and reading their output back.

use crate::tt::TT;
use std::io::{Read, Write};
use std::path::{Path, PathBuf};
use std::process::{Command, Stdio};
use std::sync::atomic::{AtomicU64, Ordering};
use std::time::{Duration, Instant};

pub fn verif_dir() -> PathBuf {
    std::env::var("VERIF_DIR")
        .map(PathBuf::from)
        .unwrap_or_else(|_| PathBuf::from("/verif"))
}

pub fn bin(name: &str) -> PathBuf {
    verif_dir().join("target/repo/release").join(name)
}

static COUNTER: AtomicU64 = AtomicU64::new(0);

/// A scratch directory under /verif/work, removed on drop.
pub struct Scratch {
    pub dir: PathBuf,
}

impl Scratch {
    pub fn new() -> Scratch {
        let n = COUNTER.fetch_add(1, Ordering::Relaxed);
        let dir = verif_dir()
            .join("work")
            .join(format!("s{}-{}", std::process::id(), n));
        let _ = std::fs::create_dir_all(&dir);
        Scratch { dir }
    }
    pub fn file(&self, name: &str, content: &[u8]) -> PathBuf {
        let p = self.dir.join(name);
        std::fs::write(&p, content).expect("write scratch file");
        p
    }
    pub fn path(&self, name: &str) -> PathBuf {
        self.dir.join(name)
    }
    /// a legal but awkward file name (double quote, blank, hash, non-ASCII): tools must not let
    /// the NAME of a file leak into the meaning of what they write
    pub fn awkward(name: &str) -> String {
        format!("aw\"k ward #\u{e9} {}", name)
    }
    /// a path at which a LONGER file already exists: tools that write an output file must
    /// replace it, not overwrite its beginning
    pub fn stale(&self, name: &str) -> PathBuf {
        let junk = "stale,content\nof \"an\" earlier } run ] -> --\n".repeat(400);
        self.file(name, junk.as_bytes())
    }
}

impl Default for Scratch {
    fn default() -> Self {
        Self::new()
    }
}

impl Drop for Scratch {
    fn drop(&mut self) {
        let _ = std::fs::remove_dir_all(&self.dir);
    }
}

#[derive(Debug, Clone)]
pub struct Output {
    pub code: Option<i32>,
    pub signal: Option<i32>,
    pub stdout: Vec<u8>,
    pub stderr: Vec<u8>,
    pub timed_out: bool,
}

impl Output {
    pub fn out(&self) -> String {
        String::from_utf8_lossy(&self.stdout).into_owned()
    }
    pub fn err(&self) -> String {
        String::from_utf8_lossy(&self.stderr).into_owned()
    }
    /// exit status 101, death by signal, or a panic message on stderr
    pub fn panicked(&self) -> bool {
        if self.timed_out {
            return false;
        }
        self.code == Some(101)
            || self.signal.is_some()
            || self.err().contains("panicked at")
            || self.err().contains("stack overflow")
    }
    /// The tool declined the request: a non-zero exit status together with an error / usage message
    /// on stderr. (Exit statuses as such are not prescribed by any property: a tool may, e.g., signal
    /// "unsatisfiable" by its status while printing its normal output.)
    pub fn refused(&self) -> bool {
        if self.timed_out || self.panicked() || self.code == Some(0) {
            return false;
        }
        self.err().lines().any(|l| {
            let l = l.trim_start().to_lowercase();
            l.starts_with("error") || l.starts_with("usage")
        })
    }
    /// The request was processed: no time-out, no panic, no refusal.
    pub fn ok(&self) -> bool {
        !self.timed_out && !self.panicked() && self.code.is_some() && !self.refused()
    }
    pub fn describe(&self) -> String {
        let e = self.err();
        let tail: String = e
            .lines()
            .filter(|l| !l.starts_with("finished ") && !l.starts_with("omitted choice"))
            .take(4)
            .collect::<Vec<_>>()
            .join(" / ");
        format!(
            "exit={:?} signal={:?} timed_out={} stderr: {}",
            self.code, self.signal, self.timed_out, tail
        )
    }
}

pub fn run(program: &Path, args: &[String], stdin: Option<&[u8]>, timeout: Duration) -> Output {
    let mut cmd = Command::new(program);
    cmd.args(args)
        .env("RUST_BACKTRACE", "0")
        .env_remove("RUST_LOG")
        .stdin(if stdin.is_some() { Stdio::piped() } else { Stdio::null() })
        .stdout(Stdio::piped())
        .stderr(Stdio::piped());
    let mut child = match cmd.spawn() {
        Ok(c) => c,
        Err(e) => {
            return Output {
                code: None,
                signal: None,
                stdout: vec![],
                stderr: format!("HARNESS: cannot spawn {}: {}", program.display(), e).into_bytes(),
                timed_out: true,
            }
        }
    };
    let input: Option<Vec<u8>> = stdin.map(|s| s.to_vec());
    let mut sin = child.stdin.take();
    let wt = std::thread::spawn(move || {
        if let (Some(mut s), Some(data)) = (sin.take(), input) {
            let _ = s.write_all(&data);
        }
    });
    let mut so = child.stdout.take().expect("stdout");
    let mut se = child.stderr.take().expect("stderr");
    let ot = std::thread::spawn(move || {
        let mut v = Vec::new();
        let _ = so.read_to_end(&mut v);
        v
    });
    let et = std::thread::spawn(move || {
        let mut v = Vec::new();
        let _ = se.read_to_end(&mut v);
        v
    });
    let start = Instant::now();
    let mut timed_out = false;
    let status = loop {
        match child.try_wait() {
            Ok(Some(s)) => break Some(s),
            Ok(None) => {
                if start.elapsed() > timeout {
                    let _ = child.kill();
                    let _ = child.wait();
                    timed_out = true;
                    break None;
                }
                std::thread::sleep(Duration::from_millis(if start.elapsed().as_millis() < 50 { 1 } else { 5 }));
            }
            Err(_) => break None,
        }
    };
    let _ = wt.join();
    let stdout = ot.join().unwrap_or_default();
    let stderr = et.join().unwrap_or_default();
    #[cfg(unix)]
    let signal = {
        use std::os::unix::process::ExitStatusExt;
        status.and_then(|s| s.signal())
    };
    #[cfg(not(unix))]
    let signal = None;
    Output {
        code: status.and_then(|s| s.code()),
        signal: if timed_out { None } else { signal },
        stdout,
        stderr,
        timed_out,
    }
}

pub fn s(x: &str) -> String {
    x.to_string()
}

// ---------------------------------------------------------------- rsbdd stdout

#[derive(Debug, Clone, PartialEq, Eq)]
pub enum Cell {
    True,
    False,
    Any,
}

#[derive(Debug, Clone, Default)]
pub struct Printed {
    /// names exported by -r (before the table), in order
    pub ordering: Vec<String>,
    /// header names without the trailing `*` column (None = no table printed)
    pub header: Option<Vec<String>>,
    pub rows: Vec<(Vec<Cell>, bool)>,
    /// -v lines: (name, starred)
    pub var_lines: Vec<Vec<(String, bool)>>,
    /// other lines after the table (not interpreted)
    pub trailer: Vec<String>,
}

/// characters that may separate the columns of a table (ASCII bar, box-drawing and full-width bars)
const BARS: [char; 7] = ['|', '\u{2502}', '\u{2503}', '\u{2551}', '\u{a6}', '\u{ff5c}', '\u{2506}'];

fn cells(line: &str) -> Vec<String> {
    let t = line.trim();
    let inner = t.strip_prefix(|c: char| BARS.contains(&c)).unwrap_or(t);
    let inner = inner.strip_suffix(|c: char| BARS.contains(&c)).unwrap_or(inner);
    inner.split(|c: char| BARS.contains(&c)).map(|c| c.trim().to_string()).collect()
}

/// a horizontal rule: only line-drawing characters (ASCII or box-drawing), junctions and blanks
fn is_rule(t: &str) -> bool {
    let drawing = |c: char| matches!(c, '-' | '=' | ':' | '+' | '~') || ('\u{2500}'..='\u{257f}').contains(&c);
    t.chars().all(|c| drawing(c) || BARS.contains(&c) || c.is_whitespace()) && t.chars().any(drawing)
}

/// The tool's own vocabulary for truth-table entries (the spellings `-f` / `-c` accept),
/// case-insensitively.
pub fn entry(x: &str) -> Option<Cell> {
    match x.to_lowercase().as_str() {
        "true" | "t" | "1" => Some(Cell::True),
        "false" | "f" | "0" => Some(Cell::False),
        "any" | "a" | "*" => Some(Cell::Any),
        _ => None,
    }
}

/// Read the stdout of `rsbdd` (-r, -t, -v in that order of appearance). Only the content is
/// read; the drawing of the table is free:
///  * a line made of line-drawing characters only is a rule and is skipped wherever it stands;
///  * a table line starts with a column separator (`|` or a box-drawing bar); its cells are trimmed;
///    the result column is the one titled `*` wherever it stands (otherwise the last one);
///  * a `-v` line ends with `;` and lists names separated by commas, `*` marking "either value";
///  * the lines before the table are the exported variable order, read the way `-o` reads an
///    ordering file: the identifiers of the text in order of appearance.
pub fn parse_stdout(out: &str) -> Result<Printed, String> {
    let mut p = Printed::default();
    let mut ordering_text = String::new();
    let mut result_col = 0usize;
    for line in out.lines() {
        let t = line.trim();
        if t.is_empty() {
            continue;
        }
        let is_var_line = t.ends_with(';');
        if !is_var_line && is_rule(t) {
            continue;
        }
        if t.starts_with(|c: char| BARS.contains(&c)) && !is_var_line {
            if p.header.is_none() {
                let mut h = cells(line);
                if h.len() < 1 {
                    return Err(format!("table header without columns: {:?}", line));
                }
                // the result column: the one titled `*` (not a legal variable name) wherever it
                // stands; without such a title, the last column
                let stars: Vec<usize> = h.iter().enumerate().filter(|(_, c)| c.as_str() == "*").map(|x| x.0).collect();
                result_col = if stars.len() == 1 { stars[0] } else { h.len() - 1 };
                h.remove(result_col);
                p.header = Some(h);
            } else {
                let mut c = cells(line);
                let n = p.header.as_ref().map(|h| h.len()).unwrap_or(0);
                if c.len() != n + 1 {
                    return Err(format!("row has {} cells, header has {}: {:?}", c.len(), n + 1, line));
                }
                let rc = c.remove(result_col);
                let mut vals = Vec::new();
                for x in &c {
                    vals.push(entry(x).ok_or_else(|| format!("unexpected cell {:?} in row {:?}", x, line))?);
                }
                let res = match entry(&rc) {
                    Some(Cell::True) => true,
                    Some(Cell::False) => false,
                    _ => return Err(format!("unexpected result cell {:?}", rc)),
                };
                p.rows.push((vals, res));
            }
        } else if is_var_line {
            let body = &t[..t.len() - 1];
            let mut v = Vec::new();
            for item in body.split(',') {
                let item = item.trim();
                if item.is_empty() {
                    continue;
                }
                if let Some(n) = item.strip_suffix('*') {
                    v.push((n.trim().to_string(), true));
                } else {
                    v.push((item.to_string(), false));
                }
            }
            p.var_lines.push(v);
        } else if p.header.is_none() && p.var_lines.is_empty() {
            ordering_text.push_str(line);
            ordering_text.push('\n');
        } else {
            // anything else after the table (a row count, a legend) is not part of the specified
            // content; rows that fail to appear as rows are found by the coverage checks
            p.trailer.push(line.to_string());
        }
    }
    if !ordering_text.is_empty() {
        let toks = crate::rlex::lex(&ordering_text).map_err(|e| format!("the lines before the table are not readable as a variable order: {}", e))?;
        // (a text that `-o` would read as the empty ordering - comments, punctuation - is the empty ordering)
        p.ordering = crate::rlex::identifiers(&toks);
    }
    Ok(p)
}

/// Does `row` (partial assignment over header columns) cover total assignment idx?
fn covers(row: &[Cell], idx: usize) -> bool {
    row.iter().enumerate().all(|(p, c)| match c {
        Cell::Any => true,
        Cell::True => (idx >> p) & 1 == 1,
        Cell::False => (idx >> p) & 1 == 0,
    })
}

/// Check the printed rows against the function `f` (position p = header column p).
/// filter: 'a' | 't' | 'f'.
pub fn check_rows(rows: &[(Vec<Cell>, bool)], f: &TT, filter: char) -> Result<(), String> {
    let n = f.len();
    let mut cover = vec![0u32; n];
    for (ri, (row, res)) in rows.iter().enumerate() {
        if row.len() != f.k {
            return Err(format!("row {} has {} cells for {} columns", ri, row.len(), f.k));
        }
        for idx in 0..n {
            if covers(row, idx) {
                cover[idx] += 1;
                if f.get(idx) != *res {
                    return Err(format!(
                        "row {} ({:?} -> {}) covers assignment {:#b} on which the formula is {}",
                        ri,
                        row,
                        res,
                        idx,
                        f.get(idx)
                    ));
                }
            }
        }
    }
    for idx in 0..n {
        let want = match filter {
            'a' => 1,
            't' => u32::from(f.get(idx)),
            'f' => u32::from(!f.get(idx)),
            _ => return Err("HARNESS: filter".into()),
        };
        if cover[idx] != want {
            return Err(format!(
                "assignment {:#b} (formula value {}) is covered by {} rows, expected {} under filter {}",
                idx,
                f.get(idx),
                cover[idx],
                want,
                filter
            ));
        }
    }
    Ok(())
}

/// -v lines: listed = True, starred = Any, absent = False; they must cover exactly the
/// satisfying assignments, disjointly.
pub fn check_var_lines(lines: &[Vec<(String, bool)>], header: &[String], f: &TT) -> Result<(), String> {
    let mut rows = Vec::new();
    for l in lines {
        let mut row = vec![Cell::False; header.len()];
        for (name, star) in l {
            let p = header
                .iter()
                .position(|h| h == name)
                .ok_or_else(|| format!("-v lists `{}` which is not a free variable", name))?;
            row[p] = if *star { Cell::Any } else { Cell::True };
        }
        rows.push((row, true));
    }
    check_rows(&rows, f, 't')
}
