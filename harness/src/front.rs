//! Thin access layer to the implementation's front-end (ParsedFormula) plus by-name walkers.

use crate::plain;
use crate::tt::TT;
use crate::util;
use rsbdd::bdd::BDD;
use rsbdd::parser::ParsedFormula;
use rsbdd::NamedSymbol;
use std::io::BufReader;
use std::rc::Rc;

pub type NB = Rc<BDD<NamedSymbol>>;

pub fn parse(text: &[u8], ordering: Option<Vec<NamedSymbol>>) -> Result<ParsedFormula, String> {
    let mut rd = BufReader::new(text);
    ParsedFormula::new(&mut rd, ordering).map_err(|e| e.to_string())
}

/// parse + eval; parse errors are `Err`, panics propagate (callers use `guarded`).
pub fn eval_text(text: &str, ordering: Option<Vec<NamedSymbol>>) -> Result<(NB, ParsedFormula), String> {
    let pf = parse(text.as_bytes(), ordering)?;
    let r = pf.eval();
    Ok((r, pf))
}

/// Does the text contain a number literal in (i64::MAX, u64::MAX]? Whether the syntax accepts such
/// literals is left to the implementation (C05: "every non-negative constant the syntax accepts");
/// a rejection of such a text is therefore not judged.
pub fn huge_literal(text: &str) -> bool {
    match crate::rlex::lex(text) {
        Ok(toks) => toks.iter().any(|t| matches!(t, crate::rlex::Tok::Num(v) if *v > i64::MAX as u64)),
        Err(_) => false,
    }
}

/// The violation (or the declined case) for a well-formed text that the implementation rejected.
pub fn rejection(text: &str, what: &str, err: &str, case: &serde_json::Value) -> crate::engine::Violation {
    if huge_literal(text) {
        crate::engine::Violation::new(
            "SKIP: text with a number literal beyond i64::MAX rejected (acceptance of such literals is implementation-defined)",
            case.clone(),
        )
    } else {
        crate::engine::Violation::new(format!("{} rejected: {}", what, err), case.clone())
    }
}

/// Outcome of running the implementation on a text with every panic captured.
pub enum Run {
    ParseErr(String),
    ParsePanic(String),
    EvalPanic(String, ParsedFormula),
    Ok(NB, ParsedFormula),
}

pub fn run_text(text: &[u8], ordering: Option<Vec<NamedSymbol>>, fp_limit: Option<usize>) -> Run {
    let p = util::catch(|| parse(text, ordering));
    match p {
        Err(m) => Run::ParsePanic(m),
        Ok(Err(e)) => Run::ParseErr(e),
        Ok(Ok(pf)) => {
            rsbdd::bdd::verif_hooks::set_fp_iteration_limit(fp_limit);
            let r = util::catch(|| pf.eval());
            rsbdd::bdd::verif_hooks::set_fp_iteration_limit(None);
            match r {
                Ok(b) => Run::Ok(b, pf),
                Err(m) => Run::EvalPanic(m, pf),
            }
        }
    }
}

pub fn sym(name: &str, id: usize) -> NamedSymbol {
    NamedSymbol {
        name: Rc::new(name.to_string()),
        id,
    }
}

/// Truth table of a NamedSymbol diagram addressing variables BY NAME: position p of the
/// table is `names[p]`.
pub fn table_by_name(b: &NB, names: &[String]) -> Result<TT, String> {
    plain::table(b, names.len(), &|s: &NamedSymbol| {
        names.iter().position(|n| n == s.name.as_ref())
    })
}

pub fn support_names(b: &NB) -> Vec<String> {
    let mut v: Vec<String> = plain::reachable(b)
        .iter()
        .filter_map(|n| match n.as_ref() {
            BDD::Choice(_, s, _) => Some(s.name.as_ref().clone()),
            _ => None,
        })
        .collect();
    v.sort();
    v.dedup();
    v
}

/// DNF text of a function over the given names (position p = names[p]).
pub fn dnf_text(tt: &TT, names: &[String]) -> String {
    assert_eq!(tt.k, names.len());
    if tt.is_true() {
        return "true".into();
    }
    if tt.is_false() {
        return "false".into();
    }
    let mut terms = Vec::new();
    for idx in 0..tt.len() {
        if tt.get(idx) {
            let lits: Vec<String> = (0..tt.k)
                .map(|p| {
                    if (idx >> p) & 1 == 1 {
                        names[p].clone()
                    } else {
                        format!("-{}", names[p])
                    }
                })
                .collect();
            terms.push(format!("({})", lits.join(" & ")));
        }
    }
    terms.join(" | ")
}
