//! Reference lexer, written from README.md and the observed alias tables; shares no
//! code with src/parser.rs. `\w` / `\d` membership of non-ASCII characters is taken from
//! the `regex` crate's character classes (a dependency of rsbdd, not code under test).

use regex::Regex;
use rsbdd::parser::SymbolicBDDToken;
use std::cell::RefCell;
use std::collections::HashMap;

#[derive(Clone, Debug, PartialEq, Eq, Hash)]
pub enum Tok {
    Var(String),
    Num(u64),
    Ref(String),
    And,
    Or,
    Not,
    Xor,
    Nor,
    Nand,
    Implies,
    ImpliesInv,
    Iff,
    If,
    Then,
    Else,
    Exists,
    Forall,
    Eq,
    Geq,
    Gt,
    Lt,
    LParen,
    RParen,
    LSq,
    RSq,
    Comma,
    False,
    True,
    Lfp,
    Gfp,
    Hash,
    Eof,
}

thread_local! {
    static CLASS: RefCell<(Regex, Regex, HashMap<char, (bool, bool)>)> = RefCell::new((
        Regex::new(r"^[\w']$").expect("regex"),
        Regex::new(r"^\d$").expect("regex"),
        HashMap::new(),
    ));
}

/// (is word char or apostrophe, is digit)
pub fn class(c: char) -> (bool, bool) {
    if c.is_ascii() {
        let d = c.is_ascii_digit();
        return (c.is_ascii_alphanumeric() || c == '_' || c == '\'', d);
    }
    CLASS.with(|cl| {
        let mut cl = cl.borrow_mut();
        if let Some(r) = cl.2.get(&c) {
            return *r;
        }
        let mut buf = [0u8; 4];
        let s: &str = c.encode_utf8(&mut buf);
        let r = (cl.0.is_match(s), cl.1.is_match(s));
        cl.2.insert(c, r);
        r
    })
}

pub fn is_word(c: char) -> bool {
    class(c).0
}

pub fn is_digit(c: char) -> bool {
    class(c).1
}

pub fn keyword(s: &str) -> Option<Tok> {
    Some(match s {
        "false" => Tok::False,
        "true" => Tok::True,
        "not" => Tok::Not,
        "and" => Tok::And,
        "or" => Tok::Or,
        "xor" => Tok::Xor,
        "nor" => Tok::Nor,
        "nand" => Tok::Nand,
        "implies" | "in" => Tok::Implies,
        "iff" | "eq" => Tok::Iff,
        "exists" | "any" => Tok::Exists,
        "forall" | "all" => Tok::Forall,
        "if" => Tok::If,
        "then" => Tok::Then,
        "else" => Tok::Else,
        "gfp" | "nu" => Tok::Gfp,
        "lfp" | "mu" => Tok::Lfp,
        _ => return None,
    })
}

pub const KEYWORDS: [&str; 23] = [
    "false", "true", "not", "and", "or", "xor", "nor", "nand", "implies", "in", "iff", "eq", "exists", "any",
    "forall", "all", "if", "then", "else", "gfp", "nu", "lfp", "mu",
];

/// Longest-match symbol at the start of `s`: (token, length in bytes)
fn symbol(s: &str) -> Option<(Tok, usize)> {
    const TABLE: [(&str, Tok); 19] = [
        ("<=>", Tok::Iff),
        ("<=", Tok::ImpliesInv),
        ("=>", Tok::Implies),
        (">=", Tok::Geq),
        ("!", Tok::Not),
        ("-", Tok::Not),
        ("&", Tok::And),
        ("*", Tok::And),
        ("|", Tok::Or),
        ("+", Tok::Or),
        ("^", Tok::Xor),
        ("#", Tok::Hash),
        ("=", Tok::Eq),
        (">", Tok::Gt),
        ("<", Tok::Lt),
        ("[", Tok::LSq),
        ("]", Tok::RSq),
        (",", Tok::Comma),
        ("(", Tok::LParen),
    ];
    for (t, tok) in TABLE.iter() {
        if s.starts_with(t) {
            return Some((tok.clone(), t.len()));
        }
    }
    if s.starts_with(')') {
        return Some((Tok::RParen, 1));
    }
    None
}

/// Tokenise. `Err` = the text as a whole is rejected (a number that is not a machine
/// integer: non-ASCII digits or a value beyond usize).
pub fn lex(text: &str) -> Result<Vec<Tok>, String> {
    let mut out = Vec::new();
    let mut i = 0usize;
    while i < text.len() {
        let rest = &text[i..];
        let c = rest.chars().next().expect("char");
        if let Some((tok, n)) = symbol(rest) {
            out.push(tok);
            i += n;
            continue;
        }
        if is_digit(c) {
            let mut j = i;
            for ch in rest.chars() {
                if is_digit(ch) {
                    j += ch.len_utf8();
                } else {
                    break;
                }
            }
            let digits = &text[i..j];
            if !digits.bytes().all(|b| b.is_ascii_digit()) {
                return Err(format!("number `{}` contains non-ASCII digits", digits));
            }
            // machine integer: usize is 64 bit on every supported target of this harness
            let mut v: u64 = 0;
            for b in digits.bytes() {
                v = v
                    .checked_mul(10)
                    .and_then(|x| x.checked_add((b - b'0') as u64))
                    .ok_or_else(|| format!("number `{}` does not fit a machine integer", digits))?;
            }
            out.push(Tok::Num(v));
            i = j;
            continue;
        }
        if c == '{' {
            // {word}
            let inner = &rest[1..];
            let mut j = 0usize;
            for ch in inner.chars() {
                if is_word(ch) {
                    j += ch.len_utf8();
                } else {
                    break;
                }
            }
            if j > 0 && inner[j..].starts_with('}') {
                out.push(Tok::Ref(inner[..j].to_string()));
                i += 1 + j + 1;
                continue;
            }
            i += 1;
            continue;
        }
        if is_word(c) {
            let mut j = i;
            for ch in rest.chars() {
                if is_word(ch) {
                    j += ch.len_utf8();
                } else {
                    break;
                }
            }
            let w = &text[i..j];
            out.push(keyword(w).unwrap_or_else(|| Tok::Var(w.to_string())));
            i = j;
            continue;
        }
        if c == '"' {
            // a comment if there is a closing quote; otherwise a stray character
            if let Some(end) = rest[1..].find('"') {
                i += 1 + end + 1;
                continue;
            }
            i += 1;
            continue;
        }
        // any other character separates tokens
        i += c.len_utf8();
    }
    out.push(Tok::Eof);
    Ok(out)
}

/// The implementation's token as a reference token (variables by name).
pub fn from_impl(t: &SymbolicBDDToken) -> Tok {
    match t {
        SymbolicBDDToken::Var(v) => Tok::Var(v.name.as_ref().clone()),
        SymbolicBDDToken::Countable(n) => Tok::Num(*n as u64),
        SymbolicBDDToken::Reference(r) => Tok::Ref(r.clone()),
        SymbolicBDDToken::And => Tok::And,
        SymbolicBDDToken::Or => Tok::Or,
        SymbolicBDDToken::Not => Tok::Not,
        SymbolicBDDToken::Xor => Tok::Xor,
        SymbolicBDDToken::Nor => Tok::Nor,
        SymbolicBDDToken::Nand => Tok::Nand,
        SymbolicBDDToken::Implies => Tok::Implies,
        SymbolicBDDToken::ImpliesInv => Tok::ImpliesInv,
        SymbolicBDDToken::Iff => Tok::Iff,
        SymbolicBDDToken::If => Tok::If,
        SymbolicBDDToken::Then => Tok::Then,
        SymbolicBDDToken::Else => Tok::Else,
        SymbolicBDDToken::Exists => Tok::Exists,
        SymbolicBDDToken::Forall => Tok::Forall,
        SymbolicBDDToken::Eq => Tok::Eq,
        SymbolicBDDToken::Geq => Tok::Geq,
        SymbolicBDDToken::Gt => Tok::Gt,
        SymbolicBDDToken::Lt => Tok::Lt,
        SymbolicBDDToken::OpenParen => Tok::LParen,
        SymbolicBDDToken::CloseParen => Tok::RParen,
        SymbolicBDDToken::OpenSquare => Tok::LSq,
        SymbolicBDDToken::CloseSquare => Tok::RSq,
        SymbolicBDDToken::Comma => Tok::Comma,
        SymbolicBDDToken::False => Tok::False,
        SymbolicBDDToken::True => Tok::True,
        SymbolicBDDToken::LFP => Tok::Lfp,
        SymbolicBDDToken::GFP => Tok::Gfp,
        SymbolicBDDToken::Hash => Tok::Hash,
        SymbolicBDDToken::Eof => Tok::Eof,
    }
}

/// identifiers (Var tokens) in order of first appearance
pub fn identifiers(toks: &[Tok]) -> Vec<String> {
    let mut out: Vec<String> = Vec::new();
    let mut seen: std::collections::HashSet<&str> = std::collections::HashSet::new();
    for t in toks {
        if let Tok::Var(n) = t {
            if seen.insert(n.as_str()) {
                out.push(n.clone());
            }
        }
    }
    out
}

#[cfg(test)]
mod tests {
    use super::*;
    fn names(text: &str) -> Vec<Tok> {
        lex(text).unwrap()
    }
    #[test]
    fn munch() {
        assert_eq!(names("<==>"), vec![Tok::ImpliesInv, Tok::Implies, Tok::Eof]);
        assert_eq!(names("<=>="), vec![Tok::Iff, Tok::Eq, Tok::Eof]);
        assert_eq!(names("1a"), vec![Tok::Num(1), Tok::Var("a".into()), Tok::Eof]);
        assert_eq!(names("a\"b\"c\"d"), vec![Tok::Var("a".into()), Tok::Var("c".into()), Tok::Var("d".into()), Tok::Eof]);
        assert_eq!(names("{{a}}"), vec![Tok::Ref("a".into()), Tok::Eof]);
        assert_eq!(names("{a b}"), vec![Tok::Var("a".into()), Tok::Var("b".into()), Tok::Eof]);
        assert_eq!(names("mand"), vec![Tok::Var("mand".into()), Tok::Eof]);
        assert_eq!(names("x\u{b2}y"), vec![Tok::Var("x".into()), Tok::Var("y".into()), Tok::Eof]);
        assert!(lex("[a] >= \u{663}").is_err());
        assert!(lex("99999999999999999999999").is_err());
        assert_eq!(names(""), vec![Tok::Eof]);
    }
}
