#!/bin/bash
# build.sh harness|bins|all  — (re)build from /repo's current working tree.
# Output is quiet unless the build fails. Exit 2 on build failure.
set -u
VERIF="$(cd "$(dirname "$0")" && pwd)"
REPO="${VERIF_REPO:-/repo}"
export CARGO_NET_OFFLINE=true
what="${1:-all}"
mkdir -p "$VERIF/target"
LOCK="$VERIF/target/.build.lock"
exec 9>"$LOCK"
flock 9

build_harness() {
  ( cd "$VERIF/harness" && cargo build --release --quiet ) >"$VERIF/target/harness-build.log" 2>&1 || {
    cat "$VERIF/target/harness-build.log" >&2
    echo "INCONCLUSIVE: harness build failed" >&2
    return 2
  }
}

build_bins() {
  # the repo workspace binaries, release + overflow checks + debug assertions,
  # with the verif feature on, in a target dir outside /repo
  ( cd "$REPO" && \
    CARGO_PROFILE_RELEASE_DEBUG_ASSERTIONS=true \
    CARGO_PROFILE_RELEASE_OVERFLOW_CHECKS=true \
    cargo build --release --quiet --workspace --bins --features rsbdd/verif \
      --target-dir "$VERIF/target/repo" ) >"$VERIF/target/bins-build.log" 2>&1 || {
    cat "$VERIF/target/bins-build.log" >&2
    echo "INCONCLUSIVE: repository build failed" >&2
    return 2
  }
}

build_fuzz() {
  # libFuzzer targets (thorough tier only); needs the nightly toolchain and cargo-fuzz.
  # Not being able to build them is not an error of the check: the stage is skipped.
  ( cd "$VERIF/harness" && cargo +nightly fuzz build -s none ) >"$VERIF/target/fuzz-build.log" 2>&1 || {
    echo "note: fuzz targets could not be built (see target/fuzz-build.log); fuzz stages will be skipped" >&2
    return 3
  }
}

case "$what" in
  fuzz) build_fuzz; exit 0 ;;
  harness) build_harness || exit 2 ;;
  bins) build_bins || exit 2 ;;
  all) build_harness || exit 2; build_bins || exit 2 ;;
  *) echo "usage: build.sh harness|bins|all|fuzz" >&2; exit 2 ;;
esac
exit 0
