#!/bin/bash
# Offline build of the harness and of the repository's five binaries (from /repo's
# current working tree) into /verif/target. Idempotent.
set -u
cd "$(dirname "$0")"
export CARGO_NET_OFFLINE=true
./build.sh all
